#!/usr/bin/env python3
"""Validate MANIFEST.json and every evidence file against the given schemas."""
import json, sys, glob
from jsonschema import Draft202012Validator
ok = True
def check(path, schema):
    global ok
    try:
        doc = json.load(open(path))
    except Exception as e:
        print("BAD JSON", path, e); ok = False; return
    errs = list(Draft202012Validator(json.load(open(schema))).iter_errors(doc))
    for e in errs:
        print("INVALID", path, list(e.path), e.message[:200]); ok = False
check('/verif/MANIFEST.json', '/root/.vp/MANIFEST.schema.json')
for f in sorted(glob.glob('/verif/evidence/*.json')):
    check(f, '/root/.vp/EVIDENCE.schema.json')
m = json.load(open('/verif/MANIFEST.json'))
claimed = {c['property_id'] for c in m['checks']}
na = {c['property_id'] for c in m.get('not_applicable', [])}
allp = {json.loads(l)['id'] for l in open('/verif/properties.jsonl')}
if claimed & na: print("both claimed and n/a:", claimed & na); ok = False
if (claimed | na) != allp: print("unaccounted:", allp - claimed - na); ok = False
print("OK" if ok else "FAILED"); sys.exit(0 if ok else 1)
