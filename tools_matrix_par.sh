#!/bin/sh
# usage: tools_matrix_par.sh <worker-no> <out-file> <seed>...   - runs the named seeded faults against the
# check(s) named in their meta.json on a private scratch worktree (devmut), one line per seed like MATRIX.txt
w="$1"; out="$2"; shift 2
export MUTREPO=/tmp/mutrepo$w MUTMOD=/tmp/mut$w.mod
cd /verif || exit 2
for s in "$@"; do
  d=seeded/$s
  ids=$(python3 -c "import json;print(' '.join(json.load(open('$d/meta.json'))['caught_by']))")
  for id in $ids; do
    o=$(./devmut $d/patch.diff $id 2>&1)
    key=$(echo "$o" | grep -m1 "^VIOLATION" | sed 's/.*key=\([^ ]*\).*/\1/')
    rc=0; echo "$o" | grep -q "^VIOLAT" && rc=1; echo "$o" | grep -q "^INCONCLUSIVE" && rc=2
    echo "$s $id exit=$rc ${key:-none}" >> $out
  done
done
