#!/bin/sh
# usage: tools_mutant.sh <patch.diff> <ID> [tier]  - applies a patch to /repo, runs the check, reverts.
patch="$(readlink -f "$1")"; id="$2"; tier="${3:-quick}"
cd /verif || exit 2
if [ -n "$(git -C /repo status --porcelain)" ]; then echo "/repo not clean"; exit 2; fi
git -C /repo apply "$patch" || { echo "patch does not apply"; exit 2; }
# evidence written while /repo is patched is not evidence about /repo: keep the file aside
[ -f "evidence/$id.json" ] && cp "evidence/$id.json" "/tmp/mutant.$$.evidence"
./check "$id" "$tier" > /tmp/mutant.$$.out 2>&1; rc=$?
git -C /repo apply -R "$patch"
[ -f "/tmp/mutant.$$.evidence" ] && mv "/tmp/mutant.$$.evidence" "evidence/$id.json"
if [ -n "$(git -C /repo status --porcelain)" ]; then echo "WARNING: /repo not clean after revert"; git -C /repo status --porcelain; fi
grep -E "^(VIOLATION|INCONCLUSIVE|HELD|VIOLATED)" /tmp/mutant.$$.out | cut -c1-400 | head -8
rm -f /tmp/mutant.$$.out
echo "exit=$rc"
