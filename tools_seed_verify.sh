#!/bin/sh
# usage: tools_seed_verify.sh <seed-dir>
# <seed-dir> holds patch.diff, demo_test.go, demo_path.txt (path of the demo
# inside the repository, e.g. zz_seeded_demo_test.go or encoding/zz_seeded_demo_test.go).
# Confirms in a scratch worktree (removed afterwards) that
#   - the demonstration PASSES on the unchanged tree,
#   - with the patch the repository builds and its own test suite passes,
#   - with the patch the demonstration FAILS.
d="$(readlink -f "$1")"
export GOFLAGS=-mod=mod GOPROXY=off GOSUMDB=off GOTOOLCHAIN=local
[ -f "$d/patch.diff" ] && [ -f "$d/demo_test.go" ] && [ -f "$d/demo_path.txt" ] || { echo "RESULT incomplete-deliverable"; exit 2; }
wt=$(mktemp -d /tmp/vseed.XXXXXX)
rmdir "$wt"
git -C /repo worktree add --detach "$wt" HEAD -q || { echo "RESULT worktree-failed"; exit 2; }
cleanup() { git -C /repo worktree remove --force "$wt" >/dev/null 2>&1; rm -rf "$wt"; }
dp="$(cat "$d/demo_path.txt" | tr -d ' \n')"
pkgdir="$(dirname "$dp")"
res=ok
RACE=""
[ -f "$d/NEEDS_RACE" ] && RACE="-race"   # the demonstration only fails under the race detector
cp "$d/demo_test.go" "$wt/$dp"
if ! (cd "$wt" && go test $RACE -count=1 -run 'TestSeededDemo' "./$pkgdir/" >"$wt/.demo0.log" 2>&1); then
  echo "demo fails on the UNCHANGED tree:"; tail -15 "$wt/.demo0.log"; res=demo-fails-unchanged
fi
grep -q "no tests to run" "$wt/.demo0.log" && { echo "demo did not run any test"; res=demo-empty; }
rm -f "$wt/$dp"
if ! git -C "$wt" apply "$d/patch.diff" 2>"$wt/.apply.log"; then
  echo "patch does not apply:"; cat "$wt/.apply.log"; cleanup; echo "RESULT patch-does-not-apply"; exit 1
fi
if ! (cd "$wt" && go build ./... >"$wt/.build.log" 2>&1 && go vet ./... >>"$wt/.build.log" 2>&1); then
  echo "build/vet fails with the patch:"; tail -15 "$wt/.build.log"; res=build-fails
fi
if ! (cd "$wt" && go test -count=1 ./... >"$wt/.suite.log" 2>&1); then
  echo "existing suite FAILS with the patch:"; grep -E "^(--- FAIL|FAIL|ok)" "$wt/.suite.log" | head; res=suite-fails
fi
cp "$d/demo_test.go" "$wt/$dp"
if (cd "$wt" && go test $RACE -count=1 -run 'TestSeededDemo' "./$pkgdir/" >"$wt/.demo1.log" 2>&1); then
  echo "demo PASSES with the patch (should fail)"; res=demo-passes-with-patch
else
  grep -E "^(--- FAIL|panic|FAIL)" "$wt/.demo1.log" | head -3
fi
cleanup
echo "RESULT $res"
[ "$res" = ok ]
