#!/usr/bin/env python3
"""Regenerates /verif/MANIFEST.json from the table below (kept in one place so
that the manifest stays valid while checks are added)."""
import json, subprocess

IMPLEMENTED = """C01 C02 C03 C04 C05 C06 C07 C08 C09 C10 C11 C12 C13 C14 C15 C16 C17 C18 C19 C20""".split()

LEVEL = {p: "exploration" for p in ["C%02d" % i for i in range(1, 21)]}
LEVEL["C19"] = "fault_enumeration"

TECH = {
 "C01": "online reference-model monitor over generated claims-sets (exhaustive single-claim sweeps + class products)",
 "C02": "runtime tamper monitor: bit-flip/splice/truncation mutants of real signed tokens, content-based oracle from an independent CBOR/COSE reader",
 "C03": "round-trip monitor with independent COSE_Sign1 verifier (stdlib crypto) and envelope hook",
 "C04": "online reference-model monitor over wire tokens assembled by an independent CBOR encoder (three-valued verdict)",
 "C05": "crash monitor: recover()+process supervisor with write-ahead log over structure-aware mutants and byte-level fuzz",
 "C06": "resource monitor: per-call TotalAlloc / thread-CPU deltas under RLIMIT_AS over length/depth/width bombs",
 "C07": "dispatch monitor over tokens x registry configurations (one process per configuration)",
 "C08": "differential gate monitor: each validating entry point vs Validate() and its non-validating sibling",
 "C09": "round-trip monitor (observation + byte stability) over valid and decodable-invalid tokens",
 "C10": "wire-format monitor: independent CBOR reader + expected-wire model on every emitted encoding",
 "C11": "setter monitor + last-successful-write-wins trace checker over random setter histories",
 "C12": "JSON round-trip / CBOR-equivalence monitor with generic JSON parse of emitted documents",
 "C13": "error-class monitor (errors.Is) over single and combined faults; generated error trees for the filter",
 "C14": "exhaustive runtime sweep of all 65536 values against an independent table",
 "C15": "codec monitor over a family of struct shapes (compile-time and reflect.StructOf) with independent CBOR/JSON readers",
 "C16": "offline trace checker over recorded registry histories (one process per history) + register snapshot and visit-order hooks",
 "C17": "Go race detector over concurrent read-side workload + sequential-equivalence oracle on recorded results",
 "C18": "deep-snapshot before/after monitor over read-side call sequences; input-buffer overwrite probe",
 "C19": "offline trace checker over Evidence operation histories with fault-injecting signers and independent COSE verifier",
 "C20": "envelope-shape monitor over envelopes assembled by an independent CBOR encoder",
}

TEXT = {
 "C14": "Every one of the 2^16 inputs is executed against the real code on every run and compared with an independent table; for this finite domain the exploration is complete (evidence sets exhaustive=true).",
}
DEFAULT_TEXT = "Held on the executions produced by this run: the real entry points are driven with generated cases (counts, class signatures and samples in the evidence file) and every call is judged by an oracle independent of the library. Runtime monitoring cannot speak for inputs, histories or schedules it did not execute."

NOTE = "Trusted base: the Go toolchain/runtime, the harness's own reference model / independent CBOR+COSE code / generators (validated by running them against the unchanged tree and against seeded faults kept under /verif/seeded), and - for cryptographic ground truth - the Go standard library."

props = [json.loads(l) for l in open('/verif/properties.jsonl')]
checks, na = [], []
for p in props:
    pid = p['id']
    if pid in IMPLEMENTED:
        checks.append({
            "property_id": pid,
            "quick_cmd": "./check %s quick" % pid,
            "thorough_cmd": "./check %s thorough" % pid,
            "evidence_file": "/verif/evidence/%s.json" % pid,
            "replay_cmd_template": "./check replay {path}",
            "engine": "psamon",
            "level_claimed": {"category": LEVEL[pid], "text": TEXT.get(pid, DEFAULT_TEXT), "design_ref": "DESIGN.md section 5, " + pid},
            "level_note": NOTE,
            "technique": TECH[pid],
        })
    else:
        na.append({"property_id": pid, "reason": "not claimed yet: the runtime monitor for this property is designed (DESIGN.md section 5) but not built/validated at this commit"})

hooks = subprocess.run(["git", "-C", "/repo", "log", "--format=%H %s"], capture_output=True, text=True).stdout.splitlines()
hook_commits = [l.split()[0] for l in hooks if l.split(' ', 1)[1].startswith("verif hook")]

m = {
 "version": 1,
 "setup_cmd": "./setup.sh",
 "hooks": {
  "guard": "verif",
  "enable": "go build -tags verif (the worker is built in /verif/harness with 'replace github.com/veraison/psatoken => /repo')",
  "baseline_off_cmd": "cd /repo && GOFLAGS=-mod=mod GOPROXY=off GOSUMDB=off go test -json -vet=off -count=1 -timeout 25m ./...",
  "source_commits": hook_commits,
  "add_only": True,
 },
 "engines": [
  {"name": "psamon", "path": "/verif/harness", "serves_properties": IMPLEMENTED,
   "kind_free_text": "runtime monitoring: supervisor (bin/psamon, does not link the library) + worker shards linking the real library built from /repo with -tags verif; oracles = independent reference model, independent CBOR/COSE readers, Go race detector, allocation/CPU meters, offline trace checkers"},
 ],
 "checks": checks,
 "not_applicable": na,
 "notes": "All checks: ./check <ID> <quick|thorough>; exit 0 held (KNOWN-FINDING lines allowed), 1 violation (VIOLATION line + replay file under /verif/replays), 2 inconclusive. VERIF_SEED seeds every random choice. known_findings.json lists recorded defects and fix: commits.",
}
json.dump(m, open('/verif/MANIFEST.json', 'w'), indent=1)
print("manifest: %d checks, %d not claimed" % (len(checks), len(na)))
