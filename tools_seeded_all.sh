#!/bin/sh
# Runs every seeded fault under /verif/seeded against the check(s) named in its meta.json
# (applies the patch to /repo, runs the quick check, reverts). Prints one line per seed.
cd /verif || exit 2
for d in seeded/*/; do
  s=$(basename "$d")
  [ -f "$d/meta.json" ] || continue
  ids=$(python3 -c "import json;print(' '.join(json.load(open('$d/meta.json'))['caught_by']))")
  for id in $ids; do
    out=$(./tools_mutant.sh "$d/patch.diff" "$id" 2>&1)
    rc=$(echo "$out" | grep -o "exit=[0-9]*" | tail -1)
    key=$(echo "$out" | grep -m1 "^VIOLATION" | sed 's/.*key=\([^ ]*\).*/\1/')
    echo "$s $id $rc ${key:-none}"
  done
done
