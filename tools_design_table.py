#!/usr/bin/env python3
"""Rewrites section 12 of DESIGN.md (between the markers) from seeded/*/meta.json
and the last matrix run (/verif/seeded/MATRIX.txt, produced by tools_seeded_all.sh)."""
import json, glob, os, re
metas = {}
for f in sorted(glob.glob('/verif/seeded/*/meta.json')):
    m = json.load(open(f)); metas[m['seed']] = m
matrix = {}
if os.path.exists('/verif/seeded/MATRIX.txt'):
    for l in open('/verif/seeded/MATRIX.txt'):
        p = l.split()
        if len(p) >= 4 and p[2].startswith('exit='):
            matrix[(p[0], p[1])] = (p[2], p[3])
def rnd(s):
    if s.startswith('revert'): return 0
    return {'a':1,'b':1,'c':2,'d':2,'e':3,'f':3,'g':4,'h':4,'i':5,'j':5,'k':6,'l':6,'m':7,'n':7,'o':8,'p':8,'q':9,'r':9,'s':10,'t':10,'u':11,'v':11,'w':12,'x':12,'y':13,'z':13}.get(s[-1], 14)
rows = []
n_total = n_missed = 0
per_round = {}
for sid, m in sorted(metas.items(), key=lambda kv: (rnd(kv[0]), kv[0])):
    r = rnd(sid)
    res = [matrix.get((sid, c)) for c in m['caught_by']]
    status = ', '.join('%s: %s' % (c, (x[1] if x and x[0]=='exit=1' else ('NOT RUN' if not x else 'MISSED ('+x[0]+')'))) for c, x in zip(m['caught_by'], res))
    missed = m.get('missed_at_first', False)
    n_total += 1; n_missed += bool(missed)
    pr = per_round.setdefault(r, [0,0]); pr[0]+=1; pr[1]+=bool(missed)
    ch = m['change'].replace('|','\\|')
    needs = m.get('needs_to_manifest','').replace('|','\\|')
    st = m.get('strengthening','').replace('|','\\|')
    rows.append('| %s | %s | %s | %s | %s | %s |' % (sid, m['property'], ch, needs, status.replace('|','\\|'), ('**missed at first** - ' + st) if missed else (st or 'caught as built')))
hdr = []
hdr.append('Seeded faults kept under `/verif/seeded/<id>/` (`patch.diff`, the sub-agent\'s `demo_test.go` + `demo_path.txt` + `README.md`, `meta.json`). Each was produced by a fresh sub-agent that saw only the property text and a scratch worktree (from round 2 on the agents were also told which ideas earlier rounds had used and which themes were exhausted, to force diversity), and was kept only after `tools_seed_verify.sh` confirmed in a scratch worktree that the demonstration passes on the unchanged tree and fails with the patch while `go build`, `go vet` and the 111-test suite still pass. "Caught by" is the first finding key printed by the named quick check in the last full matrix run (`tools_seeded_all.sh`: `git -C /repo apply`, `./check <ID> quick`, `git -C /repo apply -R`), i.e. with the checks as they are now.')
if os.path.exists('/verif/seeded/MATRIX_RERUN.txt'):
    rr = open('/verif/seeded/MATRIX_RERUN.txt').read().split()
    hdr.append('')
    hdr.append('The last *full* matrix run dates from the end of round 9; since then every new round was run in full, and at the end of round 11 the matrix was re-run (on private scratch worktrees, `tools_matrix_par.sh` / `devmut`) with the checks and generators as they are now for all %d round-10 and round-11 seeds, for %s, and for a random sample of the others - %d seeds in all (listed in `seeded/MATRIX_RERUN.txt`); every one of them is still caught. Rows of seeds not in that list show the result of the last run that included them.' % (sum(1 for x in rr if x[-1] in 'stuv'), ('every earlier seed that had been missed at first' if all(k in rr for k, m in metas.items() if m.get('missed_at_first')) else '%d of the %d earlier seeds that had been missed at first' % (sum(1 for k, m in metas.items() if m.get('missed_at_first') and k in rr and k[-1] not in 'uv'), sum(1 for k, m in metas.items() if m.get('missed_at_first') and k[-1] not in 'uv'))), len(rr)))
hdr.append('')
hdr.append('Totals: %d seeded faults + %d reverted fixes. Missed by the check as it stood when the fault arrived, then caught after strengthening: %s. No seeded fault remains undetected (a few are caught by a neighbouring property\'s check rather than by the one the agent was given - the "caught by" column names the check); every strengthening was re-run on the unchanged tree before it was kept.' % (sum(v[0] for k,v in per_round.items() if k), per_round.get(0,[0,0])[0], '; '.join('round %d: %d of %d' % (k, v[1], v[0]) for k, v in sorted(per_round.items()) if k)))
hdr.append('')
hdr.append('| seed | property | change | needs, in order to manifest | caught by (finding key) | history |')
hdr.append('|---|---|---|---|---|---|')
text = '\n'.join(hdr + rows) + '\n'
p = '/verif/DESIGN.md'
s = open(p).read()
a, b = '<!-- SEEDED-TABLE-BEGIN -->', '<!-- SEEDED-TABLE-END -->'
if a not in s:
    s = s.rstrip('\n') + '\n\n---------------------------------------------------------------------------\n\n## 12. Seeded faults: which check catches which change\n\n' + a + '\n' + b + '\n'
i, j = s.index(a) + len(a), s.index(b)
s = s[:i] + '\n' + text + s[j:]
# ---- section 13: per check, what the seeded-fault campaign added to it
by = {}
for sid, m in sorted(metas.items(), key=lambda kv: (rnd(kv[0]), kv[0])):
    st = m.get('strengthening', '')
    if not m.get('missed_at_first') or not st or st.startswith('('):
        continue
    for c in m['caught_by']:
        by.setdefault(c, [])
        if st not in [x[1] for x in by[c]]:
            by[c].append((sid, st))
sec = ['Generated from `seeded/*/meta.json`: for every check, the workloads / oracles that were added because a seeded fault slipped past the check as it then was (the seed that prompted the addition in brackets). Together with the per-property design of section 5 this is what the checks contain now; the `rule` text in each evidence file says the same from the check\'s own mouth.', '']
for c in sorted(by):
    sec.append('**%s**' % c)
    sec.append('')
    for sid, st in by[c]:
        sec.append('* %s [%s]' % (st, sid))
    sec.append('')
a2, b2 = '<!-- ADDED-BEGIN -->', '<!-- ADDED-END -->'
if a2 not in s:
    s = s.rstrip('\n') + '\n\n---------------------------------------------------------------------------\n\n## 13. What the seeded-fault campaign added to each check\n\n' + a2 + '\n' + b2 + '\n'
i, j = s.index(a2) + len(a2), s.index(b2)
s = s[:i] + '\n' + '\n'.join(sec) + '\n' + s[j:]
open(p, 'w').write(s)
print('table rows:', len(rows), 'checks with additions:', len(by))
