#!/bin/sh
# usage: tools_seed_eval.sh <seed-dir> <ID> [more IDs...]
# 1. verifies the seed (tools_seed_verify.sh), 2. applies it to /repo, runs the quick check(s), reverts.
d="$1"; shift
cd /verif || exit 2
./tools_seed_verify.sh "$d" || { echo "SEED-INVALID $d"; exit 3; }
for id in "$@"; do
  printf "check %s: " "$id"
  ./tools_mutant.sh "$d/patch.diff" "$id" | grep -E "^(VIOLATION|exit=|INCONCLUSIVE|HELD)" | cut -c1-260 | head -4
done
