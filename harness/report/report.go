// Package report holds the types exchanged between worker shards and the
// supervisor (psamon). It must not import the library under test.
package report

// Violation is one observed refutation of a property.
type Violation struct {
	// Key is the finding key: the class of the failing case. It is what
	// known_findings.json is matched against.
	Key    string         `json:"key"`
	What   string         `json:"what"`
	Detail map[string]any `json:"detail,omitempty"`
}

// Summary is what one worker shard (or one segment of it) reports.
type Summary struct {
	Prop       string           `json:"prop"`
	Tier       string           `json:"tier"`
	Seed       int64            `json:"seed"`
	Shard      int              `json:"shard"`
	NShards    int              `json:"nshards"`
	Evals      int64            `json:"evals"`
	Counters   map[string]int64 `json:"counters"`
	Samples    []any            `json:"samples"`
	Violations []Violation      `json:"violations"`
	ViolCounts map[string]int64 `json:"viol_counts"`
	Extras     map[string]any   `json:"extras,omitempty"`
	// Sets are named sets of strings observed (merged by union).
	Sets         map[string][]string `json:"sets,omitempty"`
	Exhaustive   bool                `json:"exhaustive,omitempty"`
	Rule         string              `json:"rule"`
	Assumptions  []string            `json:"assumptions,omitempty"`
	Inconclusive []string            `json:"inconclusive,omitempty"`
	// Floors: counter name -> minimum that must have been observed over
	// all shards for the run to be conclusive.
	Floors map[string]int64 `json:"floors,omitempty"`
	Done   bool             `json:"done"`
	CaseNo int64            `json:"case_no"`
}
