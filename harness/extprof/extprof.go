// Package extprof provides extension profiles written the way the library
// documents it (example_extensions_test.go): a claims type embedding one of
// the base implementations, marshalled with the embedding-aware helpers of
// psatoken/encoding, registered under its own profile name. It also provides
// deliberately defective profiles for the registry property.
package extprof

import (
	"errors"
	"fmt"

	cbor "github.com/fxamacker/cbor/v2"
	"github.com/veraison/eat"
	"github.com/veraison/psatoken"
	"github.com/veraison/psatoken/encoding"
)

const (
	ExtP2Name = "http://example.com/psa-ext/2.0.0"
	ExtP1Name = "PSA_IOT_PROFILE_1_EXT"
)

var (
	EM cbor.EncMode
	DM cbor.DecMode
	// DMDefault is the CBOR library's default decoding mode (indefinite-length
	// items allowed)
	DMDefault cbor.DecMode
)

func init() {
	var err error
	EM, err = cbor.EncOptions{IndefLength: cbor.IndefLengthForbidden, TimeTag: cbor.EncTagRequired, NilContainers: cbor.NilContainerAsEmpty}.EncMode()
	if err != nil {
		panic(err)
	}
	DM, err = cbor.DecOptions{IndefLength: cbor.IndefLengthForbidden}.DecMode()
	if err != nil {
		panic(err)
	}
	DMDefault, err = cbor.DecOptions{}.DecMode()
	if err != nil {
		panic(err)
	}
}

// ---- extension of profile 2 ----------------------------------------------------

type ExtP2Claims struct {
	psatoken.P2Claims
	Timestamp *int64 `cbor:"-75100,keyasint,omitempty" json:"timestamp,omitempty"`
}

func (o *ExtP2Claims) GetTimestamp() (int64, error) {
	if o.Timestamp == nil {
		return 0, psatoken.ErrMissingOptional
	}
	if *o.Timestamp < 0 {
		return 0, fmt.Errorf("%w: negative timestamp", psatoken.ErrWrongSyntax)
	}
	return *o.Timestamp, nil
}

func (o *ExtP2Claims) Validate() error {
	if err := psatoken.ValidateClaims(o); err != nil {
		return err
	}
	return psatoken.FilterError(o.GetTimestamp())
}

func (o ExtP2Claims) MarshalCBOR() ([]byte, error) { return encoding.SerializeStructToCBOR(EM, &o) }
func (o *ExtP2Claims) UnmarshalCBOR(data []byte) error {
	return encoding.PopulateStructFromCBOR(DM, data, o)
}
func (o ExtP2Claims) MarshalJSON() ([]byte, error) { return encoding.SerializeStructToJSON(&o) }
func (o *ExtP2Claims) UnmarshalJSON(data []byte) error {
	return encoding.PopulateStructFromJSON(data, o)
}

func NewExtP2Claims() psatoken.IClaims {
	p := eat.Profile{}
	if err := p.Set(ExtP2Name); err != nil {
		panic(err)
	}
	return &ExtP2Claims{P2Claims: psatoken.P2Claims{
		Profile:          &p,
		SwComponents:     &psatoken.SwComponents[*psatoken.SwComponent]{},
		CanonicalProfile: ExtP2Name,
	}}
}

type ExtP2Profile struct{}

func (ExtP2Profile) GetName() string             { return ExtP2Name }
func (ExtP2Profile) GetClaims() psatoken.IClaims { return NewExtP2Claims() }

// ---- extension of profile 1 ----------------------------------------------------

type ExtP1Claims struct {
	psatoken.P1Claims
	Extra *string `cbor:"-75200,keyasint,omitempty" json:"x-extra,omitempty"`
}

func (o *ExtP1Claims) Validate() error { return psatoken.ValidateClaims(o) }

func (o ExtP1Claims) MarshalCBOR() ([]byte, error) {
	if o.SwComponents != nil && o.SwComponents.IsEmpty() {
		o.SwComponents = nil
	}
	return encoding.SerializeStructToCBOR(EM, &o)
}
func (o *ExtP1Claims) UnmarshalCBOR(data []byte) error {
	o.Profile = nil // as P1Claims does: the profile claim is taken from data
	return encoding.PopulateStructFromCBOR(DM, data, o)
}
func (o ExtP1Claims) MarshalJSON() ([]byte, error) {
	if o.SwComponents != nil && o.SwComponents.IsEmpty() {
		o.SwComponents = nil
	}
	return encoding.SerializeStructToJSON(&o)
}
func (o *ExtP1Claims) UnmarshalJSON(data []byte) error {
	o.Profile = nil // as P1Claims does
	return encoding.PopulateStructFromJSON(data, o)
}

func NewExtP1Claims() psatoken.IClaims {
	name := ExtP1Name
	return &ExtP1Claims{P1Claims: psatoken.P1Claims{
		Profile:          &name,
		SwComponents:     &psatoken.SwComponents[*psatoken.SwComponent]{},
		CanonicalProfile: ExtP1Name,
	}}
}

type ExtP1Profile struct{}

func (ExtP1Profile) GetName() string             { return ExtP1Name }
func (ExtP1Profile) GetClaims() psatoken.IClaims { return NewExtP1Claims() }

// ---- an extension of profile 2 with its OWN software-component type: the
// stock component plus one field, no hand-written codecs (the CBOR / JSON
// libraries flatten the embedded struct) ------------------------------------------

const ExtOwnerName = "http://example.com/psa-owner/1.0.0"

type OwnerComponent struct {
	psatoken.SwComponent
	Owner *string `cbor:"7,keyasint,omitempty" json:"owner,omitempty"`
}

// LaxComponent is a component type of a profile in which the measurement type
// is not part of the profile and version / description are optional - reported
// with the CLASS sentinels themselves (as the library's own extension example
// does), bare or wrapped, not with the field-level aliases.
type LaxComponent struct {
	psatoken.SwComponent
}

func (o LaxComponent) GetMeasurementType() (string, error) {
	return "", fmt.Errorf("measurement type: %w", psatoken.ErrNotInProfile)
}

func (o LaxComponent) GetVersion() (string, error) {
	if o.Version == nil {
		return "", psatoken.ErrMissingOptional
	}
	return *o.Version, nil
}

func (o LaxComponent) GetMeasurementDesc() (string, error) {
	if o.MeasurementDesc == nil {
		return "", fmt.Errorf("description: %w", psatoken.ErrOptionalClaimMissing)
	}
	return *o.MeasurementDesc, nil
}

func (o LaxComponent) Validate() error { return psatoken.ValidateSwComponent(&o) }

type ExtOwnerClaims struct {
	psatoken.P2Claims
}

func NewExtOwnerClaims() psatoken.IClaims {
	p := eat.Profile{}
	if err := p.Set(ExtOwnerName); err != nil {
		panic(err)
	}
	return &ExtOwnerClaims{P2Claims: psatoken.P2Claims{
		Profile:          &p,
		SwComponents:     &psatoken.SwComponents[*OwnerComponent]{},
		CanonicalProfile: ExtOwnerName,
	}}
}

type ExtOwnerProfile struct{}

func (ExtOwnerProfile) GetName() string             { return ExtOwnerName }
func (ExtOwnerProfile) GetClaims() psatoken.IClaims { return NewExtOwnerClaims() }

// ---- an extension of profile 2 whose validator is careless: it dereferences
// its own optional claim without checking that it is there, i.e. Validate()
// PANICS for a token lacking that claim ---------------------------------------------

const ExtFragileName = "http://example.com/psa-fragile/1.0.0"

type ExtFragileClaims struct {
	psatoken.P2Claims
	Serial *string `cbor:"-75400,keyasint,omitempty" json:"x-serial,omitempty"`
}

func (o *ExtFragileClaims) Validate() error {
	if err := psatoken.ValidateClaims(o); err != nil {
		return err
	}
	if len(*o.Serial) == 0 { // nil dereference when the claim is absent
		return fmt.Errorf("%w: empty serial", psatoken.ErrWrongSyntax)
	}
	return nil
}

func (o ExtFragileClaims) MarshalCBOR() ([]byte, error) {
	return encoding.SerializeStructToCBOR(EM, &o)
}
func (o *ExtFragileClaims) UnmarshalCBOR(data []byte) error {
	return encoding.PopulateStructFromCBOR(DM, data, o)
}
func (o ExtFragileClaims) MarshalJSON() ([]byte, error) { return encoding.SerializeStructToJSON(&o) }
func (o *ExtFragileClaims) UnmarshalJSON(data []byte) error {
	return encoding.PopulateStructFromJSON(data, o)
}

func NewExtFragileClaims() psatoken.IClaims {
	p := eat.Profile{}
	if err := p.Set(ExtFragileName); err != nil {
		panic(err)
	}
	return &ExtFragileClaims{P2Claims: psatoken.P2Claims{Profile: &p, SwComponents: &psatoken.SwComponents[*psatoken.SwComponent]{}, CanonicalProfile: ExtFragileName}}
}

type ExtFragileProfile struct{}

func (ExtFragileProfile) GetName() string             { return ExtFragileName }
func (ExtFragileProfile) GetClaims() psatoken.IClaims { return NewExtFragileClaims() }

// ---- an extension of profile 2 with an OPTIONAL GROUP of claims embedded by
// pointer (nil = group absent) and pointer-receiver codec methods. The
// embedding-aware codec does not merge pointer-embedded structs, so the group
// is simply not part of the serialisation; what matters here is that reading /
// serialising the claims leaves the nil pointer alone. ---------------------------

const ExtGroupName = "http://example.com/psa-group/1.0.0"

type VendorGroup struct {
	Model    *string `cbor:"-75500,keyasint,omitempty" json:"vendor-model,omitempty"`
	Revision *uint16 `cbor:"-75501,keyasint,omitempty" json:"vendor-revision,omitempty"`
}

type ExtGroupClaims struct {
	psatoken.P2Claims
	*VendorGroup
}

func (o *ExtGroupClaims) Validate() error { return psatoken.ValidateClaims(o) }

func (o *ExtGroupClaims) MarshalCBOR() ([]byte, error) { return encoding.SerializeStructToCBOR(EM, o) }
func (o *ExtGroupClaims) UnmarshalCBOR(data []byte) error {
	return encoding.PopulateStructFromCBOR(DM, data, o)
}
func (o *ExtGroupClaims) MarshalJSON() ([]byte, error) { return encoding.SerializeStructToJSON(o) }
func (o *ExtGroupClaims) UnmarshalJSON(data []byte) error {
	return encoding.PopulateStructFromJSON(data, o)
}

func NewExtGroupClaims() psatoken.IClaims {
	p := eat.Profile{}
	if err := p.Set(ExtGroupName); err != nil {
		panic(err)
	}
	return &ExtGroupClaims{P2Claims: psatoken.P2Claims{Profile: &p, SwComponents: &psatoken.SwComponents[*psatoken.SwComponent]{}, CanonicalProfile: ExtGroupName}}
}

type ExtGroupProfile struct{}

func (ExtGroupProfile) GetName() string             { return ExtGroupName }
func (ExtGroupProfile) GetClaims() psatoken.IClaims { return NewExtGroupClaims() }

// ---- an extension of profile 2 that reaches P2Claims through an embedded
// struct of UNEXPORTED type (a vendor-internal base shared by several exported
// product types): three levels, exported fields of the unexported level must be
// (de)serialised like any other --------------------------------------------------

const ExtNestedName = "http://example.com/psa-nested/1.0.0"

type vendorBase struct {
	psatoken.P2Claims
	Vendor *string `cbor:"-75600,keyasint,omitempty" json:"x-vendor,omitempty"`
}

type ExtNestedClaims struct {
	// a bookkeeping field, excluded from both encodings, that is NOT the last field
	Cache string `cbor:"-" json:"-"`
	vendorBase
	// (tag options in an unusual but legal order)
	Product *string `cbor:"-75601,omitempty,keyasint" json:"x-product,omitempty"`
	// a claim that exists in the CBOR form only, and one that exists in JSON only
	Internal *string `cbor:"-75602,keyasint,omitempty" json:"-"`
	Comment  *string `cbor:"-" json:"x-comment,omitempty"`
	// a claim of its own whose Go field NAME equals that of a base claim (other key)
	VSI *string `cbor:"-75603,keyasint,omitempty" json:"x-vendor-vsi,omitempty"`
}

func (o *ExtNestedClaims) Validate() error { return psatoken.ValidateClaims(o) }

// NestedFields gives access to the two extension claims.
func (o *ExtNestedClaims) NestedFields() (vendor, product **string) { return &o.Vendor, &o.Product }

func (o ExtNestedClaims) MarshalCBOR() ([]byte, error) { return encoding.SerializeStructToCBOR(EM, &o) }
func (o *ExtNestedClaims) UnmarshalCBOR(data []byte) error {
	return encoding.PopulateStructFromCBOR(DM, data, o)
}
func (o ExtNestedClaims) MarshalJSON() ([]byte, error) { return encoding.SerializeStructToJSON(&o) }
func (o *ExtNestedClaims) UnmarshalJSON(data []byte) error {
	return encoding.PopulateStructFromJSON(data, o)
}

func NewExtNestedClaims() psatoken.IClaims {
	p := eat.Profile{}
	if err := p.Set(ExtNestedName); err != nil {
		panic(err)
	}
	return &ExtNestedClaims{vendorBase: vendorBase{P2Claims: psatoken.P2Claims{Profile: &p, SwComponents: &psatoken.SwComponents[*psatoken.SwComponent]{}, CanonicalProfile: ExtNestedName}}}
}

type ExtNestedProfile struct{}

func (ExtNestedProfile) GetName() string             { return ExtNestedName }
func (ExtNestedProfile) GetClaims() psatoken.IClaims { return NewExtNestedClaims() }

// MixinName is the fixed name under which the two-embedded-structs layout is
// registered for round trips.
const MixinName = "http://example.com/psa-mixin/1.0.0"

// ---- a stricter extension of profile 2 whose own rules are reported with the
// library's "ignorable" sentinels ---------------------------------------------------

const ExtStrictName = "http://example.com/psa-strict/1.0.0"

// ExtStrictClaims makes the boot seed mandatory (reported with the unfiltered
// getter error, i.e. wrapping ErrMissingOptional) and forbids the VSI
// (reported as not-in-profile).
type ExtStrictClaims struct {
	psatoken.P2Claims
}

func (o *ExtStrictClaims) Validate() error {
	if err := psatoken.ValidateClaims(o); err != nil {
		return err
	}
	if _, err := o.GetBootSeed(); err != nil {
		return fmt.Errorf("boot seed is mandatory in this profile: %w", err)
	}
	if _, err := o.GetVSI(); err == nil {
		return fmt.Errorf("verification service indicator: %w", psatoken.ErrNotInProfile)
	}
	return nil
}

func (o ExtStrictClaims) MarshalCBOR() ([]byte, error) { return encoding.SerializeStructToCBOR(EM, &o) }
func (o *ExtStrictClaims) UnmarshalCBOR(data []byte) error {
	return encoding.PopulateStructFromCBOR(DM, data, o)
}
func (o ExtStrictClaims) MarshalJSON() ([]byte, error) { return encoding.SerializeStructToJSON(&o) }
func (o *ExtStrictClaims) UnmarshalJSON(data []byte) error {
	return encoding.PopulateStructFromJSON(data, o)
}

func NewExtStrictClaims() psatoken.IClaims {
	p := eat.Profile{}
	if err := p.Set(ExtStrictName); err != nil {
		panic(err)
	}
	return &ExtStrictClaims{P2Claims: psatoken.P2Claims{Profile: &p, SwComponents: &psatoken.SwComponents[*psatoken.SwComponent]{}, CanonicalProfile: ExtStrictName}}
}

type ExtStrictProfile struct{}

func (ExtStrictProfile) GetName() string             { return ExtStrictName }
func (ExtStrictProfile) GetClaims() psatoken.IClaims { return NewExtStrictClaims() }

// ---- an extension that RELAXES the base profile: client id optional, instance
// id not part of the profile (the documented purpose of ValidateClaims +
// FilterError: "indicate which claims are optional", "disallow some claims") ----

const ExtLaxName = "http://example.com/psa-lax/1.0.0"

type ExtLaxClaims struct {
	psatoken.P2Claims
}

func (o *ExtLaxClaims) GetClientID() (int32, error) {
	if o.ClientID == nil {
		return 0, psatoken.ErrMissingOptional
	}
	return o.P2Claims.GetClientID()
}

func (o *ExtLaxClaims) GetInstID() ([]byte, error) {
	if o.InstID == nil {
		return nil, fmt.Errorf("instance id: %w", psatoken.ErrNotInProfile)
	}
	return o.P2Claims.GetInstID()
}

func (o *ExtLaxClaims) Validate() error { return psatoken.ValidateClaims(o) }

func NewExtLaxClaims() *ExtLaxClaims {
	p := eat.Profile{}
	if err := p.Set(ExtLaxName); err != nil {
		panic(err)
	}
	return &ExtLaxClaims{P2Claims: psatoken.P2Claims{Profile: &p, SwComponents: &psatoken.SwComponents[*psatoken.SwComponent]{}, CanonicalProfile: ExtLaxName}}
}

// ---- a profile whose profile field is identified by its NAME (no cbor tag) and
// is followed by other fields ---------------------------------------------------------

type ByNameClaims struct {
	psatoken.IClaims
	First   *string `json:"aa-first"`
	Profile *string `json:"x-profile-by-name"`
	Later   *string `json:"psa-verification-service-indicator"`
	Last    *int    `json:"zz-last"`
}

type ByNameProfile struct{ Name string }

func (p ByNameProfile) GetName() string             { return p.Name }
func (p ByNameProfile) GetClaims() psatoken.IClaims { return &ByNameClaims{} }

const ByNameJSONTag = "x-profile-by-name"

// ---- registration ------------------------------------------------------------------

var registered = map[string]bool{}

// Register registers the named extension profiles once per process (as a
// real service would do from init()).
func Register(names ...string) error {
	for _, n := range names {
		if registered[n] {
			continue
		}
		var p psatoken.IProfile
		switch n {
		case ExtP2Name:
			p = ExtP2Profile{}
		case ExtP1Name:
			p = ExtP1Profile{}
		case ExtStrictName:
			p = ExtStrictProfile{}
		case ExtOwnerName:
			p = ExtOwnerProfile{}
		case ExtFragileName:
			p = ExtFragileProfile{}
		case ExtGroupName:
			p = ExtGroupProfile{}
		case ExtNestedName:
			p = ExtNestedProfile{}
		case MixinName:
			p = NumberedProfile{Name: MixinName, Base: 3}
		case ExtWideName:
			p = ExtWideProfile{}
		case ExtRawName:
			p = ExtRawProfile{}
		case ExtSubName:
			p = ExtSubProfile{}
		default:
			return errors.New("unknown extension profile " + n)
		}
		if err := psatoken.RegisterProfile(p); err != nil {
			return err
		}
		registered[n] = true
	}
	return nil
}

// ---- a WIDE extension of profile 2: twenty optional claims of its own, so that the
// merged map of a valid claims-set has 7 .. 30 entries and crosses the one-byte
// map-head boundary at 23 / 24 (seeded fault C09-v) -----------------------------------

const ExtWideName = "http://example.com/psa-wide/1.0.0"

type ExtWideClaims struct {
	psatoken.P2Claims
	W00 *string `cbor:"-75700,keyasint,omitempty" json:"w00,omitempty"`
	W01 *string `cbor:"-75701,keyasint,omitempty" json:"w01,omitempty"`
	W02 *string `cbor:"-75702,keyasint,omitempty" json:"w02,omitempty"`
	W03 *string `cbor:"-75703,keyasint,omitempty" json:"w03,omitempty"`
	W04 *string `cbor:"-75704,keyasint,omitempty" json:"w04,omitempty"`
	W05 *string `cbor:"-75705,keyasint,omitempty" json:"w05,omitempty"`
	W06 *string `cbor:"-75706,keyasint,omitempty" json:"w06,omitempty"`
	W07 *string `cbor:"-75707,keyasint,omitempty" json:"w07,omitempty"`
	W08 *string `cbor:"-75708,keyasint,omitempty" json:"w08,omitempty"`
	W09 *string `cbor:"-75709,keyasint,omitempty" json:"w09,omitempty"`
	W10 *string `cbor:"-75710,keyasint,omitempty" json:"w10,omitempty"`
	W11 *string `cbor:"-75711,keyasint,omitempty" json:"w11,omitempty"`
	W12 *string `cbor:"-75712,keyasint,omitempty" json:"w12,omitempty"`
	W13 *string `cbor:"-75713,keyasint,omitempty" json:"w13,omitempty"`
	W14 *string `cbor:"-75714,keyasint,omitempty" json:"w14,omitempty"`
	W15 *string `cbor:"-75715,keyasint,omitempty" json:"w15,omitempty"`
	W16 *string `cbor:"-75716,keyasint,omitempty" json:"w16,omitempty"`
	W17 *string `cbor:"-75717,keyasint,omitempty" json:"w17,omitempty"`
	W18 *string `cbor:"-75718,keyasint,omitempty" json:"w18,omitempty"`
	W19 *string `cbor:"-75719,keyasint,omitempty" json:"w19,omitempty"`
}

// Wide gives access to the twenty extension claims.
func (o *ExtWideClaims) Wide() []**string {
	return []**string{&o.W00, &o.W01, &o.W02, &o.W03, &o.W04, &o.W05, &o.W06, &o.W07, &o.W08, &o.W09,
		&o.W10, &o.W11, &o.W12, &o.W13, &o.W14, &o.W15, &o.W16, &o.W17, &o.W18, &o.W19}
}

func (o *ExtWideClaims) Validate() error { return psatoken.ValidateClaims(o) }

func (o ExtWideClaims) MarshalCBOR() ([]byte, error) { return encoding.SerializeStructToCBOR(EM, &o) }
func (o *ExtWideClaims) UnmarshalCBOR(data []byte) error {
	return encoding.PopulateStructFromCBOR(DM, data, o)
}
func (o ExtWideClaims) MarshalJSON() ([]byte, error) { return encoding.SerializeStructToJSON(&o) }
func (o *ExtWideClaims) UnmarshalJSON(data []byte) error {
	return encoding.PopulateStructFromJSON(data, o)
}

type ExtWideProfile struct{}

func (ExtWideProfile) GetName() string { return ExtWideName }
func (ExtWideProfile) GetClaims() psatoken.IClaims {
	p := eat.Profile{}
	if err := p.Set(ExtWideName); err != nil {
		panic(err)
	}
	return &ExtWideClaims{P2Claims: psatoken.P2Claims{Profile: &p, SwComponents: &psatoken.SwComponents[*psatoken.SwComponent]{}, CanonicalProfile: ExtWideName}}
}

// ---- an extension of profile 2 that keeps two claims UNDECODED (cbor.RawMessage, by
// value and by pointer), e.g. a vendor blob handed on to another parser (seeded fault
// C18-v: raw claims aliasing the caller's input buffer) ------------------------------------

const ExtRawName = "http://example.com/psa-raw/1.0.0"

type ExtRawClaims struct {
	psatoken.P2Claims
	Blob  cbor.RawMessage  `cbor:"-75900,keyasint,omitempty" json:"-"`
	BlobP *cbor.RawMessage `cbor:"-75901,keyasint,omitempty" json:"-"`
}

func (o *ExtRawClaims) Validate() error { return psatoken.ValidateClaims(o) }

func (o ExtRawClaims) MarshalCBOR() ([]byte, error) { return encoding.SerializeStructToCBOR(EM, &o) }
func (o *ExtRawClaims) UnmarshalCBOR(data []byte) error {
	return encoding.PopulateStructFromCBOR(DM, data, o)
}
func (o ExtRawClaims) MarshalJSON() ([]byte, error) { return encoding.SerializeStructToJSON(&o) }
func (o *ExtRawClaims) UnmarshalJSON(data []byte) error {
	return encoding.PopulateStructFromJSON(data, o)
}

type ExtRawProfile struct{}

func (ExtRawProfile) GetName() string { return ExtRawName }
func (ExtRawProfile) GetClaims() psatoken.IClaims {
	p := eat.Profile{}
	if err := p.Set(ExtRawName); err != nil {
		panic(err)
	}
	return &ExtRawClaims{P2Claims: psatoken.P2Claims{Profile: &p, SwComponents: &psatoken.SwComponents[*psatoken.SwComponent]{}, CanonicalProfile: ExtRawName}}
}

// ---- a COMPOSITE extension of profile 2: one claim carries the complete token of a
// sub-attester, which the type's own decoder decodes (a second, nested evidence decode
// while the outer one is still in progress - seeded fault C02-v) -------------------------

const ExtSubName = "http://example.com/psa-composite/1.0.0"

type ExtSubClaims struct {
	psatoken.P2Claims
	Sub *[]byte `cbor:"-75950,keyasint,omitempty" json:"x-sub-token,omitempty"`
	// the decoded sub-attester token (bookkeeping, not a claim)
	SubEvidence *psatoken.Evidence `cbor:"-" json:"-"`
}

func (o *ExtSubClaims) Validate() error { return psatoken.ValidateClaims(o) }

func (o ExtSubClaims) MarshalCBOR() ([]byte, error) { return encoding.SerializeStructToCBOR(EM, &o) }
func (o *ExtSubClaims) UnmarshalCBOR(data []byte) error {
	if err := encoding.PopulateStructFromCBOR(DM, data, o); err != nil {
		return err
	}
	o.SubEvidence = nil
	if o.Sub != nil {
		ev, err := psatoken.DecodeEvidenceFromCOSE(*o.Sub)
		if err != nil {
			return errors.New("sub-attester token: " + err.Error())
		}
		o.SubEvidence = ev
	}
	return nil
}
func (o ExtSubClaims) MarshalJSON() ([]byte, error) { return encoding.SerializeStructToJSON(&o) }
func (o *ExtSubClaims) UnmarshalJSON(data []byte) error {
	return encoding.PopulateStructFromJSON(data, o)
}

type ExtSubProfile struct{}

func (ExtSubProfile) GetName() string { return ExtSubName }
func (ExtSubProfile) GetClaims() psatoken.IClaims {
	p := eat.Profile{}
	if err := p.Set(ExtSubName); err != nil {
		panic(err)
	}
	return &ExtSubClaims{P2Claims: psatoken.P2Claims{Profile: &p, SwComponents: &psatoken.SwComponents[*psatoken.SwComponent]{}, CanonicalProfile: ExtSubName}}
}

// ---- generic numbered profiles (for registry histories) ------------------------------

// MixinClaims is an extension of profile 2 whose claims type embeds TWO
// structs: a "mixin" of extra claims (no profile field) FIRST, then P2Claims.
type MixinExtra struct {
	Mixin *string `cbor:"-75300,keyasint,omitempty" json:"x-mixin,omitempty"`
}

type MixinClaims struct {
	MixinExtra
	psatoken.P2Claims
}

func (o *MixinClaims) Validate() error { return psatoken.ValidateClaims(o) }

func (o MixinClaims) MarshalCBOR() ([]byte, error) { return encoding.SerializeStructToCBOR(EM, &o) }
func (o *MixinClaims) UnmarshalCBOR(data []byte) error {
	return encoding.PopulateStructFromCBOR(DM, data, o)
}
func (o MixinClaims) MarshalJSON() ([]byte, error) { return encoding.SerializeStructToJSON(&o) }
func (o *MixinClaims) UnmarshalJSON(data []byte) error {
	return encoding.PopulateStructFromJSON(data, o)
}

// NumberedProfile is an extension of profile 2 (or 1) under an arbitrary name.
// Base 3 = profile 2 through MixinClaims.
type NumberedProfile struct {
	Name string
	Base int
	// Hook makes the struct type non-comparable (profiles carrying a factory
	// function are common): comparing two such IProfile values with == panics
	Hook func()
}

func (p NumberedProfile) GetName() string { return p.Name }
func (p NumberedProfile) GetClaims() psatoken.IClaims {
	if p.Base == 3 {
		ep := eat.Profile{}
		if err := ep.Set(p.Name); err != nil {
			panic(err)
		}
		return &MixinClaims{P2Claims: psatoken.P2Claims{Profile: &ep, SwComponents: &psatoken.SwComponents[*psatoken.SwComponent]{}, CanonicalProfile: p.Name}}
	}
	if p.Base == 1 {
		name := p.Name
		return &ExtP1Claims{P1Claims: psatoken.P1Claims{Profile: &name, SwComponents: &psatoken.SwComponents[*psatoken.SwComponent]{}, CanonicalProfile: p.Name}}
	}
	ep := eat.Profile{}
	if err := ep.Set(p.Name); err != nil {
		panic(err)
	}
	return &ExtP2Claims{P2Claims: psatoken.P2Claims{Profile: &ep, SwComponents: &psatoken.SwComponents[*psatoken.SwComponent]{}, CanonicalProfile: p.Name}}
}

// ---- defective profiles ----------------------------------------------------------------

// NoProfileFieldClaims has no identifiable profile field at all.
type NoProfileFieldClaims struct {
	psatoken.IClaims `cbor:"-" json:"-"`
	Something        *string `cbor:"1,keyasint" json:"something"`
}

type NoProfileFieldProfile struct{ Name string }

func (p NoProfileFieldProfile) GetName() string { return p.Name }
func (p NoProfileFieldProfile) GetClaims() psatoken.IClaims {
	return &struct {
		psatoken.IClaims
		Something *string `cbor:"1,keyasint" json:"something"`
	}{IClaims: nil}
}

// DeviceProfileClaims has a field NAMED Profile that is a private-use claim of
// its own (another CBOR key): it is not the EAT / PSA profile claim, so the type
// has no identifiable profile field.
type DeviceProfileClaims struct {
	psatoken.IClaims
	Profile *string `cbor:"-75100,keyasint" json:"device-profile"`
}

type DeviceProfileProfile struct{ Name string }

func (p DeviceProfileProfile) GetName() string             { return p.Name }
func (p DeviceProfileProfile) GetClaims() psatoken.IClaims { return &DeviceProfileClaims{} }

// ShadowClaims extends profile 2 and ADDS a private-use claim in a field named
// Profile (shadowing the embedded one): the profile claim is still eat-profile.
type ShadowClaims struct {
	psatoken.P2Claims
	Profile *string `cbor:"-75100,keyasint,omitempty" json:"device-profile,omitempty"`
}

func (o *ShadowClaims) Validate() error { return psatoken.ValidateClaims(o) }

func (o ShadowClaims) MarshalCBOR() ([]byte, error) { return encoding.SerializeStructToCBOR(EM, &o) }
func (o *ShadowClaims) UnmarshalCBOR(data []byte) error {
	return encoding.PopulateStructFromCBOR(DM, data, o)
}
func (o ShadowClaims) MarshalJSON() ([]byte, error) { return encoding.SerializeStructToJSON(&o) }
func (o *ShadowClaims) UnmarshalJSON(data []byte) error {
	return encoding.PopulateStructFromJSON(data, o)
}

type ShadowProfile struct{ Name string }

func (p ShadowProfile) GetName() string { return p.Name }
func (p ShadowProfile) GetClaims() psatoken.IClaims {
	ep := eat.Profile{}
	if err := ep.Set(p.Name); err != nil {
		panic(err)
	}
	return &ShadowClaims{P2Claims: psatoken.P2Claims{Profile: &ep, SwComponents: &psatoken.SwComponents[*psatoken.SwComponent]{}, CanonicalProfile: p.Name}}
}

// PrefixKeyClaims has a claim whose CBOR key merely STARTS WITH the digits of
// the profile key (2650 vs 265): it has no profile field.
type PrefixKeyClaims struct {
	psatoken.IClaims
	Vendor *string `cbor:"2650,keyasint" json:"vendor-data"`
	Other  *string `cbor:"-750001,keyasint" json:"other-data"`
}

type PrefixKeyProfile struct{ Name string }

func (p PrefixKeyProfile) GetName() string             { return p.Name }
func (p PrefixKeyProfile) GetClaims() psatoken.IClaims { return &PrefixKeyClaims{} }

// NoJSONTagClaims has a profile field (by CBOR key) without a json tag.
type NoJSONTagClaims struct {
	psatoken.IClaims
	Profile *string `cbor:"265,keyasint"`
}

type NoJSONTagProfile struct{ Name string }

func (p NoJSONTagProfile) GetName() string             { return p.Name }
func (p NoJSONTagProfile) GetClaims() psatoken.IClaims { return &NoJSONTagClaims{} }
