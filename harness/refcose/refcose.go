// Package refcose is an independent reader / verifier for COSE_Sign1
// (RFC 9052): it parses a token with refcbor, rebuilds the Sig_structure
// itself and verifies with the Go standard library only. It is the ground
// truth for the signature properties and does not go through go-cose.
package refcose

import (
	"crypto"
	"crypto/ecdsa"
	"crypto/ed25519"
	"crypto/rsa"
	"crypto/sha256"
	"crypto/sha512"
	"errors"
	"fmt"
	"math/big"

	"verif/harness/refcbor"
)

const (
	AlgES256 = -7
	AlgEdDSA = -8
	AlgES384 = -35
	AlgES512 = -36
	AlgPS256 = -37
	AlgPS384 = -38
	AlgPS512 = -39
)

// Envelope is the structural reading of a token.
type Envelope struct {
	Root        *refcbor.Node
	Tag         int64 // -1 if untagged
	Arr         *refcbor.Node
	ProtectedBS []byte        // content of the protected bstr
	Protected   *refcbor.Node // decoded protected map (nil if empty bstr)
	Unprotected *refcbor.Node
	Payload     []byte
	PayloadNil  bool
	Signature   []byte
	Trailing    int
}

// Parse reads a tagged or untagged 4-array leniently (shape problems are
// reported by Shape, not here).
func Parse(token []byte) (*Envelope, error) {
	n, rest, err := refcbor.Decode(token)
	if err != nil {
		return nil, err
	}
	e := &Envelope{Root: n, Tag: -1, Trailing: len(rest)}
	arr := n
	if n.K == refcbor.Tag {
		e.Tag = int64(n.U)
		arr = n.Items[0]
	}
	if arr.K != refcbor.Array || len(arr.Items) != 4 {
		return e, errors.New("not a 4-element array")
	}
	e.Arr = arr
	if arr.Items[0].K == refcbor.Bytes {
		e.ProtectedBS = arr.Items[0].B
		if len(e.ProtectedBS) > 0 {
			if p, err := refcbor.DecodeAll(e.ProtectedBS); err == nil {
				e.Protected = p
			}
		}
	}
	e.Unprotected = arr.Items[1]
	switch {
	case arr.Items[2].K == refcbor.Bytes:
		e.Payload = arr.Items[2].B
	case arr.Items[2].IsNull():
		e.PayloadNil = true
	}
	if arr.Items[3].K == refcbor.Bytes {
		e.Signature = arr.Items[3].B
	}
	return e, nil
}

// WellFormedSign1 reports whether the token has exactly the shape property
// C20 requires: tag 18, array of exactly four, [bstr, map, bstr, non-empty
// bstr], nothing following.
func (e *Envelope) WellFormedSign1() (bool, string) {
	switch {
	case e.Trailing != 0:
		return false, "trailing bytes"
	case e.Tag != 18:
		return false, fmt.Sprintf("tag %d", e.Tag)
	case e.Arr == nil:
		return false, "not a 4-array"
	case e.Arr.Items[0].K != refcbor.Bytes:
		return false, "protected not a bstr"
	case e.Arr.Items[1].K != refcbor.Map:
		return false, "unprotected not a map"
	case e.Arr.Items[2].K != refcbor.Bytes:
		return false, "payload not a bstr"
	case e.Arr.Items[3].K != refcbor.Bytes || len(e.Arr.Items[3].B) == 0:
		return false, "signature not a non-empty bstr"
	}
	return true, ""
}

// Alg returns the algorithm in the protected header.
func (e *Envelope) Alg() (int64, bool) {
	if e.Protected == nil || e.Protected.K != refcbor.Map {
		return 0, false
	}
	vs := e.Protected.MapGet(1)
	if len(vs) != 1 {
		return 0, false
	}
	return vs[0].Int64()
}

// SigStructure builds ToBeSigned = ["Signature1", protected, h”, payload]
// with deterministic encoding.
func SigStructure(protectedBS, payload []byte) []byte {
	return refcbor.Encode(refcbor.Arr(refcbor.Tstr("Signature1"), refcbor.Bstr(protectedBS), refcbor.Bstr(nil), refcbor.Bstr(payload)))
}

// VerifyParts checks signature over (protected, payload) under pub with alg.
func VerifyParts(alg int64, protectedBS, payload, sig []byte, pub crypto.PublicKey) error {
	tbs := SigStructure(protectedBS, payload)
	switch alg {
	case AlgES256, AlgES384, AlgES512:
		k, ok := pub.(*ecdsa.PublicKey)
		if !ok {
			return errors.New("key is not ECDSA")
		}
		var digest []byte
		var size int
		switch alg {
		case AlgES256:
			d := sha256.Sum256(tbs)
			digest, size = d[:], 32
		case AlgES384:
			d := sha512.Sum384(tbs)
			digest, size = d[:], 48
		default:
			d := sha512.Sum512(tbs)
			digest, size = d[:], 66
		}
		// RFC 9053 2.1: r and s each take the byte length of the KEY (the curve);
		// the algorithm only fixes the hash function
		_ = size
		size = (k.Curve.Params().BitSize + 7) / 8
		if len(sig) != 2*size {
			return errors.New("bad signature length")
		}
		r := new(big.Int).SetBytes(sig[:size])
		s := new(big.Int).SetBytes(sig[size:])
		if !ecdsa.Verify(k, digest, r, s) {
			return errors.New("ecdsa verification failed")
		}
		return nil
	case AlgEdDSA:
		k, ok := pub.(ed25519.PublicKey)
		if !ok {
			return errors.New("key is not Ed25519")
		}
		if !ed25519.Verify(k, tbs, sig) {
			return errors.New("ed25519 verification failed")
		}
		return nil
	case AlgPS256, AlgPS384, AlgPS512:
		k, ok := pub.(*rsa.PublicKey)
		if !ok {
			return errors.New("key is not RSA")
		}
		var h crypto.Hash
		var digest []byte
		switch alg {
		case AlgPS256:
			d := sha256.Sum256(tbs)
			h, digest = crypto.SHA256, d[:]
		case AlgPS384:
			d := sha512.Sum384(tbs)
			h, digest = crypto.SHA384, d[:]
		default:
			d := sha512.Sum512(tbs)
			h, digest = crypto.SHA512, d[:]
		}
		return rsa.VerifyPSS(k, h, digest, sig, &rsa.PSSOptions{SaltLength: rsa.PSSSaltLengthEqualsHash})
	}
	return fmt.Errorf("unsupported algorithm %d", alg)
}

// Verify verifies the envelope under pub with the algorithm of its protected
// header.
func (e *Envelope) Verify(pub crypto.PublicKey) error {
	alg, ok := e.Alg()
	if !ok {
		return errors.New("no algorithm in protected header")
	}
	if e.Arr == nil || e.Arr.Items[2].K != refcbor.Bytes {
		return errors.New("no payload")
	}
	if len(e.Signature) == 0 {
		return errors.New("no signature")
	}
	return VerifyParts(alg, e.ProtectedBS, e.Payload, e.Signature, pub)
}
