package model

import (
	"fmt"
	"unicode/utf8"

	"verif/harness/refcbor"
)

// Verdict of the three-valued wire oracle.
type Verdict int

const (
	Accept Verdict = iota
	Reject
	NoVerdict
)

func (v Verdict) String() string { return [...]string{"ACCEPT", "REJECT", "NO-VERDICT"}[v] }

// KeyStatus is the status of one known key of the declared profile.
type KeyStatus int

const (
	KAbsent KeyStatus = iota
	KClean            // right type, unambiguous value
	KWrong            // wrong CBOR type / out of width / null / float ...
	KOpen             // an encoding the specifications leave open
)

// WireInfo is the result of reading a wire token with the independent reader.
type WireInfo struct {
	Verdict Verdict
	Why     string // first reason for Reject / NoVerdict
	// WrongKind is a stable class name for the first KWrong key, used in
	// finding keys: e.g. "null", "int-array-for-bstr", "float", "out-of-width".
	WrongKind string
	WrongKey  int64
	P         int // declared base profile (1/2), 0 if unknown profile
	Claims    *Claims
	// Status per claim name (model.ClaimNames) for fidelity checks.
	Status map[string]KeyStatus
	// CompClean[i]: component i parsed cleanly (fidelity applies)
	Opens  []string
	Wrongs []string
}

func (wi *WireInfo) wrong(claim string, key int64, kind string) {
	wi.Status[claim] = KWrong
	wi.Wrongs = append(wi.Wrongs, fmt.Sprintf("%s(%d):%s", claim, key, kind))
	if wi.WrongKind == "" {
		wi.WrongKind, wi.WrongKey = kind, key
	}
}

func (wi *WireInfo) open(claim string, why string) {
	if wi.Status[claim] != KWrong {
		wi.Status[claim] = KOpen
	}
	wi.Opens = append(wi.Opens, claim+":"+why)
}

func nonMinimal(n *refcbor.Node) bool { return n.ArgW != 0 }

func kindName(n *refcbor.Node) string {
	switch n.K {
	case refcbor.Uint:
		return "uint"
	case refcbor.Nint:
		return "nint"
	case refcbor.Bytes:
		return "bstr"
	case refcbor.Text:
		return "tstr"
	case refcbor.Array:
		all := len(n.Items) > 0
		for _, it := range n.Items {
			if it.K != refcbor.Uint || it.U > 255 {
				all = false
			}
		}
		if all {
			return "int-array"
		}
		return "array"
	case refcbor.Map:
		return "map"
	case refcbor.Tag:
		return "tag"
	case refcbor.Float:
		return "float"
	case refcbor.Simple:
		switch n.U {
		case 20, 21:
			return "bool"
		case 22:
			return "null"
		case 23:
			return "undefined"
		}
		return "simple"
	}
	return "other"
}

// readBytes classifies a value that must be a byte string.
func (wi *WireInfo) readBytes(claim string, key int64, n *refcbor.Node) *[]byte {
	switch {
	case n.K == refcbor.Bytes && !n.Indef:
		if nonMinimal(n) {
			wi.open(claim, "non-minimal length")
		} else {
			wi.Status[claim] = KClean
		}
		b := append([]byte{}, n.B...)
		return &b
	case n.K == refcbor.Bytes && n.Indef:
		wi.open(claim, "indefinite-length string")
	case n.K == refcbor.Tag:
		wi.open(claim, "tagged item")
	default:
		wi.wrong(claim, key, kindName(n)+"-for-bstr")
	}
	return nil
}

func (wi *WireInfo) readText(claim string, key int64, n *refcbor.Node) *string {
	switch {
	case n.K == refcbor.Text && !n.Indef:
		if !utf8.Valid(n.B) {
			// a text string that is not text is not the right CBOR type for a text claim
			wi.wrong(claim, key, "invalid-utf8-for-tstr")
			return nil
		}
		if nonMinimal(n) {
			wi.open(claim, "non-minimal length")
		} else {
			wi.Status[claim] = KClean
		}
		s := string(n.B)
		return &s
	case n.K == refcbor.Text && n.Indef:
		wi.open(claim, "indefinite-length string")
	case n.K == refcbor.Tag:
		wi.open(claim, "tagged item")
	default:
		wi.wrong(claim, key, kindName(n)+"-for-tstr")
	}
	return nil
}

// ParseComp reads one component map.
func (wi *WireInfo) parseComp(i int, n *refcbor.Node) (Comp, bool) {
	claim := "sw-components"
	var c Comp
	if n.K == refcbor.Tag {
		wi.open(claim, "tagged item")
		return c, false
	}
	if n.K != refcbor.Map {
		wi.wrong(claim, int64(i), kindName(n)+"-for-component")
		return c, false
	}
	if n.Indef || nonMinimal(n) {
		wi.open(claim, "indefinite / non-minimal component map")
	}
	seen := map[int64]bool{}
	for j := 0; j+1 < len(n.Items); j += 2 {
		k, ok := n.Items[j].Int64()
		if !ok {
			if n.Items[j].K == refcbor.Text && looksNumeric(string(n.Items[j].B)) {
				wi.open(claim, "text key spelling an integer")
			}
			continue // unknown (non-integer) key: ignored
		}
		if nonMinimal(n.Items[j]) {
			wi.open(claim, "non-minimal key")
		}
		if seen[k] {
			wi.open(claim, "duplicate key")
			continue
		}
		seen[k] = true
		v := n.Items[j+1]
		sub := &WireInfo{Status: map[string]KeyStatus{}}
		switch k {
		case 1:
			c.MType = sub.readText("f", k, v)
		case 2:
			c.MVal = sub.readBytes("f", k, v)
		case 4:
			c.Version = sub.readText("f", k, v)
		case 5:
			c.Signer = sub.readBytes("f", k, v)
		case 6:
			c.Desc = sub.readText("f", k, v)
		default:
			continue
		}
		if sub.Status["f"] == KWrong {
			wi.wrong(claim, k, "component-field-"+sub.WrongKind)
		} else if sub.Status["f"] == KOpen {
			wi.open(claim, "component field: "+sub.Opens[0])
		}
	}
	return c, true
}

// ReadWire reads a token assembled by the independent encoder and computes the
// three-valued verdict of property C04 plus the abstract claims-set carried
// on the wire (for the fidelity clause). extraProfiles maps additional
// registered profile names to their base profile (1 or 2).
func ReadWire(top *refcbor.Node, extraProfiles map[string]int) *WireInfo {
	wi := &WireInfo{Status: map[string]KeyStatus{}}
	topOpen := ""
	if top.K == refcbor.Tag {
		wi.Verdict, wi.Why = NoVerdict, "tagged top-level item"
		return wi
	}
	if top.K != refcbor.Map {
		wi.Verdict, wi.Why = Reject, "not a map"
		wi.WrongKind = kindName(top) + "-for-map"
		return wi
	}
	if top.Indef {
		topOpen = "indefinite-length map"
	} else if nonMinimal(top) {
		topOpen = "non-minimal map header"
	}
	// indefinite lengths or invalid UTF-8 anywhere (also under unknown keys,
	// where the library's well-formedness pass still sees them) carry no verdict
	if why := scanOpen(top, 0); why != "" && topOpen == "" {
		topOpen = why
	}
	// index integer keys
	vals := map[int64][]*refcbor.Node{}
	for i := 0; i+1 < len(top.Items); i += 2 {
		kn := top.Items[i]
		if kn.K == refcbor.Tag {
			topOpen = "tagged key"
			continue
		}
		k, ok := kn.Int64()
		if !ok {
			// text keys are outside the (integer) claim-key space; one
			// that spells a number is matched by the library's codec
			// against the integer-keyed field of that number: no verdict
			if kn.K == refcbor.Text && looksNumeric(string(kn.B)) {
				topOpen = "text key spelling an integer"
			}
			continue
		}
		if nonMinimal(kn) {
			topOpen = "non-minimal key"
		}
		vals[k] = append(vals[k], top.Items[i+1])
	}
	if topOpen == "text key spelling an integer" {
		// may hijack any field, including the profile selector
		wi.Verdict, wi.Why = NoVerdict, topOpen
		return wi
	}
	// declared profile
	a := &Claims{}
	wi.Claims = a
	if pv := vals[P2KProfile]; len(pv) > 0 {
		if len(pv) > 1 {
			wi.Verdict, wi.Why = NoVerdict, "duplicate profile key"
			return wi
		}
		n := pv[0]
		if n.K != refcbor.Text || n.Indef || !utf8.Valid(n.B) {
			if n.K == refcbor.Tag || n.K == refcbor.Text {
				wi.Verdict, wi.Why = NoVerdict, "profile claim in an open encoding"
				return wi
			}
			// null / wrong type / OID byte string: not a profile this
			// library has registered -> must not be accepted
			wi.Verdict, wi.Why = Reject, "profile claim under key 265 is not a text string naming a registered profile"
			wi.WrongKind, wi.WrongKey = kindName(n)+"-for-profile", P2KProfile
			wi.Status["profile"] = KWrong
			return wi
		}
		name := string(n.B)
		switch {
		case name == P2Name:
			a.P, a.Canon = 2, P2Name
		case name == P1Name:
			wi.Verdict, wi.Why = NoVerdict, "profile-1 name under key 265"
			a.P, a.Canon = 1, P1Name
			return wi
		case extraProfiles[name] != 0:
			a.P, a.Canon = extraProfiles[name], name
		default:
			wi.Verdict, wi.Why = Reject, "unregistered profile "+name
			wi.WrongKind, wi.WrongKey = "unknown-profile", P2KProfile
			return wi
		}
		if nonMinimal(n) {
			topOpen = "non-minimal profile length"
		}
	} else {
		a.P, a.Canon = 1, P1Name
	}
	wi.P = a.P

	get := func(claim string) (*refcbor.Node, int64, bool) {
		k := KeyOf(a.P, claim)
		vs := vals[k]
		if len(vs) == 0 {
			wi.Status[claim] = KAbsent
			return nil, k, false
		}
		if len(vs) > 1 {
			wi.open(claim, "duplicate key")
			return nil, k, false
		}
		if vs[0].IsNull() || vs[0].IsUndef() {
			wi.wrong(claim, k, kindName(vs[0]))
			return nil, k, false
		}
		return vs[0], k, true
	}

	if n, k, ok := get("profile"); ok {
		a.Profile = wi.readText("profile", k, n)
	}
	if n, k, ok := get("client-id"); ok {
		switch {
		case n.K == refcbor.Uint || n.K == refcbor.Nint:
			v, fits := n.Int64()
			if !fits || v > 2147483647 || v < -2147483648 {
				wi.wrong("client-id", k, "out-of-width")
			} else {
				x := int32(v)
				a.ClientID = &x
				if nonMinimal(n) {
					wi.open("client-id", "non-minimal integer")
				} else {
					wi.Status["client-id"] = KClean
				}
			}
		case n.K == refcbor.Tag:
			wi.open("client-id", "tagged item")
		default:
			wi.wrong("client-id", k, kindName(n)+"-for-int")
		}
	}
	if n, k, ok := get("lifecycle"); ok {
		switch {
		case n.K == refcbor.Uint:
			if n.U > 65535 {
				wi.wrong("lifecycle", k, "out-of-width")
			} else {
				x := uint16(n.U)
				a.Lifecycle = &x
				if nonMinimal(n) {
					wi.open("lifecycle", "non-minimal integer")
				} else {
					wi.Status["lifecycle"] = KClean
				}
			}
		case n.K == refcbor.Nint:
			wi.wrong("lifecycle", k, "out-of-width")
		case n.K == refcbor.Tag:
			wi.open("lifecycle", "tagged item")
		default:
			wi.wrong("lifecycle", k, kindName(n)+"-for-int")
		}
	}
	if n, k, ok := get("impl-id"); ok {
		a.ImplID = wi.readBytes("impl-id", k, n)
	}
	if n, k, ok := get("boot-seed"); ok {
		a.BootSeed = wi.readBytes("boot-seed", k, n)
	}
	if n, k, ok := get("cert-ref"); ok {
		a.CertRef = wi.readText("cert-ref", k, n)
	}
	if n, k, ok := get("sw-components"); ok {
		switch {
		case n.K == refcbor.Array:
			if n.Indef || nonMinimal(n) {
				wi.open("sw-components", "indefinite / non-minimal array")
			} else {
				wi.Status["sw-components"] = KClean
			}
			a.HasComps = true
			for i, it := range n.Items {
				c, ok := wi.parseComp(i, it)
				if ok {
					a.Comps = append(a.Comps, c)
				}
			}
		case n.K == refcbor.Tag:
			wi.open("sw-components", "tagged item")
		default:
			wi.wrong("sw-components", k, kindName(n)+"-for-array")
		}
	}
	if a.P == 1 {
		if n, k, ok := get("no-meas"); ok {
			switch {
			case n.K == refcbor.Uint:
				x := n.U
				a.NoMeas = &x
				if n.U != 1 {
					wi.open("no-meas", "flag value other than 1")
				} else if nonMinimal(n) {
					wi.open("no-meas", "non-minimal integer")
				} else {
					wi.Status["no-meas"] = KClean
				}
			case n.K == refcbor.Tag:
				wi.open("no-meas", "tagged item")
			case n.K == refcbor.Nint:
				wi.wrong("no-meas", k, "out-of-width")
			default:
				wi.wrong("no-meas", k, kindName(n)+"-for-int")
			}
		}
		if wi.Status["no-meas"] != KAbsent && a.HasComps && len(a.Comps) == 0 && wi.Status["sw-components"] == KClean {
			wi.open("sw-components", "empty list together with the flag")
		}
	}
	if n, k, ok := get("nonce"); ok {
		switch {
		case n.K == refcbor.Bytes:
			if b := wi.readBytes("nonce", k, n); b != nil {
				a.HasNonce, a.Nonces = true, [][]byte{*b}
			}
		case n.K == refcbor.Array && a.P == 2:
			a.HasNonce = true
			st := KClean
			for _, it := range n.Items {
				if it.K != refcbor.Bytes || it.Indef {
					if it.K == refcbor.Tag || it.K == refcbor.Bytes {
						wi.open("nonce", "open encoding inside nonce array")
					} else {
						wi.wrong("nonce", k, kindName(it)+"-in-nonce-array")
					}
					st = KOpen
					continue
				}
				if nonMinimal(it) {
					st = KOpen
				}
				a.Nonces = append(a.Nonces, append([]byte{}, it.B...))
			}
			if n.Indef || nonMinimal(n) {
				st = KOpen
			}
			if len(n.Items) == 1 {
				wi.open("nonce", "one-element nonce array")
			} else if wi.Status["nonce"] != KWrong {
				if st == KOpen {
					wi.open("nonce", "non-minimal / indefinite nonce array")
				} else {
					wi.Status["nonce"] = KClean
				}
			}
		case n.K == refcbor.Tag:
			wi.open("nonce", "tagged item")
		default:
			wi.wrong("nonce", k, kindName(n)+"-for-bstr")
		}
	}
	if n, k, ok := get("inst-id"); ok {
		a.InstID = wi.readBytes("inst-id", k, n)
	}
	if n, k, ok := get("vsi"); ok {
		a.VSI = wi.readText("vsi", k, n)
	}

	switch {
	case len(wi.Wrongs) > 0:
		wi.Verdict, wi.Why = Reject, "wrong type / width: "+wi.Wrongs[0]
	case topOpen != "":
		wi.Verdict, wi.Why = NoVerdict, topOpen
	case len(wi.Opens) > 0:
		wi.Verdict, wi.Why = NoVerdict, wi.Opens[0]
	case a.Valid():
		wi.Verdict = Accept
	default:
		wi.Verdict, wi.Why = Reject, "profile rules: "+a.Expect().String()
		wi.WrongKind = "rule"
	}
	return wi
}

func scanOpen(n *refcbor.Node, depth int) string {
	if n.Indef {
		return "indefinite length inside the token"
	}
	if n.K == refcbor.Text && !utf8.Valid(n.B) {
		return "invalid UTF-8 inside the token"
	}
	if depth > 12 {
		return "deep nesting inside the token"
	}
	for _, c := range n.Items {
		if w := scanOpen(c, depth+1); w != "" {
			return w
		}
	}
	return ""
}

func looksNumeric(s string) bool {
	if s == "" {
		return false
	}
	for i := 0; i < len(s); i++ {
		if !(s[i] >= '0' && s[i] <= '9' || (i == 0 && s[i] == '-')) {
			return false
		}
	}
	return true
}
