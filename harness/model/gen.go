package model

import (
	"encoding/base64"
	"fmt"
	"math/rand"
	"net/url"
	"strings"
)

// Gen is the seeded case generator.
type Gen struct{ R *rand.Rand }

func NewGen(seed int64) *Gen { return &Gen{R: rand.New(rand.NewSource(seed))} }

// Bytes returns n octets: mostly random, one time in eight a special pattern - all
// zero, all 0xff, one repeated octet, a byte string whose base64 form consists of hex
// digits only (seeded fault C12-v: a JSON decoder that also "accepts hex"), printable
// ASCII, or text that looks like base64 / hex itself.
func (g *Gen) Bytes(n int) []byte {
	b := make([]byte, n)
	g.R.Read(b)
	if n == 0 || g.R.Intn(8) != 0 {
		return b
	}
	switch g.R.Intn(6) {
	case 0:
		for i := range b {
			b[i] = 0
		}
	case 1:
		for i := range b {
			b[i] = 0xff
		}
	case 2:
		x := b[0]
		for i := range b {
			b[i] = x
		}
	case 3:
		// base64 alphabet restricted to hex digits; for n not a multiple of three the
		// tail keeps its random octets
		const hexd = "0123456789abcdefABCDEF"
		q := make([]byte, 4*(n/3))
		for i := range q {
			q[i] = hexd[g.R.Intn(len(hexd))]
		}
		if d, err := base64.StdEncoding.DecodeString(string(q)); err == nil {
			copy(b, d)
		}
	case 4:
		for i := range b {
			b[i] = byte(0x20 + g.R.Intn(0x5f))
		}
	default:
		const txt = "deadbeefDEADBEEF0123456789+/=="
		for i := range b {
			b[i] = txt[(i+int(b[0]))%len(txt)]
		}
	}
	return b
}
func (g *Gen) bp(n int) *[]byte { b := g.Bytes(n); return &b }
func sp(s string) *string       { return &s }
func SP(s string) *string       { return &s }
func BP(b []byte) *[]byte       { return &b }

func (g *Gen) InstID() []byte { b := g.Bytes(33); b[0] = 1; return b }

var hashLens = []int{32, 48, 64}

func (g *Gen) HashLen() int { return hashLens[g.R.Intn(3)] }

var validLifecycleHi = []uint16{0x0000, 0x1000, 0x2000, 0x3000, 0x4000, 0x5000, 0x6000}

func (g *Gen) Lifecycle() uint16 {
	return validLifecycleHi[g.R.Intn(7)] | uint16(g.R.Intn(256))
}

// Digits returns n decimal digits: half of the time one of three fixed strings, so
// that the SAME reference recurs across cases, objects and profiles within one
// process (seeded fault C01-v: a verdict memo keyed by the string alone).
func (g *Gen) Digits(n int) string {
	if n <= 13 && g.R.Intn(2) == 0 {
		return []string{"0000000000000", "1234567890123", "9780201379624"}[g.R.Intn(3)][:n]
	}
	b := make([]byte, n)
	for i := range b {
		b[i] = byte('0' + g.R.Intn(10))
	}
	return string(b)
}

// Texts: valid-UTF-8 strings with non-ASCII, control, quote and HTML-ish
// characters.
var Texts = []string{"BL", "1.2.3", "sha-256", "TF-M_SHA256MemPreXIP", "ünïcödé ☃", "quote\"back\\slash", "tab\tnl\nnul\x00", "<&>", "  ", "a", "日本語", strings.Repeat("x", 300), "",
	// text that LOOKS like a JSON / HTML escape but is literal content
	`C:\updates\u0026x`, `[^\u003c]`, `\u003e`, `a\\u0026b`, `\n literal`, `\u2028`, `&amp;`, `%26`, `\"`, `\`, `\\`, "\u2028\u2029", `</script>`, "\ufeffbom", "\u007f",
	// text that equals a member name / a profile name
	"psa-profile", "eat-profile", "psa-nonce", "PSA_IOT_PROFILE_1", "http://arm.com/psa/2.0.0", "null", "true", "{}", "[]",
	// names an implementation might be tempted to normalise, things that are not URIs, surrounding white space, trailing NUL
	"SHA256", "SHA_384", "sha512", "192.0.2.1:8443", "100%", "a b#c%zz", ":", " padded ", "trailing-nul\x00", "\u00a0", "\t", "\ufffd", "a\ufffdb", "\ufeff",
	// wording of the library's own error sentinels (an error message that quotes the value must not change class)
	"not in profile", "missing optional", "missing mandatory claim", "wrong syntax",
	// text that looks like a lone JSON delimiter token
	"[", "]", "{", "}", ",", ":"}

// LongTexts: strings whose length in octets and in characters differ widely
// and straddle 64 / 255 / 256 (code that measures one and cuts by the other
// goes wrong on these).
var LongTexts = []string{
	strings.Repeat("é", 33), strings.Repeat("証", 22), strings.Repeat("é", 32), strings.Repeat("x", 63) + "é", strings.Repeat("x", 64) + "é",
	strings.Repeat("𝔘", 17), "http://example.com/" + strings.Repeat("ü", 40), strings.Repeat("é", 128), strings.Repeat("証", 86), strings.Repeat("a", 65), strings.Repeat("a", 64),
}

func (g *Gen) Text() string { return Texts[g.R.Intn(len(Texts))] }
func (g *Gen) NonEmptyText() string {
	for {
		if t := g.Text(); t != "" {
			return t
		}
	}
}

func (g *Gen) ValidComp() Comp {
	c := Comp{MVal: g.bp(g.HashLen()), Signer: g.bp(g.HashLen())}
	if g.R.Intn(2) == 0 {
		c.MType = sp(g.Text())
	}
	if g.R.Intn(2) == 0 {
		c.Version = sp(g.Text())
	}
	if g.R.Intn(2) == 0 {
		c.Desc = sp(g.Text())
	}
	return c
}

func (g *Gen) ClientID() int32 {
	switch g.R.Intn(6) {
	case 0:
		return 0
	case 1:
		return -1
	case 2:
		return 2147483647
	case 3:
		return -2147483648
	case 4:
		return int32(g.R.Intn(100)) - 50
	}
	return int32(g.R.Uint32())
}

// Base returns a deterministic-shape, fully populated valid claims-set.
func (g *Gen) Base(p int) *Claims {
	a := &Claims{P: p}
	cid := g.ClientID()
	lc := g.Lifecycle()
	a.ClientID, a.Lifecycle = &cid, &lc
	a.ImplID = g.bp(32)
	a.InstID = BP(g.InstID())
	a.HasNonce, a.Nonces = true, [][]byte{g.Bytes(g.HashLen())}
	a.VSI = sp("https://veraison.example/v1/challenge-response")
	a.HasComps, a.Comps = true, []Comp{g.ValidComp()}
	if p == 1 {
		a.Canon = P1Name
		a.Profile = sp(P1Name)
		a.BootSeed = g.bp(32)
		a.CertRef = sp(g.Digits(13))
	} else {
		a.Canon = P2Name
		a.Profile = sp(P2Name)
		a.BootSeed = g.bp(8 + g.R.Intn(25))
		a.CertRef = sp(g.Digits(13) + "-" + g.Digits(5))
	}
	return a
}

// Valid returns a random valid claims-set: every subset of optional claims,
// all hash sizes, 1..4 components, profile 1 with list or flag, with or
// without explicit profile.
func (g *Gen) Valid(p int) *Claims {
	a := g.Base(p)
	if g.R.Intn(2) == 0 {
		a.VSI = nil
	} else {
		a.VSI = sp(g.NonEmptyText())
	}
	if g.R.Intn(2) == 0 {
		a.CertRef = nil
	} else if p == 1 && g.R.Intn(2) == 0 {
		a.CertRef = sp(g.Digits(13) + "-" + g.Digits(5))
	}
	n := 1 + g.R.Intn(4)
	a.Comps = nil
	for i := 0; i < n; i++ {
		a.Comps = append(a.Comps, g.ValidComp())
	}
	// one set in eight lists the SAME component more than once (the object
	// builders then put the same pointer into the list): [c0, c0, ...] or
	// [c0, ..., c0] followed by another one
	if g.R.Intn(8) == 0 {
		if g.R.Intn(2) == 0 {
			a.Comps = append([]Comp{a.Comps[0]}, a.Comps...)
		} else {
			a.Comps = append(a.Comps, a.Comps[0])
		}
		if g.R.Intn(2) == 0 {
			a.Comps = append(a.Comps, g.ValidComp())
		}
	}
	if p == 1 {
		if g.R.Intn(3) == 0 {
			a.Profile = nil
		}
		if g.R.Intn(4) == 0 {
			a.HasComps, a.Comps = false, nil
			one := uint64(1)
			a.NoMeas = &one
		}
	} else {
		if g.R.Intn(2) == 0 {
			a.BootSeed = nil
		}
	}
	return a
}

// ---- variants ----------------------------------------------------------------

// Variant is one value class of one claim.
type Variant struct {
	Name string
	// Coarse class used in signatures: absent / valid / outside / shape.
	Coarse   string
	Apply    func(a *Claims, g *Gen)
	WireOnly bool // cannot be represented in a directly built object
}

var Claims1 = []string{"profile", "client-id", "lifecycle", "impl-id", "boot-seed", "cert-ref", "sw-components", "no-meas", "nonce", "inst-id", "vsi"}
var Claims2 = []string{"profile", "client-id", "lifecycle", "impl-id", "boot-seed", "cert-ref", "sw-components", "nonce", "inst-id", "vsi"}

func ClaimNames(p int) []string {
	if p == 1 {
		return Claims1
	}
	return Claims2
}

func coarseLen(ok bool, n int, nearest []int) string {
	if ok {
		return "valid"
	}
	for _, m := range nearest {
		if n == m-1 || n == m+1 {
			return "just-outside"
		}
	}
	return "wrong-shape"
}

// SweepLens are the byte-string lengths every length-constrained claim is
// tried with: every length 0..80, and lengths that are congruent to the legal
// ones modulo 2^8 / 2^16 (a length check done in a narrower integer type
// accepts those).
func SweepLens() []int {
	var l []int
	for n := 0; n <= 80; n++ {
		l = append(l, n)
	}
	return append(l, 255, 256, 257, 264, 288, 289, 304, 320, 544, 65536+8, 65536+32, 65536+33, 65536+48, 65536+64)
}

func bytesVariants(set func(a *Claims, b *[]byte), ok func(p, n int) bool, p int, mk func(g *Gen, n int) []byte, near []int) []Variant {
	vs := []Variant{{Name: "absent", Coarse: "absent", Apply: func(a *Claims, g *Gen) { set(a, nil) }}}
	for _, n := range SweepLens() {
		n := n
		vs = append(vs, Variant{Name: fmt.Sprintf("len%d", n), Coarse: coarseLen(ok(p, n), n, near),
			Apply: func(a *Claims, g *Gen) { b := mk(g, n); set(a, &b) }})
	}
	return vs
}

// EditChars are the characters used for the single-edit neighbourhood of the
// certification reference.
var EditChars = []string{"7", "-", "a", " ", "\n", "\x00", "٣" /* arabic-indic digit three */, "５" /* fullwidth 5 */}

// CertRefNeighbours returns every string at edit distance one (insert /
// delete / substitute with EditChars) from s.
func CertRefNeighbours(s string) []string {
	var out []string
	for i := 0; i <= len(s); i++ {
		for _, c := range EditChars {
			out = append(out, s[:i]+c+s[i:])
		}
	}
	for i := 0; i < len(s); i++ {
		out = append(out, s[:i]+s[i+1:])
		for _, c := range EditChars {
			out = append(out, s[:i]+c+s[i+1:])
		}
	}
	return out
}

func lifecycleVariants() []Variant {
	vs := []Variant{{Name: "absent", Coarse: "absent", Apply: func(a *Claims, g *Gen) { a.Lifecycle = nil }}}
	setv := func(v uint16) func(a *Claims, g *Gen) {
		return func(a *Claims, g *Gen) { x := v; a.Lifecycle = &x }
	}
	for _, hi := range validLifecycleHi {
		for _, lo := range []uint16{0, 0x7f, 0xff} {
			vs = append(vs, Variant{Name: fmt.Sprintf("0x%04x", hi|lo), Coarse: "valid", Apply: setv(hi | lo)})
		}
	}
	for _, v := range []uint16{0x0100, 0x0fff, 0x10ff + 1, 0x1fff, 0x2100, 0x30ff + 1, 0x4100, 0x5100, 0x5fff, 0x6100} {
		vs = append(vs, Variant{Name: fmt.Sprintf("0x%04x", v), Coarse: "just-outside", Apply: setv(v)})
	}
	for _, v := range []uint16{0x7000, 0x8000, 0xffff, 0x0800, 0xf000, 0x3333} {
		vs = append(vs, Variant{Name: fmt.Sprintf("0x%04x", v), Coarse: "wrong-shape", Apply: setv(v)})
	}
	return vs
}

// FaultyComp builds a component from a 5-digit code: digits for
// (type, value, version, signer, desc): text fields 0 absent / 1 present;
// hash fields 0 absent / 1 valid / 2 invalid length.
func (g *Gen) CompFromCode(code [5]int) Comp {
	var c Comp
	if code[0] == 1 {
		c.MType = sp(g.Text())
	}
	if code[2] == 1 {
		c.Version = sp(g.Text())
	}
	if code[4] == 1 {
		c.Desc = sp(g.Text())
	}
	badLens := []int{0, 1, 31, 33, 47, 49, 63, 65, 80, 288, 304, 320, 65536 + 32}
	switch code[1] {
	case 1:
		c.MVal = g.bp(g.HashLen())
	case 2:
		c.MVal = g.bp(badLens[g.R.Intn(len(badLens))])
	}
	switch code[3] {
	case 1:
		c.Signer = g.bp(g.HashLen())
	case 2:
		c.Signer = g.bp(badLens[g.R.Intn(len(badLens))])
	}
	return c
}

func compsVariants() []Variant {
	vs := []Variant{
		{Name: "absent", Coarse: "absent", Apply: func(a *Claims, g *Gen) { a.HasComps, a.Comps = false, nil }},
		{Name: "empty", Coarse: "just-outside", Apply: func(a *Claims, g *Gen) { a.HasComps, a.Comps = true, nil }},
	}
	for n := 1; n <= 4; n++ {
		n := n
		vs = append(vs, Variant{Name: fmt.Sprintf("valid%d", n), Coarse: "valid", Apply: func(a *Claims, g *Gen) {
			a.HasComps, a.Comps = true, nil
			for i := 0; i < n; i++ {
				a.Comps = append(a.Comps, g.ValidComp())
			}
		}})
	}
	// all 3*3*2*2*2=72 single-component field combinations
	for mv := 0; mv < 3; mv++ {
		for sg := 0; sg < 3; sg++ {
			for t := 0; t < 8; t++ {
				code := [5]int{t & 1, mv, (t >> 1) & 1, sg, (t >> 2) & 1}
				coarse := "valid"
				if mv != 1 || sg != 1 {
					coarse = "wrong-shape"
				}
				vs = append(vs, Variant{Name: fmt.Sprintf("one%v", code), Coarse: coarse, Apply: func(a *Claims, g *Gen) {
					a.HasComps, a.Comps = true, []Comp{g.CompFromCode(code)}
				}})
			}
		}
	}
	// lists of 2..4 with each field independently absent/valid/invalid
	for n := 2; n <= 4; n++ {
		n := n
		vs = append(vs, Variant{Name: fmt.Sprintf("mixed%d", n), Coarse: "mixed", Apply: func(a *Claims, g *Gen) {
			a.HasComps, a.Comps = true, nil
			for i := 0; i < n; i++ {
				code := [5]int{g.R.Intn(2), g.R.Intn(3), g.R.Intn(2), g.R.Intn(3), g.R.Intn(2)}
				if g.R.Intn(2) == 0 {
					code[1], code[3] = 1, 1
				}
				a.Comps = append(a.Comps, g.CompFromCode(code))
			}
		}})
	}
	return vs
}

// Variants returns all value classes of the named claim for profile p.
func Variants(p int, claim string) []Variant {
	switch claim {
	case "profile":
		vs := []Variant{
			{Name: "absent", Coarse: "absent", Apply: func(a *Claims, g *Gen) { a.Profile = nil }},
			{Name: "canonical", Coarse: "valid", Apply: func(a *Claims, g *Gen) { a.Profile = sp(a.Canon) }},
			{Name: "other-url", Coarse: "wrong-shape", Apply: func(a *Claims, g *Gen) { a.Profile = sp("http://example.com/other/1.0") }},
			{Name: "oid", Coarse: "wrong-shape", Apply: func(a *Claims, g *Gen) { a.Profile = sp("1.3.6.1.4") }},
		}
		if p == 1 {
			vs = append(vs,
				Variant{Name: "p2-name", Coarse: "wrong-shape", Apply: func(a *Claims, g *Gen) { a.Profile = sp(P2Name) }},
				Variant{Name: "empty", Coarse: "just-outside", Apply: func(a *Claims, g *Gen) { a.Profile = sp("") }},
				Variant{Name: "near", Coarse: "just-outside", Apply: func(a *Claims, g *Gen) { a.Profile = sp("PSA_IOT_PROFILE_2") }},
				Variant{Name: "lower", Coarse: "just-outside", Apply: func(a *Claims, g *Gen) { a.Profile = sp("psa_iot_profile_1") }},
				// a name made of the wording of an ignorable error sentinel
				Variant{Name: "sentinel-text-1", Coarse: "wrong-shape", Apply: func(a *Claims, g *Gen) { a.Profile = sp("not in profile") }},
				Variant{Name: "sentinel-text-2", Coarse: "wrong-shape", Apply: func(a *Claims, g *Gen) { a.Profile = sp("missing optional") }},
			)
		} else {
			vs = append(vs,
				Variant{Name: "near", Coarse: "just-outside", Apply: func(a *Claims, g *Gen) { a.Profile = sp("http://arm.com/psa/2.0.1") }},
				Variant{Name: "near2", Coarse: "just-outside", Apply: func(a *Claims, g *Gen) { a.Profile = sp("http://arm.com/psa/2.0.0/") }},
				Variant{Name: "sentinel-text-1", Coarse: "wrong-shape", Apply: func(a *Claims, g *Gen) { a.Profile = sp("urn:not in profile") }},
				Variant{Name: "sentinel-text-2", Coarse: "wrong-shape", Apply: func(a *Claims, g *Gen) { a.Profile = sp("tag:example.com,2024:missing optional") }},
			)
			// names that only a URI-normalising comparison would equate with the
			// canonical one (seeded fault C01-u): the object builders keep those
			// eat.Profile can hold verbatim
			for i, nm := range append(append([]string{}, NearMissProfileNames...),
				"http://arm.com/psa/2.0.0#1.0.0", "http://arm.com/psa/2.0.0?profile=http://arm.com/psa/2.0.0",
				"http://evil@arm.com/psa/2.0.0", "http://arm.com./psa/2.0.0", "http://arm.com/psa//2.0.0", "http://arm.com/PSA/2.0.0") {
				nm := nm
				// eat.Profile holds a parsed URL: a name that does not survive
				// Parse+String (scheme case, empty fragment) IS the canonical
				// name once inside an object, whatever the route
				if u, err := url.Parse(nm); err != nil || !u.IsAbs() || u.String() != nm {
					continue
				}
				vs = append(vs, Variant{Name: fmt.Sprintf("near-miss-%d", i), Coarse: "just-outside", Apply: func(a *Claims, g *Gen) { a.Profile = sp(nm) }})
			}
		}
		return vs
	case "client-id":
		vs := []Variant{{Name: "absent", Coarse: "absent", Apply: func(a *Claims, g *Gen) { a.ClientID = nil }}}
		for _, v := range []int32{0, -1, 1, 2147483647, -2147483648} {
			v := v
			vs = append(vs, Variant{Name: fmt.Sprint(v), Coarse: "valid", Apply: func(a *Claims, g *Gen) { x := v; a.ClientID = &x }})
		}
		return vs
	case "lifecycle":
		return lifecycleVariants()
	case "impl-id":
		return bytesVariants(func(a *Claims, b *[]byte) { a.ImplID = b }, func(p, n int) bool { return n == 32 }, p,
			func(g *Gen, n int) []byte { return g.Bytes(n) }, []int{32})
	case "boot-seed":
		near := []int{32}
		if p == 2 {
			near = []int{8, 32}
		}
		return bytesVariants(func(a *Claims, b *[]byte) { a.BootSeed = b }, BootSeedOK, p,
			func(g *Gen, n int) []byte { return g.Bytes(n) }, near)
	case "inst-id":
		vs := bytesVariants(func(a *Claims, b *[]byte) { a.InstID = b }, func(p, n int) bool { return n == 33 }, p,
			func(g *Gen, n int) []byte {
				b := g.Bytes(n)
				if n > 0 {
					b[0] = 1
				}
				return b
			}, []int{33})
		for _, t := range []int{0, 2, 3, 0x81, 255, -1} {
			t := t
			vs = append(vs, Variant{Name: fmt.Sprintf("type%d", t), Coarse: "just-outside", Apply: func(a *Claims, g *Gen) {
				b := g.Bytes(33)
				if t >= 0 {
					b[0] = byte(t)
				} else {
					for b[0] == 1 {
						b[0] = byte(g.R.Intn(256))
					}
				}
				a.InstID = &b
			}})
		}
		return vs
	case "nonce":
		vs := []Variant{{Name: "absent", Coarse: "absent", Apply: func(a *Claims, g *Gen) { a.HasNonce, a.Nonces = false, nil }}}
		for _, n := range SweepLens() {
			n := n
			vs = append(vs, Variant{Name: fmt.Sprintf("len%d", n), Coarse: coarseLen(isHashLen(n), n, hashLens),
				Apply: func(a *Claims, g *Gen) { a.HasNonce, a.Nonces = true, [][]byte{g.Bytes(n)} }})
		}
		if p == 2 {
			vs = append(vs,
				Variant{Name: "count0", Coarse: "just-outside", Apply: func(a *Claims, g *Gen) { a.HasNonce, a.Nonces = true, [][]byte{} }},
				Variant{Name: "count2", Coarse: "just-outside", Apply: func(a *Claims, g *Gen) {
					a.HasNonce, a.Nonces = true, [][]byte{g.Bytes(g.HashLen()), g.Bytes(g.HashLen())}
				}},
				Variant{Name: "count3", Coarse: "wrong-shape", Apply: func(a *Claims, g *Gen) {
					a.HasNonce, a.Nonces = true, [][]byte{g.Bytes(32), g.Bytes(48), g.Bytes(64)}
				}},
				Variant{Name: "count2-same", Coarse: "just-outside", Apply: func(a *Claims, g *Gen) {
					n := g.Bytes(g.HashLen())
					a.HasNonce, a.Nonces = true, [][]byte{n, append([]byte{}, n...)}
				}},
				Variant{Name: "count3-same", Coarse: "wrong-shape", Apply: func(a *Claims, g *Gen) {
					n := g.Bytes(32)
					a.HasNonce, a.Nonces = true, [][]byte{n, append([]byte{}, n...), append([]byte{}, n...)}
				}},
				Variant{Name: "count2-bad", Coarse: "wrong-shape", Apply: func(a *Claims, g *Gen) {
					a.HasNonce, a.Nonces = true, [][]byte{g.Bytes(7), g.Bytes(32)}
				}},
			)
		}
		return vs
	case "cert-ref":
		vs := []Variant{
			{Name: "absent", Coarse: "absent", Apply: func(a *Claims, g *Gen) { a.CertRef = nil }},
			{Name: "ean13", Coarse: map[int]string{1: "valid", 2: "just-outside"}[p], Apply: func(a *Claims, g *Gen) { a.CertRef = sp(g.Digits(13)) }},
			{Name: "ean13+5", Coarse: "valid", Apply: func(a *Claims, g *Gen) { a.CertRef = sp(g.Digits(13) + "-" + g.Digits(5)) }},
			{Name: "empty", Coarse: "wrong-shape", Apply: func(a *Claims, g *Gen) { a.CertRef = sp("") }},
			{Name: "neighbour13", Coarse: "just-outside", Apply: func(a *Claims, g *Gen) {
				ns := CertRefNeighbours(g.Digits(13))
				a.CertRef = sp(ns[g.R.Intn(len(ns))])
			}},
			{Name: "neighbour13+5", Coarse: "just-outside", Apply: func(a *Claims, g *Gen) {
				ns := CertRefNeighbours(g.Digits(13) + "-" + g.Digits(5))
				a.CertRef = sp(ns[g.R.Intn(len(ns))])
			}},
			{Name: "text", Coarse: "wrong-shape", Apply: func(a *Claims, g *Gen) { a.CertRef = sp(g.Text()) }},
			{Name: "multiline", Coarse: "wrong-shape", Apply: func(a *Claims, g *Gen) { a.CertRef = sp("x\n" + g.Digits(13) + "-" + g.Digits(5)) }},
			// strings a hand-rolled or library-assisted digit check could take for
			// digits: signs, separators, other number syntaxes, Unicode digits with
			// the right BYTE length or the right RUNE count
			{Name: "tricky", Coarse: "just-outside", Apply: func(a *Claims, g *Gen) { a.CertRef = sp(g.TrickyCertRef()) }},
		}
		return vs
	case "vsi":
		vs := []Variant{
			{Name: "absent", Coarse: "absent", Apply: func(a *Claims, g *Gen) { a.VSI = nil }},
			{Name: "empty", Coarse: "just-outside", Apply: func(a *Claims, g *Gen) { a.VSI = sp("") }},
			{Name: "one", Coarse: "valid", Apply: func(a *Claims, g *Gen) { a.VSI = sp("x") }},
			{Name: "text", Coarse: "valid", Apply: func(a *Claims, g *Gen) { a.VSI = sp(g.NonEmptyText()) }},
			{Name: "space", Coarse: "valid", Apply: func(a *Claims, g *Gen) { a.VSI = sp(" ") }},
		}
		return vs
	case "sw-components":
		return compsVariants()
	case "no-meas":
		vs := []Variant{{Name: "absent", Coarse: "absent", Apply: func(a *Claims, g *Gen) { a.NoMeas = nil }}}
		for _, v := range []uint64{1, 0, 2, 255, 1 << 40} {
			v := v
			vs = append(vs, Variant{Name: fmt.Sprint(v), Coarse: "valid", Apply: func(a *Claims, g *Gen) { x := v; a.NoMeas = &x }})
		}
		return vs
	}
	panic("unknown claim " + claim)
}

// TrickyCertRef returns a string that is NOT a valid certification reference
// in either profile but resembles one to a sloppy check.
func (g *Gen) TrickyCertRef() string {
	d := g.Digits
	ar := func(n int) string { return strings.Repeat("\u0663", n) } // ARABIC-INDIC DIGIT THREE, 2 bytes
	fw := func(n int) string { return strings.Repeat("\uff15", n) } // FULLWIDTH DIGIT FIVE, 3 bytes
	c := []string{
		"+" + d(12), "-" + d(12), "+" + d(13), "-" + d(13), "+" + d(12) + "-" + d(5), d(13) + "-+" + d(4), d(13) + "--" + d(4), d(13) + "+" + d(5), d(13) + "-" + "-" + d(5),
		d(13) + d(5), d(13) + " " + d(5), d(13) + "_" + d(5), d(13) + "\u2010" + d(5), d(13) + "\u2212" + d(5), d(13) + "." + d(5), d(13) + "-" + d(4) + " ", " " + d(12), d(12) + " ",
		d(6) + "_" + d(6), "0x" + d(11), "0X" + d(11), "0b" + "10101010101", "0o" + d(11), d(11) + "e1", d(11) + ".0", "1_" + d(11), d(12) + "\x00", "\x00" + d(12),
		// Unicode digits: 13 / 19 BYTES
		ar(6) + d(1), d(1) + ar(6), ar(6) + d(1) + "-" + d(5), d(13) + "-" + fw(1) + d(2), d(13) + "-" + ar(2) + d(1), fw(4) + d(1), d(10) + fw(1),
		// Unicode digits: 13 / 19 RUNES
		ar(13), fw(13), ar(13) + "-" + ar(5), d(12) + ar(1), ar(1) + d(12), d(13) + "-" + d(4) + ar(1), d(13) + "-" + fw(5),
		// anchoring
		d(13) + "\n", "\n" + d(13), d(13) + "-" + d(5) + "\n", d(13) + "\r", "x" + d(13), d(13) + "x", d(13) + "-" + d(5) + "-" + d(5), d(13) + "\n" + d(13),
	}
	return c[g.R.Intn(len(c))]
}

// Sig is the class signature of a generated case.
type Sig []string

func (s Sig) String() string { return strings.Join(s, "|") }

// Mutated applies k random variants (distinct claims) to a fresh valid base
// and returns the case and its signature (claim=variant pairs).
func (g *Gen) Mutated(p int, k int) (*Claims, Sig) {
	a := g.Valid(p)
	names := ClaimNames(p)
	perm := g.R.Perm(len(names))
	var sig Sig
	for _, ci := range perm[:k] {
		vs := VariantsCached(p, names[ci])
		v := vs[g.R.Intn(len(vs))]
		v.Apply(a, g)
		sig = append(sig, names[ci]+"="+v.Name)
	}
	return a, sig
}

// RandomProduct draws every claim's variant independently (biased towards
// valid classes so that a fair share of products is valid).
func (g *Gen) RandomProduct(p int) (*Claims, Sig) {
	a := g.Valid(p)
	var sig Sig
	for _, name := range ClaimNames(p) {
		if g.R.Intn(3) != 0 {
			continue
		}
		vs := VariantsCached(p, name)
		v := vs[g.R.Intn(len(vs))]
		v.Apply(a, g)
		sig = append(sig, name+"="+v.Coarse)
	}
	return a, sig
}

var variantCache = map[string][]Variant{}

// VariantsCached memoises Variants (the tables are immutable).
func VariantsCached(p int, claim string) []Variant {
	k := fmt.Sprint(p, claim)
	if v, ok := variantCache[k]; ok {
		return v
	}
	v := Variants(p, claim)
	variantCache[k] = v
	return v
}

// ValidProduct perturbs a valid set with variants that keep it valid (every
// application that would make it invalid is rolled back), so that accepted
// sets are as diverse as rejected ones.
func (g *Gen) ValidProduct(p int) (*Claims, Sig) {
	a := g.Valid(p)
	var sig Sig
	for _, name := range ClaimNames(p) {
		if g.R.Intn(2) == 0 {
			continue
		}
		vs := VariantsCached(p, name)
		for try := 0; try < 6; try++ {
			v := vs[g.R.Intn(len(vs))]
			b := a.Clone()
			v.Apply(b, g)
			if b.Valid() {
				a = b
				sig = append(sig, name+"="+v.Name)
				break
			}
		}
	}
	return a, sig
}
