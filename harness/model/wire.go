package model

import (
	"bytes"
	"encoding/base64"
	"encoding/json"
	"fmt"
	"strings"

	"verif/harness/refcbor"
)

// CBOR keys of the two profiles.
const (
	P1KProfile   = -75000
	P1KClientID  = -75001
	P1KLifecycle = -75002
	P1KImplID    = -75003
	P1KBootSeed  = -75004
	P1KCertRef   = -75005
	P1KComps     = -75006
	P1KNoMeas    = -75007
	P1KNonce     = -75008
	P1KInstID    = -75009
	P1KVSI       = -75010

	P2KNonce     = 10
	P2KInstID    = 256
	P2KProfile   = 265
	P2KClientID  = 2394
	P2KLifecycle = 2395
	P2KImplID    = 2396
	P2KBootSeed  = 2397
	P2KCertRef   = 2398
	P2KComps     = 2399
	P2KVSI       = 2400
)

var P1Keys = []int64{P1KProfile, P1KClientID, P1KLifecycle, P1KImplID, P1KBootSeed, P1KCertRef, P1KComps, P1KNoMeas, P1KNonce, P1KInstID, P1KVSI}
var P2Keys = []int64{P2KProfile, P2KClientID, P2KLifecycle, P2KImplID, P2KBootSeed, P2KCertRef, P2KComps, P2KNonce, P2KInstID, P2KVSI}
var CompKeys = []int64{1, 2, 4, 5, 6}

// Claim indexes (position in GetterNames) -> key per profile.
func KeyOf(p int, claim string) int64 {
	m1 := map[string]int64{"profile": P1KProfile, "client-id": P1KClientID, "lifecycle": P1KLifecycle, "impl-id": P1KImplID,
		"boot-seed": P1KBootSeed, "cert-ref": P1KCertRef, "sw-components": P1KComps, "no-meas": P1KNoMeas, "nonce": P1KNonce,
		"inst-id": P1KInstID, "vsi": P1KVSI}
	m2 := map[string]int64{"profile": P2KProfile, "client-id": P2KClientID, "lifecycle": P2KLifecycle, "impl-id": P2KImplID,
		"boot-seed": P2KBootSeed, "cert-ref": P2KCertRef, "sw-components": P2KComps, "nonce": P2KNonce,
		"inst-id": P2KInstID, "vsi": P2KVSI}
	if p == 1 {
		return m1[claim]
	}
	return m2[claim]
}

func CompNode(c *Comp) *refcbor.Node {
	m := refcbor.MapOf()
	add := func(k int64, v *refcbor.Node) { m.Items = append(m.Items, refcbor.I(k), v) }
	if c.MType != nil {
		add(1, refcbor.Tstr(*c.MType))
	}
	if c.MVal != nil {
		add(2, refcbor.Bstr(*c.MVal))
	}
	if c.Version != nil {
		add(4, refcbor.Tstr(*c.Version))
	}
	if c.Signer != nil {
		add(5, refcbor.Bstr(*c.Signer))
	}
	if c.Desc != nil {
		add(6, refcbor.Tstr(*c.Desc))
	}
	return m
}

func CompsNode(cs []Comp) *refcbor.Node {
	arr := refcbor.Arr()
	for i := range cs {
		arr.Items = append(arr.Items, CompNode(&cs[i]))
	}
	return arr
}

// NonceNode is the wire value of the nonce claim.
func (a *Claims) NonceNode() *refcbor.Node {
	if a.P == 1 || len(a.Nonces) == 1 {
		return refcbor.Bstr(a.Nonces[0])
	}
	arr := refcbor.Arr()
	for _, n := range a.Nonces {
		arr.Items = append(arr.Items, refcbor.Bstr(n))
	}
	return arr
}

// WireCBOR assembles the CBOR map of the claims-set (keys in the order of
// the specification's tables; callers permute / extend the node as needed).
func (a *Claims) WireCBOR() *refcbor.Node {
	m := refcbor.MapOf()
	add := func(claim string, v *refcbor.Node) {
		m.Items = append(m.Items, refcbor.I(KeyOf(a.P, claim)), v)
	}
	if a.Profile != nil {
		add("profile", refcbor.Tstr(*a.Profile))
	}
	if a.ClientID != nil {
		add("client-id", refcbor.I(int64(*a.ClientID)))
	}
	if a.Lifecycle != nil {
		add("lifecycle", refcbor.U(uint64(*a.Lifecycle)))
	}
	if a.ImplID != nil {
		add("impl-id", refcbor.Bstr(*a.ImplID))
	}
	if a.BootSeed != nil {
		add("boot-seed", refcbor.Bstr(*a.BootSeed))
	}
	if a.CertRef != nil {
		add("cert-ref", refcbor.Tstr(*a.CertRef))
	}
	if a.HasComps {
		add("sw-components", CompsNode(a.Comps))
	}
	if a.P == 1 && a.NoMeas != nil {
		add("no-meas", refcbor.U(*a.NoMeas))
	}
	if a.HasNonce {
		add("nonce", a.NonceNode())
	}
	if a.InstID != nil {
		add("inst-id", refcbor.Bstr(*a.InstID))
	}
	if a.VSI != nil {
		add("vsi", refcbor.Tstr(*a.VSI))
	}
	return m
}

// ---- JSON -------------------------------------------------------------------

var p1JSON = map[string]string{"profile": "psa-profile", "client-id": "psa-client-id", "lifecycle": "psa-security-lifecycle",
	"impl-id": "psa-implementation-id", "boot-seed": "psa-boot-seed", "cert-ref": "psa-hwver",
	"sw-components": "psa-software-components", "no-meas": "psa-no-software-measurements", "nonce": "psa-nonce",
	"inst-id": "psa-instance-id", "vsi": "psa-verification-service-indicator"}
var p2JSON = map[string]string{"profile": "eat-profile", "client-id": "psa-client-id", "lifecycle": "psa-security-lifecycle",
	"impl-id": "psa-implementation-id", "boot-seed": "psa-boot-seed", "cert-ref": "psa-certification-reference",
	"sw-components": "psa-software-components", "nonce": "psa-nonce",
	"inst-id": "psa-instance-id", "vsi": "psa-verification-service-indicator"}

func JSONName(p int, claim string) string {
	if p == 1 {
		return p1JSON[claim]
	}
	return p2JSON[claim]
}

// JSONNames returns the documented member names of a profile.
func JSONNames(p int) map[string]bool {
	out := map[string]bool{}
	m := p2JSON
	if p == 1 {
		m = p1JSON
	}
	for _, v := range m {
		out[v] = true
	}
	return out
}

var CompJSONNames = map[string]bool{"measurement-type": true, "measurement-value": true, "version": true, "signer-id": true, "measurement-description": true}

func jstr(s string) string {
	var buf bytes.Buffer
	enc := json.NewEncoder(&buf)
	enc.SetEscapeHTML(false)
	_ = enc.Encode(s)
	return strings.TrimSuffix(buf.String(), "\n")
}

func jb64(b []byte) string { return `"` + base64.StdEncoding.EncodeToString(b) + `"` }

// Member is one JSON object member (already serialised value).
type Member struct{ Name, Value string }

func CompJSON(c *Comp) string {
	var ms []string
	if c.MType != nil {
		ms = append(ms, `"measurement-type":`+jstr(*c.MType))
	}
	if c.MVal != nil {
		ms = append(ms, `"measurement-value":`+jb64(*c.MVal))
	}
	if c.Version != nil {
		ms = append(ms, `"version":`+jstr(*c.Version))
	}
	if c.Signer != nil {
		ms = append(ms, `"signer-id":`+jb64(*c.Signer))
	}
	if c.Desc != nil {
		ms = append(ms, `"measurement-description":`+jstr(*c.Desc))
	}
	return "{" + strings.Join(ms, ",") + "}"
}

// JSONMembers returns the JSON members of the claims-set in table order.
func (a *Claims) JSONMembers() []Member {
	var ms []Member
	add := func(claim, v string) { ms = append(ms, Member{JSONName(a.P, claim), v}) }
	if a.Profile != nil {
		add("profile", jstr(*a.Profile))
	}
	if a.ClientID != nil {
		add("client-id", fmt.Sprintf("%d", *a.ClientID))
	}
	if a.Lifecycle != nil {
		add("lifecycle", fmt.Sprintf("%d", *a.Lifecycle))
	}
	if a.ImplID != nil {
		add("impl-id", jb64(*a.ImplID))
	}
	if a.BootSeed != nil {
		add("boot-seed", jb64(*a.BootSeed))
	}
	if a.CertRef != nil {
		add("cert-ref", jstr(*a.CertRef))
	}
	if a.HasComps {
		var cs []string
		for i := range a.Comps {
			cs = append(cs, CompJSON(&a.Comps[i]))
		}
		add("sw-components", "["+strings.Join(cs, ",")+"]")
	}
	if a.P == 1 && a.NoMeas != nil {
		add("no-meas", fmt.Sprintf("%d", *a.NoMeas))
	}
	if a.HasNonce {
		if a.P == 1 || len(a.Nonces) == 1 {
			add("nonce", jb64(a.Nonces[0]))
		} else {
			var ns []string
			for _, n := range a.Nonces {
				ns = append(ns, jb64(n))
			}
			add("nonce", "["+strings.Join(ns, ",")+"]")
		}
	}
	if a.InstID != nil {
		add("inst-id", jb64(*a.InstID))
	}
	if a.VSI != nil {
		add("vsi", jstr(*a.VSI))
	}
	return ms
}

func MembersJSON(ms []Member) []byte {
	var sb strings.Builder
	sb.WriteString("{")
	for i, m := range ms {
		if i > 0 {
			sb.WriteString(",")
		}
		sb.WriteString(jstr(m.Name))
		sb.WriteString(":")
		sb.WriteString(m.Value)
	}
	sb.WriteString("}")
	return []byte(sb.String())
}

func (a *Claims) WireJSON() []byte { return MembersJSON(a.JSONMembers()) }
