package model

import (
	"fmt"
	"math"

	"verif/harness/refcbor"
)

// SpecialNode returns a value drawn from the wrong-type / boundary pool and
// its class name.
func (g *Gen) SpecialNode() (*refcbor.Node, string) {
	uints := []uint64{0, 1, 23, 24, 255, 256, 12288, 65535, 65536, 1<<31 - 1, 1 << 31, 1<<32 - 1, 1 << 32, 1<<63 - 1, 1 << 63, math.MaxUint64}
	nargs := []uint64{0, 23, 24, 255, 256, 1<<15 - 1, 1 << 15, 1<<31 - 1, 1 << 31, 1<<32 - 1, 1<<63 - 1, 1 << 63, math.MaxUint64}
	switch g.R.Intn(16) {
	case 0:
		return refcbor.Null(), "null"
	case 1:
		return refcbor.Undef(), "undefined"
	case 2:
		return refcbor.Bool(g.R.Intn(2) == 0), "bool"
	case 3, 4:
		return refcbor.U(uints[g.R.Intn(len(uints))]), "uint"
	case 5:
		return refcbor.NegArg(nargs[g.R.Intn(len(nargs))]), "nint"
	case 6:
		fs := []float64{1, 0, 12288, 2, 0.5, -1, 65536, math.Inf(1), math.NaN(), 4294967296}
		return refcbor.Flt(fs[g.R.Intn(len(fs))], []int{2, 4, 8}[g.R.Intn(3)]), "float"
	case 7:
		ls := []int{0, 1, 8, 32, 33, 48, 64}
		b := g.Bytes(ls[g.R.Intn(len(ls))])
		if len(b) == 33 {
			b[0] = 1
		}
		return refcbor.Bstr(b), "bstr"
	case 8:
		ts := []string{"", "x", P2Name, P1Name, "1234567890123", "1234567890123-12345", "http://example.com/psa", LongTexts[g.R.Intn(len(LongTexts))], LongTexts[g.R.Intn(len(LongTexts))]}
		if g.R.Intn(4) == 0 {
			bad := []string{"\xff\xfe", "ok\xc3\x28", "\xc0\xaf", "\xed\xa0\x80", "1234567890123-1234\xff", "\x80"}
			return refcbor.Tstr(bad[g.R.Intn(len(bad))]), "tstr-invalid-utf8"
		}
		return refcbor.Tstr(ts[g.R.Intn(len(ts))]), "tstr"
	case 9:
		n := 1 + g.R.Intn(40)
		if g.R.Intn(2) == 0 {
			n = []int{32, 33, 48, 64}[g.R.Intn(4)]
		}
		a := refcbor.Arr()
		for i := 0; i < n; i++ {
			v := uint64(g.R.Intn(256))
			if i == 0 {
				v = 1
			}
			a.Items = append(a.Items, refcbor.U(v))
		}
		return a, "int-array"
	case 10:
		switch g.R.Intn(3) {
		case 0:
			return refcbor.Arr(), "array"
		case 1:
			return refcbor.Arr(refcbor.Bstr(g.Bytes(32))), "array"
		}
		return refcbor.Arr(refcbor.Arr(refcbor.Null()), refcbor.Tstr("n")), "array"
	case 11:
		if g.R.Intn(2) == 0 {
			return refcbor.MapOf(), "map"
		}
		return refcbor.MapOf(refcbor.I(1), refcbor.Tstr("x"), refcbor.I(2), refcbor.Bstr(g.Bytes(32)), refcbor.I(5), refcbor.Bstr(g.Bytes(32))), "map"
	case 12:
		return refcbor.Tagged(uint64([]int{0, 1, 2, 24, 37, 55799}[g.R.Intn(6)]), refcbor.Bstr(g.Bytes(32))), "tag"
	case 13:
		return &refcbor.Node{K: refcbor.Simple, U: uint64(g.R.Intn(20))}, "simple"
	case 14:
		return refcbor.U(uint64(g.R.Intn(70000))), "uint"
	default:
		return refcbor.I(-int64(g.R.Intn(70000)) - 1), "nint"
	}
}

// Junk returns an arbitrary well-formed value for an unknown key.
func (g *Gen) Junk(depth int) *refcbor.Node {
	k := g.R.Intn(8)
	if depth >= 3 && k >= 6 {
		k = 0
	}
	switch k {
	case 0:
		return refcbor.U(g.R.Uint64() >> uint(g.R.Intn(64)))
	case 1:
		return refcbor.Tstr(g.Text())
	case 2:
		return refcbor.Bstr(g.Bytes(g.R.Intn(40)))
	case 3:
		return refcbor.Null()
	case 4:
		return refcbor.Flt(float64(g.R.Intn(10))/2, []int{2, 4, 8}[g.R.Intn(3)])
	case 5:
		return refcbor.Tagged(uint64(g.R.Intn(1000)+6), refcbor.Tstr("t"))
	case 6:
		a := refcbor.Arr()
		for i := g.R.Intn(4); i > 0; i-- {
			a.Items = append(a.Items, g.Junk(depth+1))
		}
		return a
	default:
		m := refcbor.MapOf()
		for i := g.R.Intn(3); i > 0; i-- {
			m.Items = append(m.Items, refcbor.I(int64(i)), g.Junk(depth+1))
		}
		return m
	}
}

func knownKeys(p int) []int64 {
	if p == 1 {
		return P1Keys
	}
	return P2Keys
}

func isKnown(k int64) bool {
	for _, x := range P1Keys {
		if x == k {
			return true
		}
	}
	for _, x := range P2Keys {
		if x == k {
			return true
		}
	}
	return false
}

// NearMissProfileNames are NOT registered profile names, but differ from the
// profile-2 name only in ways a URL-normalising comparison would ignore.
var NearMissProfileNames = []string{"HTTP://arm.com/psa/2.0.0", "Http://arm.com/psa/2.0.0", "http://arm.com/psa/2.0.0#", "http://arm.com/psa/2.0.0?",
	"http://ARM.com/psa/2.0.0", "http://arm.com:80/psa/2.0.0", "http://arm.com/psa/2.0.0/", "http://arm.com/psa/2.0.0 ", " http://arm.com/psa/2.0.0",
	"http://arm.com/psa/./2.0.0", "http://arm.com/psa/2.0.0\x00", "http://arm.com/psa/2%2E0.0", "https://arm.com/psa/2.0.0", "//arm.com/psa/2.0.0"}

func (g *Gen) UnknownKey() *refcbor.Node {
	switch g.R.Intn(4) {
	case 0:
		return refcbor.Tstr([]string{"x", "psa-nonce", "265", "", "2", "-75008", "two"}[g.R.Intn(7)])
	case 1:
		return refcbor.I(int64(-76000 - g.R.Intn(1000)))
	}
	for {
		k := int64(g.R.Intn(5000)) - 100
		if !isKnown(k) {
			return refcbor.I(k)
		}
	}
}

func mapIndex(m *refcbor.Node, key int64) int {
	for i := 0; i+1 < len(m.Items); i += 2 {
		if v, ok := m.Items[i].Int64(); ok && v == key {
			return i
		}
	}
	return -1
}

func mapDelete(m *refcbor.Node, key int64) {
	if i := mapIndex(m, key); i >= 0 {
		m.Items = append(m.Items[:i], m.Items[i+2:]...)
	}
}

func mapSet(m *refcbor.Node, key int64, v *refcbor.Node) {
	if i := mapIndex(m, key); i >= 0 {
		m.Items[i+1] = v
		return
	}
	m.Items = append(m.Items, refcbor.I(key), v)
}

func permutePairs(g *Gen, m *refcbor.Node) {
	n := len(m.Items) / 2
	g.R.Shuffle(n, func(i, j int) {
		m.Items[2*i], m.Items[2*j] = m.Items[2*j], m.Items[2*i]
		m.Items[2*i+1], m.Items[2*j+1] = m.Items[2*j+1], m.Items[2*i+1]
	})
}

// WireEdit applies one wire-level edit to the token and returns its class.
func (g *Gen) WireEdit(p int, w *refcbor.Node) string {
	keys := knownKeys(p)
	k := keys[g.R.Intn(len(keys))]
	switch e := g.R.Intn(20); e {
	case 0, 1, 2, 3, 4:
		v, cls := g.SpecialNode()
		mapSet(w, k, v)
		return fmt.Sprintf("%d=%s", k, cls)
	case 5:
		mapDelete(w, k)
		return fmt.Sprintf("%d=deleted", k)
	case 6, 7:
		n := 1 + g.R.Intn(3)
		for i := 0; i < n; i++ {
			w.Items = append(w.Items, g.UnknownKey(), g.Junk(0))
		}
		return "unknown-keys"
	case 8:
		permutePairs(g, w)
		return "permuted"
	case 9:
		if i := mapIndex(w, k); i >= 0 {
			dup := w.Items[i+1].Clone()
			if g.R.Intn(2) == 0 {
				dup, _ = g.SpecialNode()
			}
			w.Items = append(w.Items, refcbor.I(k), dup)
			return "duplicate-key"
		}
		return "noop"
	case 10:
		if i := mapIndex(w, k); i >= 0 {
			w.Items[i+1] = refcbor.Tagged(uint64([]int{2, 24, 37, 1000}[g.R.Intn(4)]), w.Items[i+1])
			return "tagged-value"
		}
		return "noop"
	case 11:
		if i := mapIndex(w, k); i >= 0 {
			v := w.Items[i+1]
			switch v.K {
			case refcbor.Uint, refcbor.Nint, refcbor.Bytes, refcbor.Text, refcbor.Array:
				v.ArgW = []int{1, 2, 4, 8}[g.R.Intn(4)]
				arg := v.U
				switch v.K {
				case refcbor.Bytes, refcbor.Text:
					arg = uint64(len(v.B))
				case refcbor.Array:
					arg = uint64(len(v.Items))
				}
				for !fitsW(arg, v.ArgW) {
					v.ArgW *= 2
				}
				return "non-minimal"
			}
		}
		if g.R.Intn(2) == 0 {
			w.ArgW = []int{1, 2, 4, 8}[g.R.Intn(4)]
			return "non-minimal-map"
		}
		return "noop"
	case 12:
		if i := mapIndex(w, k); i >= 0 {
			v := w.Items[i+1]
			switch v.K {
			case refcbor.Bytes, refcbor.Text, refcbor.Array, refcbor.Map:
				v.Indef = true
				return "indefinite-value"
			}
		}
		w.Indef = true
		return "indefinite-map"
	case 13:
		// keys of the other profile (mixed-profile key set)
		other := knownKeys(3 - p)
		n := 1 + g.R.Intn(3)
		for i := 0; i < n; i++ {
			ok := other[g.R.Intn(len(other))]
			if ok == P2KProfile {
				continue
			}
			v, _ := g.SpecialNode()
			if mapIndex(w, ok) < 0 {
				w.Items = append(w.Items, refcbor.I(ok), v)
			}
		}
		return "other-profile-keys"
	case 14:
		// profile selector games
		switch g.R.Intn(6) {
		case 5:
			// names that a normalising comparison (URL scheme case, empty
			// fragment, default port ...) could confuse with a registered one
			nm := NearMissProfileNames[g.R.Intn(len(NearMissProfileNames))]
			mapSet(w, P2KProfile, refcbor.Tstr(nm))
			return "265=near-miss"
		case 0:
			mapSet(w, P2KProfile, refcbor.Tstr("http://unknown.example/profile"))
			return "265=unknown"
		case 1:
			mapSet(w, P2KProfile, refcbor.Tstr(P1Name))
			return "265=p1-name"
		case 2:
			mapSet(w, P2KProfile, refcbor.Tstr(P2Name))
			return "265=p2-name"
		case 3:
			mapDelete(w, P2KProfile)
			return "265=deleted"
		default:
			mapSet(w, P2KProfile, refcbor.Bstr([]byte{0x2b, 0x06, 0x01, 0x04}))
			return "265=oid"
		}
	case 15:
		nk := KeyOf(p, "nonce")
		if i := mapIndex(w, nk); i >= 0 && w.Items[i+1].K == refcbor.Bytes {
			w.Items[i+1] = refcbor.Arr(w.Items[i+1])
			return "one-element-nonce-array"
		}
		return "noop"
	case 16:
		if p == 1 {
			mapSet(w, P1KNoMeas, refcbor.U([]uint64{0, 2, 255, 1 << 40}[g.R.Intn(4)]))
			if g.R.Intn(2) == 0 {
				mapDelete(w, P1KComps)
			}
			return "flag-not-1"
		}
		return "noop"
	default:
		// inside the component list
		ck := KeyOf(p, "sw-components")
		i := mapIndex(w, ck)
		if i < 0 || w.Items[i+1].K != refcbor.Array || len(w.Items[i+1].Items) == 0 {
			return "noop"
		}
		arr := w.Items[i+1]
		ci := g.R.Intn(len(arr.Items))
		switch g.R.Intn(6) {
		case 0:
			arr.Items[ci] = refcbor.Null()
			return "component=null"
		case 1:
			v, cls := g.SpecialNode()
			arr.Items[ci] = v
			return "component=" + cls
		case 2:
			if arr.Items[ci].K == refcbor.Map {
				arr.Items[ci].Items = append(arr.Items[ci].Items, g.UnknownKey(), g.Junk(1))
				return "component-unknown-key"
			}
		case 3:
			arr.Items = append(arr.Items, arr.Items[ci].Clone())
			return "component-duplicated"
		default:
			if arr.Items[ci].K == refcbor.Map {
				fk := CompKeys[g.R.Intn(5)]
				v, cls := g.SpecialNode()
				mapSet(arr.Items[ci], fk, v)
				return fmt.Sprintf("component.%d=%s", fk, cls)
			}
		}
		return "noop"
	}
}

func fitsW(v uint64, w int) bool {
	switch w {
	case 1:
		return v <= 0xff
	case 2:
		return v <= 0xffff
	case 4:
		return v <= 0xffffffff
	}
	return true
}

// WireCase generates one token for the C04-family workloads.
func (g *Gen) WireCase() (p int, a *Claims, w *refcbor.Node, sig Sig) {
	p = 1 + g.R.Intn(2)
	switch g.R.Intn(4) {
	case 0:
		a = g.Valid(p)
		sig = Sig{"valid"}
	case 1:
		var s Sig
		a, s = g.ValidProduct(p)
		sig = append(Sig{"valid-product"}, s...)
	case 2:
		var s Sig
		a, s = g.Mutated(p, 1)
		sig = append(Sig{"rule"}, s...)
	default:
		var s Sig
		a, s = g.Mutated(p, 2)
		sig = append(Sig{"rule2"}, s...)
	}
	w = a.WireCBOR()
	ne := []int{0, 1, 1, 1, 2, 2, 3}[g.R.Intn(7)]
	for i := 0; i < ne; i++ {
		sig = append(sig, g.WireEdit(p, w))
	}
	if g.R.Intn(3) == 0 {
		permutePairs(g, w)
	}
	return
}
