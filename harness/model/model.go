// Package model is the executable reference model of the two PSA profiles.
// It knows nothing about the library under test: an abstract claims-set is a
// plain record (per claim: absent / value), and the functions here compute -
// independently of psatoken's validators - the expected validation verdict,
// the expected result of every getter, the expected CBOR wire form and the
// expected JSON form.
package model

import (
	"encoding/hex"
	"fmt"
	"strings"
)

const (
	P1Name = "PSA_IOT_PROFILE_1"
	P2Name = "http://arm.com/psa/2.0.0"
)

// Class is the error class of a getter / setter / Validate result.
type Class uint8

const (
	OK Class = iota
	MissingMandatory
	MissingOptional
	WrongSyntax
	WrongProfile
	NotInProfile
	Other // an error that belongs to none of the documented classes
)

func (c Class) String() string {
	return [...]string{"ok", "missing-mandatory", "missing-optional", "wrong-syntax", "wrong-profile", "not-in-profile", "other"}[c]
}

// Comp is an abstract software component; nil = field absent.
type Comp struct {
	MType   *string
	MVal    *[]byte
	Version *string
	Signer  *[]byte
	Desc    *string
}

// Claims is an abstract claims-set of one of the two base profiles.
type Claims struct {
	P     int    // 1 or 2: base profile whose wire format / rules apply
	Canon string // canonical profile name of the implementation (P1Name, P2Name or an extension's)

	Profile   *string
	ClientID  *int32
	Lifecycle *uint16
	ImplID    *[]byte
	BootSeed  *[]byte
	CertRef   *string
	// HasComps: the component list is present on the wire (possibly empty).
	HasComps bool
	Comps    []Comp
	NoMeas   *uint64 // profile 1 only
	// HasNonce + Nonces: profile 1 carries exactly Nonces[0]; profile 2 a list.
	HasNonce bool
	Nonces   [][]byte
	InstID   *[]byte
	VSI      *string
}

func (a *Claims) Clone() *Claims {
	c := *a
	cpS := func(p *string) *string {
		if p == nil {
			return nil
		}
		v := *p
		return &v
	}
	cpB := func(p *[]byte) *[]byte {
		if p == nil {
			return nil
		}
		v := append([]byte{}, (*p)...)
		return &v
	}
	c.Profile = cpS(a.Profile)
	if a.ClientID != nil {
		v := *a.ClientID
		c.ClientID = &v
	}
	if a.Lifecycle != nil {
		v := *a.Lifecycle
		c.Lifecycle = &v
	}
	c.ImplID, c.BootSeed, c.InstID = cpB(a.ImplID), cpB(a.BootSeed), cpB(a.InstID)
	c.CertRef, c.VSI = cpS(a.CertRef), cpS(a.VSI)
	if a.NoMeas != nil {
		v := *a.NoMeas
		c.NoMeas = &v
	}
	c.Comps = make([]Comp, len(a.Comps))
	for i, sc := range a.Comps {
		c.Comps[i] = Comp{cpS(sc.MType), cpB(sc.MVal), cpS(sc.Version), cpB(sc.Signer), cpS(sc.Desc)}
	}
	c.Nonces = make([][]byte, len(a.Nonces))
	for i, n := range a.Nonces {
		c.Nonces[i] = append([]byte{}, n...)
	}
	return &c
}

// ---- syntactic rules (written independently of the library) ---------------

func isHashLen(n int) bool { return n == 32 || n == 48 || n == 64 }

// LifecycleState: 0..6 for the seven ranges, -1 invalid.
func LifecycleState(v uint16) int {
	if v&0xff00 == v&0xf000 && v>>12 <= 6 { // high byte is 0x00,0x10,..,0x60
		return int(v >> 12)
	}
	return -1
}

var LifecycleNames = []string{
	"unknown", "assembly-and-test", "psa-rot-provisioning", "secured",
	"non-psa-rot-debug", "recoverable-psa-rot-debug", "decommissioned",
}

func allASCIIDigits(s string) bool {
	if s == "" {
		return false
	}
	for i := 0; i < len(s); i++ {
		if s[i] < '0' || s[i] > '9' {
			return false
		}
	}
	return true
}

// IsEAN13 / IsEAN13Plus5: anchored, ASCII digits only.
func IsEAN13(s string) bool { return len(s) == 13 && allASCIIDigits(s) }
func IsEAN13Plus5(s string) bool {
	return len(s) == 19 && s[13] == '-' && allASCIIDigits(s[:13]) && allASCIIDigits(s[14:])
}

func CertRefOK(p int, s string) bool {
	if p == 1 {
		return IsEAN13(s) || IsEAN13Plus5(s)
	}
	return IsEAN13Plus5(s)
}

func BootSeedOK(p int, n int) bool {
	if p == 1 {
		return n == 32
	}
	return n >= 8 && n <= 32
}

func InstIDOK(b []byte) bool { return len(b) == 33 && b[0] == 0x01 }

// ---- expected getter results -----------------------------------------------

// Res is the outcome of one getter: error class and, when OK, a canonical
// rendering of the value.
type Res struct {
	C Class
	V string
}

// Obs is the full API-level observation of a claims-set.
type Obs struct {
	Validate  Class
	Profile   Res
	ClientID  Res
	Lifecycle Res
	ImplID    Res
	BootSeed  Res
	CertRef   Res
	Comps     Res
	Nonce     Res
	InstID    Res
	VSI       Res
}

var GetterNames = []string{"profile", "client-id", "lifecycle", "impl-id", "boot-seed", "cert-ref", "sw-components", "nonce", "inst-id", "vsi"}

func (o Obs) Getters() []Res {
	return []Res{o.Profile, o.ClientID, o.Lifecycle, o.ImplID, o.BootSeed, o.CertRef, o.Comps, o.Nonce, o.InstID, o.VSI}
}

// String renders the observation compactly (used as digest and in replays).
func (o Obs) String() string {
	var sb strings.Builder
	fmt.Fprintf(&sb, "validate=%s", o.Validate)
	for i, r := range o.Getters() {
		fmt.Fprintf(&sb, " %s=%s", GetterNames[i], r)
	}
	return sb.String()
}

func (r Res) String() string {
	if r.C == OK {
		return r.V
	}
	return "!" + r.C.String()
}

func RB(b []byte) string { return "h'" + hex.EncodeToString(b) + "'" }
func RS(s string) string { return fmt.Sprintf("%q", s) }
func RI(i int64) string  { return fmt.Sprintf("%d", i) }
func okB(b []byte) Res   { return Res{OK, RB(b)} }
func okS(s string) Res   { return Res{OK, RS(s)} }
func fail(c Class) Res   { return Res{C: c} }

// CompRes renders what the five getters of one component are expected to
// return: value or class per field.
func CompString(mt, mv, ver, sig, desc Res) string {
	return fmt.Sprintf("{type=%s value=%s version=%s signer=%s desc=%s}", mt, mv, ver, sig, desc)
}

func optS(p *string) Res {
	if p == nil {
		return fail(MissingOptional)
	}
	return okS(*p)
}

func hashRes(p *[]byte) Res {
	if p == nil {
		return fail(MissingMandatory)
	}
	if !isHashLen(len(*p)) {
		return fail(WrongSyntax)
	}
	return okB(*p)
}

// CompExpect returns the five expected getter results of a component and the
// class of its validation (OK if valid).
func CompExpect(c *Comp) (res [5]Res, validate Class) {
	res[0] = optS(c.MType)
	res[1] = hashRes(c.MVal)
	res[2] = optS(c.Version)
	res[3] = hashRes(c.Signer)
	res[4] = optS(c.Desc)
	validate = OK
	for _, r := range res {
		if r.C != OK && r.C != MissingOptional {
			validate = r.C
			break
		}
	}
	return
}

// OffendingCompClasses returns the classes of all offending component fields.
func (a *Claims) OffendingCompClasses() map[Class]bool {
	out := map[Class]bool{}
	for i := range a.Comps {
		res, _ := CompExpect(&a.Comps[i])
		for _, r := range res {
			if r.C != OK && r.C != MissingOptional {
				out[r.C] = true
			}
		}
	}
	return out
}

// Expect computes the expected observation of the claims-set.
func (a *Claims) Expect() Obs {
	var o Obs
	// profile
	switch a.P {
	case 1:
		switch {
		case a.Profile == nil:
			o.Profile = okS(a.Canon)
		case *a.Profile == a.Canon:
			o.Profile = okS(a.Canon)
		default:
			o.Profile = fail(WrongProfile)
		}
	default:
		switch {
		case a.Profile == nil:
			o.Profile = fail(MissingMandatory)
		case *a.Profile == a.Canon:
			o.Profile = okS(a.Canon)
		default:
			o.Profile = fail(WrongProfile)
		}
	}
	// client id
	if a.ClientID == nil {
		o.ClientID = fail(MissingMandatory)
	} else {
		o.ClientID = Res{OK, RI(int64(*a.ClientID))}
	}
	// lifecycle
	switch {
	case a.Lifecycle == nil:
		o.Lifecycle = fail(MissingMandatory)
	case LifecycleState(*a.Lifecycle) < 0:
		o.Lifecycle = fail(WrongSyntax)
	default:
		o.Lifecycle = Res{OK, RI(int64(*a.Lifecycle))}
	}
	// implementation id
	switch {
	case a.ImplID == nil:
		o.ImplID = fail(MissingMandatory)
	case len(*a.ImplID) != 32:
		o.ImplID = fail(WrongSyntax)
	default:
		o.ImplID = okB(*a.ImplID)
	}
	// boot seed
	switch {
	case a.BootSeed == nil && a.P == 1:
		o.BootSeed = fail(MissingMandatory)
	case a.BootSeed == nil:
		o.BootSeed = fail(MissingOptional)
	case !BootSeedOK(a.P, len(*a.BootSeed)):
		o.BootSeed = fail(WrongSyntax)
	default:
		o.BootSeed = okB(*a.BootSeed)
	}
	// certification reference
	switch {
	case a.CertRef == nil:
		o.CertRef = fail(MissingOptional)
	case !CertRefOK(a.P, *a.CertRef):
		o.CertRef = fail(WrongSyntax)
	default:
		o.CertRef = okS(*a.CertRef)
	}
	// software components
	o.Comps = a.expectComps()
	// nonce
	switch {
	case !a.HasNonce:
		o.Nonce = fail(MissingMandatory)
	case a.P == 1:
		if !isHashLen(len(a.Nonces[0])) {
			o.Nonce = fail(WrongSyntax)
		} else {
			o.Nonce = okB(a.Nonces[0])
		}
	default:
		if len(a.Nonces) != 1 || !isHashLen(len(a.Nonces[0])) {
			o.Nonce = fail(WrongSyntax)
		} else {
			o.Nonce = okB(a.Nonces[0])
		}
	}
	// instance id
	switch {
	case a.InstID == nil:
		o.InstID = fail(MissingMandatory)
	case !InstIDOK(*a.InstID):
		o.InstID = fail(WrongSyntax)
	default:
		o.InstID = okB(*a.InstID)
	}
	// vsi
	switch {
	case a.VSI == nil:
		o.VSI = fail(MissingOptional)
	case *a.VSI == "":
		o.VSI = fail(WrongSyntax)
	default:
		o.VSI = okS(*a.VSI)
	}
	// validate: OK iff every getter is OK or missing-optional; otherwise the
	// class of the first offending claim in the library's documented
	// validation order (profile, lifecycle, impl-id, sw-components, nonce,
	// inst-id, vsi, client-id, boot-seed, cert-ref). Callers that combine
	// several faults must use ValidateClasses instead of this single value.
	o.Validate = OK
	for _, r := range []Res{o.Profile, o.Lifecycle, o.ImplID, o.Comps, o.Nonce, o.InstID, o.VSI, o.ClientID, o.BootSeed, o.CertRef} {
		if r.C != OK && r.C != MissingOptional {
			o.Validate = r.C
			break
		}
	}
	return o
}

func (a *Claims) expectComps() Res {
	if len(a.Comps) == 0 {
		if a.P == 1 && a.NoMeas != nil {
			return Res{OK, "[]"}
		}
		return fail(MissingMandatory)
	}
	if a.P == 1 && a.NoMeas != nil {
		return fail(WrongSyntax)
	}
	var parts []string
	for i := range a.Comps {
		res, v := CompExpect(&a.Comps[i])
		if v != OK {
			return fail(v)
		}
		parts = append(parts, CompString(res[0], res[1], res[2], res[3], res[4]))
	}
	return Res{OK, "[" + strings.Join(parts, " ") + "]"}
}

// Valid is the reference validity predicate of property C01.
func (a *Claims) Valid() bool {
	o := a.Expect()
	return o.Validate == OK
}

// ValidateClasses returns the set of classes of all offending claims (empty
// when valid). With several faults the library may report any of them.
func (a *Claims) ValidateClasses() map[Class]bool {
	o := a.Expect()
	out := map[Class]bool{}
	for i, r := range o.Getters() {
		if r.C == OK || r.C == MissingOptional {
			continue
		}
		if i == 6 && len(a.Comps) > 0 && !(a.P == 1 && a.NoMeas != nil) {
			for c := range a.OffendingCompClasses() {
				out[c] = true
			}
			continue
		}
		out[r.C] = true
	}
	return out
}

// ObsEqualOK compares two observations: classes must agree everywhere, values
// must agree wherever the class is OK.
func ObsDiff(want, got *Obs) string {
	var diffs []string
	if want.Validate != got.Validate {
		if !(want.Validate != OK && got.Validate != OK) { // class of multi-fault sets handled elsewhere
			diffs = append(diffs, fmt.Sprintf("validate: want %s got %s", want.Validate, got.Validate))
		}
	}
	w, g := want.Getters(), got.Getters()
	for i := range w {
		if w[i].C != g[i].C || (w[i].C == OK && w[i].V != g[i].V) {
			diffs = append(diffs, fmt.Sprintf("%s: want %s got %s", GetterNames[i], w[i], g[i]))
		}
	}
	return strings.Join(diffs, "; ")
}
