package refcbor

import (
	"bytes"
	"encoding/hex"
	"math/rand"
	"testing"

	fx "github.com/fxamacker/cbor/v2"
)

func randNode(r *rand.Rand, d int) *Node {
	k := r.Intn(10)
	if d > 3 && k >= 4 && k <= 6 {
		k = 0
	}
	switch k {
	case 0:
		return U(r.Uint64() >> uint(r.Intn(64)))
	case 1:
		return NegArg(r.Uint64() >> uint(r.Intn(64)))
	case 2:
		b := make([]byte, r.Intn(40))
		r.Read(b)
		return Bstr(b)
	case 3:
		return Tstr("héllo"[:r.Intn(3)])
	case 4:
		n := Arr()
		for i := r.Intn(4); i > 0; i-- {
			n.Items = append(n.Items, randNode(r, d+1))
		}
		return n
	case 5:
		n := MapOf()
		for i := r.Intn(4); i > 0; i-- {
			n.Items = append(n.Items, I(int64(i)), randNode(r, d+1))
		}
		return n
	case 6:
		return Tagged(uint64(r.Intn(300)+30), randNode(r, d+1))
	case 7:
		return Null()
	case 8:
		return Bool(r.Intn(2) == 0)
	default:
		return Flt(float64(r.Intn(100)), []int{2, 4, 8}[r.Intn(3)])
	}
}

func TestRoundTripAndAgainstFx(t *testing.T) {
	r := rand.New(rand.NewSource(1))
	for i := 0; i < 20000; i++ {
		n := randNode(r, 0)
		enc := Encode(n)
		back, err := DecodeAll(enc)
		if err != nil {
			t.Fatalf("%x: %v", enc, err)
		}
		if !Equal(n, back) {
			t.Fatalf("mismatch %s vs %s", n.Diag(), back.Diag())
		}
		if !bytes.Equal(Encode(back), enc) {
			t.Fatalf("re-encode differs %x", enc)
		}
		if err := fx.Wellformed(enc); err != nil {
			t.Fatalf("fx says not well-formed: %x %v", enc, err)
		}
	}
}

func TestVectors(t *testing.T) {
	for _, tc := range []struct{ hex, diag string }{
		{"1864", "100"}, {"3903e7", "-1000"}, {"f93c00", "1_1"}, {"fb3ff199999999999a", "1.1_3"},
		{"5f42010243030405ff", "(_ h'0102030405')"}, {"bf61610161629f0203ffff", `{_ "a": 1, "b": [_ 2, 3]}`},
		{"c074323031332d30332d32315432303a30343a30305a", `0("2013-03-21T20:04:00Z")`},
		{"1800", "0_0"}, {"f6", "null"}, {"f7", "undefined"}, {"f8ff", "simple(255)"},
	} {
		b, _ := hex.DecodeString(tc.hex)
		n, err := DecodeAll(b)
		if err != nil {
			t.Fatalf("%s: %v", tc.hex, err)
		}
		if n.Diag() != tc.diag {
			t.Errorf("%s: got %s want %s", tc.hex, n.Diag(), tc.diag)
		}
		if !bytes.Equal(Encode(n), b) {
			t.Errorf("%s: re-encode %x", tc.hex, Encode(n))
		}
	}
	for _, bad := range []string{"", "18", "5f01ff", "bf01ff", "ff", "1c", "f800", "a1", "8201", "5a00000002ff", "c0"} {
		b, _ := hex.DecodeString(bad)
		if _, err := DecodeAll(b); err == nil {
			t.Errorf("%s accepted", bad)
		}
	}
}
