// Package refcbor is a small CBOR (RFC 8949) encoder / decoder / AST written
// for the verification harness. It is deliberately independent of
// fxamacker/cbor (the codec used by the library under test) so that it can
// (a) assemble hostile wire inputs in any shape - any major type, non-minimal
// and indefinite lengths, tags, duplicate keys, arbitrary key order, trailing
// bytes - and (b) judge every byte string the library emits.
package refcbor

import (
	"encoding/binary"
	"encoding/hex"
	"errors"
	"fmt"
	"math"
	"strings"
)

type Kind uint8

const (
	Uint   Kind = iota // major 0: value in U
	Nint               // major 1: value is -1-U
	Bytes              // major 2: B (or chunks in Items when Indef)
	Text               // major 3: B (or chunks in Items when Indef)
	Array              // major 4: Items
	Map                // major 5: Items = k0,v0,k1,v1,...
	Tag                // major 6: U = tag number, Items[0] = content
	Simple             // major 7: U = simple value (20 false,21 true,22 null,23 undefined)
	Float              // major 7 ai 25/26/27: F, FW = 2/4/8
	RawHex             // not CBOR: B is spliced verbatim (for hostile inputs)
)

// Node is one CBOR data item.
type Node struct {
	K     Kind
	U     uint64
	B     []byte
	Items []*Node
	F     float64
	FW    int
	// Indef: indefinite-length encoding (bytes/text/array/map).
	Indef bool
	// ArgW forces the width of the argument: 0 = shortest, 1,2,4,8 = that
	// many following bytes (possibly non-minimal). -1 = immediate.
	ArgW int
	// FBits, when FW!=0 and UseBits, gives the raw float bits to emit.
	FBits   uint64
	UseBits bool
}

// ---- constructors ---------------------------------------------------------

func U(v uint64) *Node { return &Node{K: Uint, U: v} }
func I(v int64) *Node {
	if v >= 0 {
		return &Node{K: Uint, U: uint64(v)}
	}
	return &Node{K: Nint, U: uint64(-1 - v)}
}
func NegArg(n uint64) *Node          { return &Node{K: Nint, U: n} }
func Bstr(b []byte) *Node            { return &Node{K: Bytes, B: append([]byte{}, b...)} }
func Tstr(s string) *Node            { return &Node{K: Text, B: []byte(s)} }
func Arr(items ...*Node) *Node       { return &Node{K: Array, Items: items} }
func MapOf(kv ...*Node) *Node        { return &Node{K: Map, Items: kv} }
func Tagged(t uint64, c *Node) *Node { return &Node{K: Tag, U: t, Items: []*Node{c}} }
func Null() *Node                    { return &Node{K: Simple, U: 22} }
func Undef() *Node                   { return &Node{K: Simple, U: 23} }
func Bool(b bool) *Node {
	if b {
		return &Node{K: Simple, U: 21}
	}
	return &Node{K: Simple, U: 20}
}
func Flt(f float64, width int) *Node { return &Node{K: Float, F: f, FW: width} }
func Raw(b []byte) *Node             { return &Node{K: RawHex, B: append([]byte{}, b...)} }

// Wrap returns a byte string whose content is the encoding of n (<<n>>).
func Wrap(n *Node) *Node { return Bstr(Encode(n)) }

func (n *Node) WithArgW(w int) *Node { c := *n; c.ArgW = w; return &c }
func (n *Node) AsIndef() *Node       { c := *n; c.Indef = true; return &c }

// Clone makes a deep copy.
func (n *Node) Clone() *Node {
	if n == nil {
		return nil
	}
	c := *n
	if n.B != nil {
		c.B = append([]byte{}, n.B...)
	}
	if n.Items != nil {
		c.Items = make([]*Node, len(n.Items))
		for i, it := range n.Items {
			c.Items[i] = it.Clone()
		}
	}
	return &c
}

// IsNull / IsUndef helpers.
func (n *Node) IsNull() bool  { return n.K == Simple && n.U == 22 }
func (n *Node) IsUndef() bool { return n.K == Simple && n.U == 23 }

// Int64 returns the integer value of a Uint/Nint node if it fits int64.
func (n *Node) Int64() (int64, bool) {
	switch n.K {
	case Uint:
		if n.U > math.MaxInt64 {
			return 0, false
		}
		return int64(n.U), true
	case Nint:
		if n.U > math.MaxInt64 {
			return 0, false
		}
		return -1 - int64(n.U), true
	}
	return 0, false
}

// MapGet returns the values stored under integer key k (all of them, in order,
// so duplicates are visible).
func (n *Node) MapGet(k int64) []*Node {
	var out []*Node
	if n.K != Map {
		return nil
	}
	for i := 0; i+1 < len(n.Items); i += 2 {
		if v, ok := n.Items[i].Int64(); ok && v == k {
			out = append(out, n.Items[i+1])
		}
	}
	return out
}

// ---- encoder ----------------------------------------------------------------

func head(out []byte, major byte, arg uint64, argW int) []byte {
	m := major << 5
	w := argW
	if w == 0 {
		switch {
		case arg < 24:
			w = -1
		case arg <= 0xff:
			w = 1
		case arg <= 0xffff:
			w = 2
		case arg <= 0xffffffff:
			w = 4
		default:
			w = 8
		}
	}
	switch w {
	case -1:
		return append(out, m|byte(arg&0x1f))
	case 1:
		return append(out, m|24, byte(arg))
	case 2:
		out = append(out, m|25)
		return binary.BigEndian.AppendUint16(out, uint16(arg))
	case 4:
		out = append(out, m|26)
		return binary.BigEndian.AppendUint32(out, uint32(arg))
	default:
		out = append(out, m|27)
		return binary.BigEndian.AppendUint64(out, arg)
	}
}

// Encode serialises the AST exactly as described (no canonicalisation).
func Encode(n *Node) []byte { return AppendEncode(nil, n) }

func AppendEncode(out []byte, n *Node) []byte {
	switch n.K {
	case Uint:
		return head(out, 0, n.U, n.ArgW)
	case Nint:
		return head(out, 1, n.U, n.ArgW)
	case Bytes, Text:
		major := byte(2)
		if n.K == Text {
			major = 3
		}
		if n.Indef {
			out = append(out, major<<5|31)
			if len(n.Items) == 0 && len(n.B) > 0 {
				out = head(out, major, uint64(len(n.B)), 0)
				out = append(out, n.B...)
			}
			for _, c := range n.Items {
				out = AppendEncode(out, c)
			}
			return append(out, 0xff)
		}
		out = head(out, major, uint64(len(n.B)), n.ArgW)
		return append(out, n.B...)
	case Array:
		if n.Indef {
			out = append(out, 4<<5|31)
		} else {
			out = head(out, 4, uint64(len(n.Items)), n.ArgW)
		}
		for _, c := range n.Items {
			out = AppendEncode(out, c)
		}
		if n.Indef {
			out = append(out, 0xff)
		}
		return out
	case Map:
		if n.Indef {
			out = append(out, 5<<5|31)
		} else {
			out = head(out, 5, uint64(len(n.Items)/2), n.ArgW)
		}
		for _, c := range n.Items {
			out = AppendEncode(out, c)
		}
		if n.Indef {
			out = append(out, 0xff)
		}
		return out
	case Tag:
		out = head(out, 6, n.U, n.ArgW)
		return AppendEncode(out, n.Items[0])
	case Simple:
		if n.U < 24 {
			return append(out, 7<<5|byte(n.U))
		}
		return append(out, 7<<5|24, byte(n.U))
	case Float:
		switch n.FW {
		case 2:
			bits := uint64(f64to16(n.F))
			if n.UseBits {
				bits = n.FBits
			}
			out = append(out, 0xf9)
			return binary.BigEndian.AppendUint16(out, uint16(bits))
		case 4:
			bits := uint64(math.Float32bits(float32(n.F)))
			if n.UseBits {
				bits = n.FBits
			}
			out = append(out, 0xfa)
			return binary.BigEndian.AppendUint32(out, uint32(bits))
		default:
			bits := math.Float64bits(n.F)
			if n.UseBits {
				bits = n.FBits
			}
			out = append(out, 0xfb)
			return binary.BigEndian.AppendUint64(out, bits)
		}
	case RawHex:
		return append(out, n.B...)
	}
	panic("refcbor: unknown kind")
}

// f64to16 converts to IEEE half precision (round-to-nearest-even, enough for
// the small integral values the harness uses).
func f64to16(f float64) uint16 {
	b := math.Float32bits(float32(f))
	sign := uint16(b>>16) & 0x8000
	exp := int((b>>23)&0xff) - 127 + 15
	mant := b & 0x7fffff
	switch {
	case (b>>23)&0xff == 0xff: // inf / nan
		if mant != 0 {
			return sign | 0x7e00
		}
		return sign | 0x7c00
	case exp >= 31:
		return sign | 0x7c00
	case exp <= 0:
		if exp < -10 {
			return sign
		}
		mant |= 0x800000
		shift := uint(14 - exp)
		return sign | uint16(mant>>shift)
	}
	return sign | uint16(exp)<<10 | uint16(mant>>13)
}

func f16to64(h uint16) float64 {
	sign := 1.0
	if h&0x8000 != 0 {
		sign = -1
	}
	exp := int(h>>10) & 0x1f
	mant := float64(h & 0x3ff)
	switch exp {
	case 0:
		return sign * math.Ldexp(mant, -24)
	case 31:
		if mant == 0 {
			return sign * math.Inf(1)
		}
		return math.NaN()
	}
	return sign * math.Ldexp(mant+1024, exp-25)
}

// ---- decoder ----------------------------------------------------------------

var ErrTruncated = errors.New("refcbor: truncated input")

const maxDepth = 512

// Decode parses exactly one well-formed data item and returns it together
// with the remaining bytes. The AST records the encoding choices (argument
// width, indefinite length) so that a caller can check for minimal / definite
// encoding.
func Decode(b []byte) (*Node, []byte, error) { return decode(b, 0) }

// DecodeAll parses one item and fails if anything follows it.
func DecodeAll(b []byte) (*Node, error) {
	n, rest, err := Decode(b)
	if err != nil {
		return nil, err
	}
	if len(rest) != 0 {
		return nil, fmt.Errorf("refcbor: %d trailing bytes", len(rest))
	}
	return n, nil
}

func readArg(ai byte, b []byte) (arg uint64, w int, rest []byte, err error) {
	switch {
	case ai < 24:
		return uint64(ai), -1, b, nil
	case ai == 24:
		if len(b) < 1 {
			return 0, 0, nil, ErrTruncated
		}
		return uint64(b[0]), 1, b[1:], nil
	case ai == 25:
		if len(b) < 2 {
			return 0, 0, nil, ErrTruncated
		}
		return uint64(binary.BigEndian.Uint16(b)), 2, b[2:], nil
	case ai == 26:
		if len(b) < 4 {
			return 0, 0, nil, ErrTruncated
		}
		return uint64(binary.BigEndian.Uint32(b)), 4, b[4:], nil
	case ai == 27:
		if len(b) < 8 {
			return 0, 0, nil, ErrTruncated
		}
		return binary.BigEndian.Uint64(b), 8, b[8:], nil
	}
	return 0, 0, nil, fmt.Errorf("refcbor: reserved additional information %d", ai)
}

func minimalW(arg uint64) int {
	switch {
	case arg < 24:
		return -1
	case arg <= 0xff:
		return 1
	case arg <= 0xffff:
		return 2
	case arg <= 0xffffffff:
		return 4
	}
	return 8
}

func decode(b []byte, depth int) (*Node, []byte, error) {
	if depth > maxDepth {
		return nil, nil, errors.New("refcbor: nesting too deep")
	}
	if len(b) == 0 {
		return nil, nil, ErrTruncated
	}
	ib := b[0]
	major, ai := ib>>5, ib&0x1f
	b = b[1:]
	if major == 7 {
		switch {
		case ai < 24:
			return &Node{K: Simple, U: uint64(ai)}, b, nil
		case ai == 24:
			if len(b) < 1 {
				return nil, nil, ErrTruncated
			}
			if b[0] < 32 {
				return nil, nil, errors.New("refcbor: invalid two-byte simple value")
			}
			return &Node{K: Simple, U: uint64(b[0])}, b[1:], nil
		case ai == 25:
			if len(b) < 2 {
				return nil, nil, ErrTruncated
			}
			bits := binary.BigEndian.Uint16(b)
			return &Node{K: Float, FW: 2, F: f16to64(bits), FBits: uint64(bits)}, b[2:], nil
		case ai == 26:
			if len(b) < 4 {
				return nil, nil, ErrTruncated
			}
			bits := binary.BigEndian.Uint32(b)
			return &Node{K: Float, FW: 4, F: float64(math.Float32frombits(bits)), FBits: uint64(bits)}, b[4:], nil
		case ai == 27:
			if len(b) < 8 {
				return nil, nil, ErrTruncated
			}
			bits := binary.BigEndian.Uint64(b)
			return &Node{K: Float, FW: 8, F: math.Float64frombits(bits), FBits: bits}, b[8:], nil
		case ai == 31:
			return nil, nil, errors.New("refcbor: unexpected break")
		}
		return nil, nil, fmt.Errorf("refcbor: reserved additional information %d", ai)
	}
	if ai == 31 {
		switch major {
		case 2, 3:
			n := &Node{K: Kind(major), Indef: true}
			for {
				if len(b) == 0 {
					return nil, nil, ErrTruncated
				}
				if b[0] == 0xff {
					return n, b[1:], nil
				}
				if b[0]>>5 != major || b[0]&0x1f == 31 {
					return nil, nil, errors.New("refcbor: bad chunk in indefinite string")
				}
				c, rest, err := decode(b, depth+1)
				if err != nil {
					return nil, nil, err
				}
				n.Items = append(n.Items, c)
				n.B = append(n.B, c.B...)
				b = rest
			}
		case 4, 5:
			n := &Node{K: Kind(major), Indef: true}
			for {
				if len(b) == 0 {
					return nil, nil, ErrTruncated
				}
				if b[0] == 0xff {
					if major == 5 && len(n.Items)%2 != 0 {
						return nil, nil, errors.New("refcbor: odd number of items in indefinite map")
					}
					return n, b[1:], nil
				}
				c, rest, err := decode(b, depth+1)
				if err != nil {
					return nil, nil, err
				}
				n.Items = append(n.Items, c)
				b = rest
			}
		}
		return nil, nil, fmt.Errorf("refcbor: indefinite length on major type %d", major)
	}
	arg, w, rest, err := readArg(ai, b)
	if err != nil {
		return nil, nil, err
	}
	argW := 0
	if w != minimalW(arg) {
		argW = w
	}
	b = rest
	switch major {
	case 0:
		return &Node{K: Uint, U: arg, ArgW: argW}, b, nil
	case 1:
		return &Node{K: Nint, U: arg, ArgW: argW}, b, nil
	case 2, 3:
		if arg > uint64(len(b)) {
			return nil, nil, ErrTruncated
		}
		return &Node{K: Kind(major), B: append([]byte{}, b[:arg]...), ArgW: argW}, b[arg:], nil
	case 4, 5:
		cnt := arg
		if major == 5 {
			if arg > uint64(len(b)) { // each pair needs >= 2 bytes
				return nil, nil, ErrTruncated
			}
			cnt = arg * 2
		}
		if cnt > uint64(len(b)) {
			return nil, nil, ErrTruncated
		}
		n := &Node{K: Kind(major), ArgW: argW, Items: make([]*Node, 0, cnt)}
		for i := uint64(0); i < cnt; i++ {
			c, rest, err := decode(b, depth+1)
			if err != nil {
				return nil, nil, err
			}
			n.Items = append(n.Items, c)
			b = rest
		}
		return n, b, nil
	case 6:
		c, rest, err := decode(b, depth+1)
		if err != nil {
			return nil, nil, err
		}
		return &Node{K: Tag, U: arg, ArgW: argW, Items: []*Node{c}}, rest, nil
	}
	panic("unreachable")
}

// ---- inspection ----------------------------------------------------------

// AllDefiniteMinimal reports whether every item in the tree uses definite
// lengths and shortest-form arguments.
func (n *Node) AllDefiniteMinimal() bool {
	if n.Indef || n.ArgW != 0 {
		return false
	}
	for _, c := range n.Items {
		if !c.AllDefiniteMinimal() {
			return false
		}
	}
	return true
}

// Equal compares two nodes by value (ignoring encoding choices).
func Equal(a, b *Node) bool {
	if a.K != b.K {
		return false
	}
	switch a.K {
	case Uint, Nint, Simple:
		return a.U == b.U
	case Bytes, Text, RawHex:
		return string(a.B) == string(b.B)
	case Float:
		return a.F == b.F || (a.F != a.F && b.F != b.F)
	case Tag:
		return a.U == b.U && Equal(a.Items[0], b.Items[0])
	case Array, Map:
		if len(a.Items) != len(b.Items) {
			return false
		}
		for i := range a.Items {
			if !Equal(a.Items[i], b.Items[i]) {
				return false
			}
		}
		return true
	}
	return false
}

// Diag renders the node in (abbreviated) CBOR diagnostic notation.
func (n *Node) Diag() string {
	var sb strings.Builder
	n.diag(&sb)
	return sb.String()
}

func (n *Node) diag(sb *strings.Builder) {
	suffix := ""
	if n.ArgW > 0 {
		suffix = fmt.Sprintf("_%d", map[int]int{1: 0, 2: 1, 4: 2, 8: 3}[n.ArgW])
	}
	switch n.K {
	case Uint:
		fmt.Fprintf(sb, "%d%s", n.U, suffix)
	case Nint:
		if n.U == math.MaxUint64 {
			sb.WriteString("-18446744073709551616" + suffix)
		} else {
			fmt.Fprintf(sb, "-%d%s", n.U+1, suffix)
		}
	case Bytes:
		if n.Indef {
			sb.WriteString("(_ ")
		}
		h := hex.EncodeToString(n.B)
		if len(h) > 24 {
			h = fmt.Sprintf("%s..(%d)", h[:16], len(n.B))
		}
		fmt.Fprintf(sb, "h'%s'%s", h, suffix)
		if n.Indef {
			sb.WriteString(")")
		}
	case Text:
		if n.Indef {
			sb.WriteString("(_ ")
		}
		fmt.Fprintf(sb, "%q%s", string(n.B), suffix)
		if n.Indef {
			sb.WriteString(")")
		}
	case Array:
		sb.WriteString("[")
		if n.Indef {
			sb.WriteString("_ ")
		}
		for i, c := range n.Items {
			if i > 0 {
				sb.WriteString(", ")
			}
			c.diag(sb)
		}
		sb.WriteString("]" + suffix)
	case Map:
		sb.WriteString("{")
		if n.Indef {
			sb.WriteString("_ ")
		}
		for i := 0; i+1 < len(n.Items); i += 2 {
			if i > 0 {
				sb.WriteString(", ")
			}
			n.Items[i].diag(sb)
			sb.WriteString(": ")
			n.Items[i+1].diag(sb)
		}
		sb.WriteString("}" + suffix)
	case Tag:
		fmt.Fprintf(sb, "%d%s(", n.U, suffix)
		n.Items[0].diag(sb)
		sb.WriteString(")")
	case Simple:
		switch n.U {
		case 20:
			sb.WriteString("false")
		case 21:
			sb.WriteString("true")
		case 22:
			sb.WriteString("null")
		case 23:
			sb.WriteString("undefined")
		default:
			fmt.Fprintf(sb, "simple(%d)", n.U)
		}
	case Float:
		fmt.Fprintf(sb, "%g_%d", n.F, map[int]int{2: 1, 4: 2, 8: 3}[n.FW])
	case RawHex:
		fmt.Fprintf(sb, "raw(%s)", hex.EncodeToString(n.B))
	}
}
