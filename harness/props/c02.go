package props

import (
	"bytes"
	"crypto"
	"crypto/ecdsa"
	"crypto/ed25519"
	"crypto/elliptic"
	"crypto/rand"
	"crypto/rsa"
	"crypto/sha256"
	"crypto/sha512"
	"crypto/x509"
	"crypto/x509/pkix"
	"encoding/hex"
	"fmt"
	"math/big"
	"strings"
	"time"
	"verif/harness/obs"

	"github.com/veraison/psatoken"

	"verif/harness/extprof"
	"verif/harness/keys"
	"verif/harness/model"
	"verif/harness/mon"
	"verif/harness/refcbor"
	"verif/harness/refcose"
)

func init() { register("C02", runC02) }

// c02Judge runs one (mutant token, key) pair through the library and the
// oracle. orig is the untampered token the mutant derives from (nil for
// hand-assembled envelopes, which have no legitimate verifying form).
// c02Reuse is an Evidence object that is decoded into again and again (a
// verifier that keeps one Evidence per connection): before a mutant is fed to
// it, it has decoded and successfully verified the original token.
type c02Reuse struct {
	ev    *psatoken.Evidence
	prime []byte
	pk    crypto.PublicKey
	n     int
}

var c02reuse *c02Reuse

func c02Judge(c *mon.Ctx, class string, orig *signedTok, mutant []byte, pk crypto.PublicKey, pkIsSigners bool, extra map[string]any) {
	c02JudgeVia(c, class, orig, mutant, pk, pkIsSigners, extra, "fresh-evidence")
	if r := c02reuse; r != nil {
		r.n++
		if !(class == "bitflip" || class == "truncation") || r.n%16 == 0 {
			// (re-)prime: decode + verify the untampered token on the reused object
			if err := r.ev.UnmarshalCOSE(r.prime); err != nil || r.ev.Verify(r.pk) != nil {
				c.Violation("C02/control-rejected/reused-evidence", "the reused Evidence does not decode+verify the unmodified token", nil)
				return
			}
			c.Count("reused-evidence-primed")
		}
		c02JudgeVia(c, class, orig, mutant, pk, pkIsSigners, extra, "reused-evidence")
	}
}

func c02JudgeVia(c *mon.Ctx, class string, orig *signedTok, mutant []byte, pk crypto.PublicKey, pkIsSigners bool, extra map[string]any, via string) {
	c.Eval()
	c.Count("mutants:" + class)
	var decoded, verified bool
	var derr, verr error
	if pn, pv, fr := mon.Guard(func() {
		if via == "fresh-evidence" {
			_, decoded, verified, derr, verr = libAccepts(mutant, pk)
			return
		}
		ev := c02reuse.ev
		if derr = ev.UnmarshalCOSE(mutant); derr == nil {
			decoded = true
			verr = ev.Verify(pk)
			verified = verr == nil
		}
	}); pn {
		c.Violation("C02/panic/"+mon.PanicKey(fr), "panic while decoding / verifying a modified token", map[string]any{"panic": pv, "frame": fr, "class": class, "mutant_hex": mon.Hex(mutant)})
		return
	}
	if via != "fresh-evidence" {
		class = "reused:" + class
		c.Count("reused-evidence-mutants")
	}
	switch {
	case !decoded:
		c.Count("outcome:decode-rejected")
		return
	case !verified:
		c.Count("outcome:verify-rejected")
		return
	}
	// The library decoded the token and Verify returned nil. Is that legitimate?
	det := map[string]any{"class": class, "mutant_hex": mon.Hex(mutant), "decode_err": fmt.Sprint(derr), "verify_err": fmt.Sprint(verr), "pk_is_signers": pkIsSigners}
	for k, v := range extra {
		det[k] = v
	}
	alg := "-"
	if orig != nil {
		det["original_hex"] = mon.Hex(orig.tok)
		alg = orig.key.Name
	}
	env, perr := refcose.Parse(mutant)
	if perr != nil || env.Arr == nil {
		c.Violation("C02/verified-unreadable/"+class+"/"+alg, fmt.Sprintf("a token the independent reader cannot read as a 4-array (%v) was decoded and verified", perr), det)
		return
	}
	if _, ok := env.Alg(); !ok {
		c.Violation("C02/verified-without-protected-alg/"+class+"/"+alg, "Verify succeeded for a message with no algorithm in its protected header", det)
		return
	}
	if env.Arr.Items[2].K != refcbor.Bytes {
		c.Violation("C02/verified-without-payload/"+class+"/"+alg, "Verify succeeded for a message without payload", det)
		return
	}
	if len(env.Signature) == 0 {
		c.Violation("C02/verified-without-signature/"+class+"/"+alg, "Verify succeeded for a message without signature", det)
		return
	}
	same := orig != nil && orig.env != nil && pkIsSigners &&
		bytes.Equal(env.Payload, orig.env.Payload) && bytes.Equal(env.ProtectedBS, orig.env.ProtectedBS) && bytes.Equal(env.Signature, orig.env.Signature)
	if same {
		// only something the signature does not cover changed (unprotected
		// header, length-prefix form, bytes after the message ...)
		c.Count("outcome:no-verdict-signed-content-unchanged")
		return
	}
	// second opinion: is this by any chance a cryptographically valid
	// signature over this very content under this very key (e.g. a splice
	// between two tokens with the same payload and key)?
	if rerr := env.Verify(pk); rerr == nil {
		c.Count("outcome:no-verdict-independently-valid-signature")
		return
	} else {
		det["independent_verifier"] = rerr.Error()
	}
	what := "payload/protected/signature content differs from the signed token"
	if !pkIsSigners {
		what = "verification key is not the signer's"
	}
	c.Violation("C02/tampered-verified/"+class+"/"+alg, "a modified token was decoded and Verify returned nil ("+what+"); the independent verifier rejects it", det)
}

// c02Malformed: Verify under a malformed key object; a panic is tolerated
// (and counted), a nil error is not.
func c02Malformed(c *mon.Ctx, A *signedTok, name string, pk crypto.PublicKey) {
	for _, via := range []string{"decoded", "signing"} {
		c.Eval()
		c.Count("mutants:malformed-key:" + name)
		var verr error
		ran := false
		pn, pv, _ := mon.Guard(func() {
			ev := A.ev
			if via == "decoded" {
				var derr error
				if ev, derr = psatoken.DecodeEvidenceFromCOSE(A.tok); derr != nil {
					return
				}
			}
			verr = ev.Verify(pk)
			ran = true
		})
		switch {
		case pn:
			c.Count("outcome:malformed-key-panicked-below-the-library")
			c.SetAdd("malformed_key_panics", name+": "+trunc(pv, 80))
		case ran && verr == nil:
			c.Violation("C02/verified-under-malformed-key/"+name+"/"+A.key.Name, "Verify returned nil for a key object that cannot be the signer's key ("+name+", "+via+" Evidence)", map[string]any{"token_hex": mon.Hex(A.tok)})
		default:
			c.Count("outcome:verify-rejected")
		}
	}
}

func runC02(c *mon.Ctx) {
	c.Rule("for each of ES256/384/512, EdDSA, PS256/384/512 with fresh keys x valid claims-sets of both profiles and a P2 extension, the token produced by the real ValidateAndSign is (1) accepted unmodified under the signer's key (positive control), then attacked - each mutant once through a fresh DecodeEvidenceFromCOSE and once through ONE REUSED Evidence object that has just decoded and verified the original token - with: every single-bit flip; every truncation; 1-8 trailing bytes; splices of protected/payload/signature between two tokens (same key/other payload, other key, other algorithm); signature := random bytes (same / other length), zeros, empty, signature of another message; 2-8 random byte substitutions, random insertions and deletions; algorithm moved to the unprotected header with a signature that is valid for that layout; empty protected header; protected header without label 1; nil payload with a signature valid over the empty payload; signature := well-formed DER ECDSA signatures (of nothing, of random integers, of another message); signature := the same integers in another octet form (a token is signed until r, s or the RSA integer starts with a zero octet, which is then dropped; zero octets prepended / appended); signature := the same octets rearranged (whole / each half reversed, halves swapped, complemented, bit-reversed, rotated, one half doubled); tokens re-signed by another key that bring their own 'proof' along in the unprotected header (self-issued certificate as x5chain / x5bag, key id) or carry a keyless hash-as-signature with the well-known TF-M short-circuit key id, verified under the signer's key, nil and an empty key list; tokens with foreign payload / random signature / other key whose unprotected header is decorated with content type, key id, IV, CWT claims, countersignature slots or unknown labels (12 variants), and the same content-type parameter inside the protected header with the old signature; B's payload under a protected header that additionally carries a well-formed crit parameter (three variants) with A's / random / constant signatures; an Evidence holding a modified token whose by-value copy then decodes the genuine one; the bare claims-set behind tags 601 / 602 / 61 / 55799 / 24 and untagged; a modified token decoded from a buffer that the caller then overwrites in place with the genuine token before Verify; the payload re-serialised into other bytes of the same meaning (tags in front, non-minimal / indefinite map head, other key order, extra unknown key, bstr-wrapped) with the original protected header and signature; the protected header re-serialised into other bytes of the same meaning (non-minimal label / value / map head, indefinite map, extra label, tag) with the original payload and signature; and verification under every other key (same algorithm, other curve/type, nil, non-key values) and under malformed key objects of the right Go type (empty / short / long Ed25519 key, zero-value and nil ECDSA / RSA keys; a panic below the library is counted, a nil error is a violation). Oracle: decode+Verify may only succeed if the independent reader finds payload, protected-header content and signature byte-identical to the signed token and the key is the signer's (NO-VERDICT, counted), or if the independent stdlib verifier itself finds the signature valid for that content and key; Verify must never succeed without protected alg / payload / signature. KEY SEQUENCES on ONE decoded Evidence: for every wrong key of the matrix - signer's key (must verify), the wrong key (must fail), the same wrong key again (must fail), the signer's key again (must verify). COMPOSITE: a token forged with another key whose claims-set (a registered extension that decodes a sub-attester token inside its own decoder) carries the genuine token must verify under the forger's key only. distinct_nontrivial = distinct (algorithm, profile, mutation class, position bucket) signatures")
	if err := extprof.Register(extprof.ExtP2Name, extprof.ExtSubName); err != nil {
		c.Violation("harness/register", err.Error(), nil)
		return
	}
	g := model.NewGen(c.Seed*3571 + int64(c.Shard))
	// one "token job" = one (algorithm, claims-set); jobs are dealt to shards.
	jobs := 28
	if !c.Quick() {
		jobs = 7 * 48
	}
	for job := 0; job < jobs; job++ {
		// every shard draws the same random stream position per job so that
		// the job list is deterministic; only the owner executes it.
		if !c.Mine(job) {
			continue
		}
		alg := keys.AlgNames[job%7]
		k := keys.New(alg, 0)
		k2 := keys.New(alg, 1) // other key, same algorithm
		vcA, okA := genSignable(c, g)
		vcB, okB := genSignable(c, g)
		if !okA || !okB {
			continue
		}
		A, errA := signWith(vcA.x, vcA.a, k, true)
		B, errB := signWith(vcB.x, vcB.a, k, true)  // same key, other payload
		C, errC := signWith(vcA.x, vcA.a, k2, true) // other key, same payload
		altAlg := keys.AlgNames[(job+1+g.R.Intn(6))%7]
		k3 := keys.New(altAlg, 2)
		D, errD := signWith(vcB.x, vcB.a, k3, true) // other algorithm
		if errA != nil || errB != nil || errC != nil || errD != nil {
			c.Violation("C02/sign-failed/"+alg, fmt.Sprintf("could not sign valid claims: %v %v %v %v", errA, errB, errC, errD), nil)
			continue
		}
		if bytes.Equal(A.env.Payload, B.env.Payload) {
			continue // astronomically unlikely (random ids)
		}
		base := alg + "|" + profName(vcA.a)
		// (1) positive control
		if _, dec, ver, derr, verr := libAccepts(A.tok, k.Pub); !dec || !ver {
			c.Violation("C02/control-rejected/"+alg, fmt.Sprintf("the unmodified token does not decode+verify under the signer's key: %v %v", derr, verr), map[string]any{"token_hex": mon.Hex(A.tok)})
			continue
		}
		c.Count("control-accepted:" + alg)
		c02reuse = &c02Reuse{ev: &psatoken.Evidence{}, prime: A.tok, pk: k.Pub}
		if job < 7 {
			c.Sample("token:"+alg, map[string]any{"alg": alg, "profile": profName(vcA.a), "token_len": len(A.tok), "payload_len": len(A.env.Payload), "signature_len": len(A.env.Signature)})
		}
		n := len(A.tok)
		region := func(off int) string {
			// where in the token does the byte lie (by the encoder's layout)
			sigStart := n - len(A.env.Signature)
			payStart := sigStart - len(A.env.Payload)
			switch {
			case off >= sigStart:
				return "signature"
			case off >= payStart && off < payStart+len(A.env.Payload):
				return "payload"
			case off < 2+1+len(A.env.ProtectedBS):
				return "head+protected"
			}
			return "headers/lengths"
		}
		// (2) every single-bit flip
		for off := 0; off < n; off++ {
			for bit := 0; bit < 8; bit++ {
				m := append([]byte{}, A.tok...)
				m[off] ^= 1 << bit
				c02Judge(c, "bitflip", A, m, k.Pub, true, map[string]any{"offset": off, "bit": bit})
			}
			c.Sig(fmt.Sprintf("%s|bitflip|%s|%d", base, region(off), off*16/n))
		}
		c.Count("tokens-fully-bitflipped")
		// (3) every truncation, trailing bytes
		for l := 0; l < n; l++ {
			c02Judge(c, "truncation", A, A.tok[:l], k.Pub, true, map[string]any{"length": l})
		}
		c.Sig(base + "|truncation")
		for l := 1; l <= 8; l++ {
			c02Judge(c, "trailing", A, append(append([]byte{}, A.tok...), g.Bytes(l)...), k.Pub, true, nil)
		}
		// (4) splices
		type part struct {
			name string
			t    *signedTok
		}
		srcs := []part{{"A", A}, {"B-samekey-otherpayload", B}, {"C-otherkey-samepayload", C}, {"D-otheralg", D}}
		for _, p := range srcs {
			for _, q := range srcs {
				for _, r := range srcs {
					if p.t == q.t && q.t == r.t {
						continue
					}
					m := sign1Bytes(p.t.env.ProtectedBS, nil, q.t.env.Payload, r.t.env.Signature)
					for _, vk := range []struct {
						pk   crypto.PublicKey
						mine bool
					}{{k.Pub, true}, {k2.Pub, false}, {k3.Pub, false}} {
						// "mine" is relative to token A: for the oracle the reference token is A.
						c02Judge(c, "splice", A, m, vk.pk, vk.mine, map[string]any{"protected_of": p.name, "payload_of": q.name, "signature_of": r.name})
					}
					c.Sig(fmt.Sprintf("%s|splice|%s|%s|%s", base, p.name, q.name, r.name))
				}
			}
		}
		// (5) signature replaced
		sl := len(A.env.Signature)
		for _, sg := range [][]byte{g.Bytes(sl), g.Bytes(sl - 1), g.Bytes(sl + 1), g.Bytes(1), make([]byte, sl), bytes.Repeat([]byte{0xff}, sl), {}, B.env.Signature} {
			c02Judge(c, "signature-replaced", A, sign1Bytes(A.env.ProtectedBS, nil, A.env.Payload, sg), k.Pub, true, nil)
		}
		c.Sig(base + "|signature-replaced")
		// (6) random multi-byte edits
		reps := 300
		if !c.Quick() {
			reps = 1500
		}
		for r := 0; r < reps; r++ {
			m := append([]byte{}, A.tok...)
			kind := g.R.Intn(3)
			switch kind {
			case 0:
				for e := 2 + g.R.Intn(7); e > 0; e-- {
					m[g.R.Intn(len(m))] = byte(g.R.Intn(256))
				}
			case 1:
				at := g.R.Intn(len(m) + 1)
				m = append(m[:at], append(g.Bytes(1+g.R.Intn(4)), m[at:]...)...)
			default:
				at := g.R.Intn(len(m))
				end := at + 1 + g.R.Intn(4)
				if end > len(m) {
					end = len(m)
				}
				m = append(m[:at], m[end:]...)
			}
			if bytes.Equal(m, A.tok) {
				continue
			}
			c02Judge(c, [...]string{"multi-substitution", "insertion", "deletion"}[kind], A, m, k.Pub, true, nil)
		}
		c.Sig(base + "|random-edits")
		// (5b) well-formed DER ECDSA signatures where the raw r||s form is required
		der := func(r, s []byte) []byte {
			enc := func(b []byte) []byte {
				for len(b) > 1 && b[0] == 0 {
					b = b[1:]
				}
				if len(b) == 0 {
					b = []byte{0}
				}
				if b[0]&0x80 != 0 {
					b = append([]byte{0}, b...)
				}
				return append([]byte{0x02, byte(len(b))}, b...)
			}
			body := append(enc(r), enc(s)...)
			if len(body) < 128 {
				return append([]byte{0x30, byte(len(body))}, body...)
			}
			return append([]byte{0x30, 0x81, byte(len(body))}, body...)
		}
		half := len(B.env.Signature) / 2
		for di, sg := range [][]byte{der([]byte{1}, []byte{1}), der(g.Bytes(32), g.Bytes(32)), der(B.env.Signature[:half], B.env.Signature[half:]), der(g.Bytes(20), g.Bytes(21)), {0x30, 0x00}, {0x30, 0x06, 0x02, 0x01, 0x01, 0x02, 0x01, 0x01}} {
			c02Judge(c, "signature-replaced:der", A, sign1Bytes(A.env.ProtectedBS, nil, A.env.Payload, sg), k.Pub, true, map[string]any{"variant": di})
		}
		c.Sig(base + "|signature-der")
		// (5d) signatures of the same NUMERIC value in another octet-string
		// form: sign until an integer of the signature starts with a zero
		// octet (ECDSA r or s, the RSA integer), then drop that octet / pad
		// with further zero octets. COSE fixes the length; a verifier that
		// re-pads or parses integers leniently accepts these.
		{
			half := len(A.env.Signature) / 2
			isEC := strings.HasPrefix(alg, "ES")
			lead := func(sg []byte) bool { return sg[0] == 0 || (isEC && sg[half] == 0) }
			Z := A
			for tries := 0; !lead(Z.env.Signature) && tries < 300 && alg != "EdDSA"; tries++ {
				if z, err := signWith(vcA.x, vcA.a, k, false); err == nil && z.env != nil {
					Z = z
				}
			}
			sg := Z.env.Signature
			var variants [][]byte
			if lead(sg) {
				c.Count("leading-zero-signatures:" + alg)
				if sg[0] == 0 {
					variants = append(variants, sg[1:])
				}
				if isEC && sg[half] == 0 {
					variants = append(variants, append(append([]byte{}, sg[:half]...), sg[half+1:]...))
				}
				if isEC && sg[0] == 0 && sg[half] == 0 {
					variants = append(variants, append(append([]byte{}, sg[1:half]...), sg[half+1:]...))
				}
			}
			variants = append(variants, append([]byte{0}, sg...), append(append([]byte{}, sg...), 0))
			if isEC {
				both := append([]byte{0}, sg[:half]...)
				both = append(both, 0)
				both = append(both, sg[half:]...)
				variants = append(variants, both)
			}
			for vi, v := range variants {
				c02Judge(c, "signature-renumbered", Z, sign1Bytes(Z.env.ProtectedBS, nil, Z.env.Payload, v), k.Pub, true, map[string]any{"variant": vi, "signature_len": len(sg), "mutant_signature_len": len(v)})
			}
			c.Sig(base + "|signature-renumbered")
		}
		// (5e) the signature octets in another ARRANGEMENT (a verifier that
		// retries with another byte order / layout accepts these)
		{
			sg := A.env.Signature
			half := len(sg) / 2
			rev := func(b []byte) []byte {
				o := make([]byte, len(b))
				for i := range b {
					o[len(b)-1-i] = b[i]
				}
				return o
			}
			cat := func(x, y []byte) []byte { return append(append([]byte{}, x...), y...) }
			compl := make([]byte, len(sg))
			bitrev := make([]byte, len(sg))
			for i, b := range sg {
				compl[i] = ^b
				var r byte
				for k := 0; k < 8; k++ {
					r |= (b >> uint(k) & 1) << uint(7-k)
				}
				bitrev[i] = r
			}
			rot := cat(sg[1:], sg[:1])
			for vi, v := range [][]byte{rev(sg), cat(rev(sg[:half]), rev(sg[half:])), cat(sg[half:], sg[:half]), cat(rev(sg[half:]), rev(sg[:half])), compl, bitrev, rot, cat(sg[:half], sg[:half]), cat(sg[half:], sg[half:])} {
				if bytes.Equal(v, sg) {
					continue
				}
				c02Judge(c, "signature-rearranged", A, sign1Bytes(A.env.ProtectedBS, nil, A.env.Payload, v), k.Pub, true, map[string]any{"variant": vi})
			}
			c.Sig(base + "|signature-rearranged")
		}
		// (5f) tokens re-signed by SOMEBODY ELSE that carry their own "proof" in the
		// unprotected header - a self-issued certificate (x5chain), a key id - and
		// keyless test signatures (hash of the to-be-signed bytes repeated, with the
		// well-known TF-M short-circuit key id): the verifier's key argument decides,
		// nothing the token brings along
		{
			sigLen := len(A.env.Signature)
			tbs := refcose.SigStructure(A.env.ProtectedBS, B.env.Payload)
			var h []byte
			switch alg {
			case "ES256", "PS256":
				d := sha256.Sum256(tbs)
				h = d[:]
			case "ES384", "PS384":
				d := sha512.Sum384(tbs)
				h = d[:]
			default:
				d := sha512.Sum512(tbs)
				h = d[:]
			}
			short := bytes.Repeat(h, sigLen/len(h)+1)[:sigLen]
			tfmKid, _ := hex.DecodeString("ef954b4bd9bdf670d0336082f5ef152af8f35b6a6c00efa6a9a71f49517e18c6")
			cert := selfSignedCert(k2)
			type inband struct {
				name string
				tok  []byte
			}
			var toks []inband
			kidHdr := func(kid []byte) *refcbor.Node { return refcbor.MapOf(refcbor.I(4), refcbor.Bstr(kid)) }
			toks = append(toks,
				inband{"keyless-hash-signature+tfm-kid", sign1Bytes(A.env.ProtectedBS, kidHdr(tfmKid), B.env.Payload, short)},
				inband{"keyless-hash-signature", sign1Bytes(A.env.ProtectedBS, nil, B.env.Payload, short)},
				inband{"keyless-hash-signature+tfm-kid-protected", func() []byte {
					prot := refcbor.Encode(refcbor.MapOf(refcbor.I(1), refcbor.I(coseAlgID[alg]), refcbor.I(4), refcbor.Bstr(tfmKid)))
					t2 := refcose.SigStructure(prot, B.env.Payload)
					d := sha256.Sum256(t2)
					return sign1Bytes(prot, nil, B.env.Payload, bytes.Repeat(d[:], sigLen/32+1)[:sigLen])
				}()},
				inband{"resigned-by-other-key+kid", sign1Bytes(C.env.ProtectedBS, kidHdr(g.Bytes(32)), C.env.Payload, C.env.Signature)},
			)
			if cert != nil {
				toks = append(toks,
					inband{"resigned-by-other-key+x5chain", sign1Bytes(C.env.ProtectedBS, refcbor.MapOf(refcbor.I(33), refcbor.Bstr(cert)), C.env.Payload, C.env.Signature)},
					inband{"resigned-by-other-key+x5chain-array", sign1Bytes(C.env.ProtectedBS, refcbor.MapOf(refcbor.I(33), refcbor.Arr(refcbor.Bstr(cert))), C.env.Payload, C.env.Signature)},
					inband{"resigned-by-other-key+x5bag+x5t", sign1Bytes(C.env.ProtectedBS, refcbor.MapOf(refcbor.I(32), refcbor.Bstr(cert), refcbor.I(34), refcbor.Arr(refcbor.I(-16), refcbor.Bstr(g.Bytes(32)))), C.env.Payload, C.env.Signature)},
				)
				c.Count("in-band-certificates-built")
			}
			for _, t := range toks {
				for ki, pk := range []crypto.PublicKey{k.Pub, nil, []crypto.PublicKey{}} {
					c02Judge(c, "in-band-proof:"+t.name+":"+[]string{"signers-key", "nil-key", "empty-key-list"}[ki], A, t.tok, pk, ki == 0, nil)
				}
			}
			c.Sig(base + "|in-band-proof")
		}
		// (5g) protected headers that additionally carry a well-formed `crit`
		// parameter listing parameters every implementation understands: the token
		// is otherwise B's payload under A's (now foreign) signature / random bytes
		{
			algv := refcbor.I(coseAlgID[alg])
			for ci, prot := range []*refcbor.Node{
				refcbor.MapOf(refcbor.I(1), algv, refcbor.I(2), refcbor.Arr(refcbor.I(1))),
				refcbor.MapOf(refcbor.I(1), algv, refcbor.I(2), refcbor.Arr(refcbor.I(1), refcbor.I(3)), refcbor.I(3), refcbor.Tstr("application/eat-cwt")),
				refcbor.MapOf(refcbor.I(1), algv, refcbor.I(2), refcbor.Arr(refcbor.I(4)), refcbor.I(4), refcbor.Bstr([]byte("kid"))),
			} {
				pb := refcbor.Encode(prot)
				for si, sg := range [][]byte{A.env.Signature, g.Bytes(len(A.env.Signature)), bytes.Repeat([]byte{0xa5}, len(A.env.Signature))} {
					c02Judge(c, "crit-header", A, sign1Bytes(pb, nil, B.env.Payload, sg), k.Pub, true, map[string]any{"crit_variant": ci, "signature_variant": si})
				}
				// control: the same header properly signed must verify (the judge sees an
				// independently valid signature and gives no verdict)
				if sg, err := k.Signer.Sign(rand.Reader, refcose.SigStructure(pb, A.env.Payload)); err == nil {
					if _, dec, ver, _, _ := libAccepts(sign1Bytes(pb, nil, A.env.Payload, sg), k.Pub); dec && ver {
						c.Count("crit-header-controls-accepted")
					} else {
						c.Count("crit-header-controls-refused")
					}
				}
			}
			c.Sig(base + "|crit-header")
		}
		// (5i) decorations of the UNPROTECTED header (not covered by the signature)
		// and further protected parameters, on tokens whose payload / signature
		// is not the signer's: content type, key ids, IVs, CWT claims, countersignature
		// slots, unknown labels - nothing there can vouch for the content
		{
			ct := []*refcbor.Node{refcbor.Tstr("application/eat+cwt"), refcbor.Tstr("application/eat-cwt"), refcbor.U(61), refcbor.U(263), refcbor.Tstr("application/cwt")}
			var hdrs []*refcbor.Node
			for _, v := range ct {
				hdrs = append(hdrs, refcbor.MapOf(refcbor.I(3), v))
			}
			hdrs = append(hdrs,
				refcbor.MapOf(refcbor.I(4), refcbor.Bstr([]byte("key-1")), refcbor.I(3), ct[0]),
				refcbor.MapOf(refcbor.I(5), refcbor.Bstr(g.Bytes(12))),
				refcbor.MapOf(refcbor.I(15), refcbor.MapOf(refcbor.I(1), refcbor.Tstr("issuer"), refcbor.I(265), refcbor.Tstr(model.P2Name))),
				refcbor.MapOf(refcbor.I(7), refcbor.Arr(refcbor.Bstr(nil), refcbor.MapOf(), refcbor.Bstr(g.Bytes(64)))),
				refcbor.MapOf(refcbor.I(11), refcbor.Arr(refcbor.Bstr(nil), refcbor.MapOf(), refcbor.Bstr(g.Bytes(64)))),
				refcbor.MapOf(refcbor.I(16), refcbor.Tstr("application/eat+cwt")),
				refcbor.MapOf(refcbor.Tstr("verified"), refcbor.Bool(true), refcbor.I(-65537), refcbor.U(1)),
			)
			for hi, hd := range hdrs {
				c02Judge(c, "unprotected-decoration:other-payload", A, sign1Bytes(A.env.ProtectedBS, hd, B.env.Payload, A.env.Signature), k.Pub, true, map[string]any{"header_variant": hi})
				c02Judge(c, "unprotected-decoration:random-signature", A, sign1Bytes(A.env.ProtectedBS, hd, A.env.Payload, g.Bytes(len(A.env.Signature))), k.Pub, true, map[string]any{"header_variant": hi})
				c02Judge(c, "unprotected-decoration:other-key", A, sign1Bytes(C.env.ProtectedBS, hd, C.env.Payload, C.env.Signature), k.Pub, true, map[string]any{"header_variant": hi})
			}
			// the same parameters INSIDE the protected header (then covered, so the
			// old signature no longer fits)
			for hi, v := range ct {
				pb := refcbor.Encode(refcbor.MapOf(refcbor.I(1), refcbor.I(coseAlgID[alg]), refcbor.I(3), v))
				c02Judge(c, "protected-decoration:original-signature", A, sign1Bytes(pb, nil, A.env.Payload, A.env.Signature), k.Pub, true, map[string]any{"header_variant": hi})
			}
			c.Sig(base + "|header-decorations")
		}
		// (5j) a by-value COPY of an Evidence is another Evidence: decoding the genuine
		// token through the copy must not make the original (holding a tampered one) verify
		{
			m := append([]byte{}, A.tok...)
			if off := bytes.Index(m, A.env.Payload); off >= 0 && len(A.env.Payload) > 8 {
				m[off+len(A.env.Payload)/2] ^= 0x01
				suspect := &psatoken.Evidence{}
				c.Eval()
				c.Count("mutants:struct-copied-evidence")
				if suspect.UnmarshalCOSE(m) == nil {
					work := *suspect //nolint:govet
					_ = work.UnmarshalCOSE(append([]byte{}, A.tok...))
					if suspect.Verify(k.Pub) == nil {
						c.Violation("C02/tampered-verified/struct-copied-evidence/"+alg, "an Evidence holding a modified token verifies after a by-value copy of it decoded the genuine token", map[string]any{"mutant_hex": mon.Hex(m)})
					} else {
						c.Count("outcome:verify-rejected")
					}
				}
			}
			// the bare (unsigned) claims-set behind the tags EAT defines for unprotected claims
			// sets and a few others: whatever the decoder makes of it, nothing verifies
			for _, tg := range []uint64{601, 602, 61, 55799, 24} {
				tok := refcbor.Encode(refcbor.Tagged(tg, refcbor.Raw(B.env.Payload)))
				c02Judge(c, fmt.Sprintf("bare-claims-behind-tag-%d", tg), A, tok, k.Pub, true, nil)
				c02Judge(c, fmt.Sprintf("bare-claims-behind-tag-%d:nil-key", tg), A, tok, nil, false, nil)
			}
			c02Judge(c, "bare-claims", A, B.env.Payload, k.Pub, true, nil)
			c.Sig(base + "|copies-and-bare-claims")
		}
		// (5h) the caller's buffer is the caller's: a modified token is decoded from
		// a buffer which is then overwritten, in place, with the genuine token
		// before Verify is called - what was decoded must be what is verified
		{
			m := append([]byte{}, A.tok...)
			// flip one bit inside the payload (same length)
			if off := bytes.Index(m, A.env.Payload); off >= 0 && len(A.env.Payload) > 8 {
				m[off+len(A.env.Payload)/2] ^= 0x01
				buf := append([]byte{}, m...)
				ev := &psatoken.Evidence{}
				c.Eval()
				c.Count("mutants:buffer-swapped-after-decode")
				if derr := ev.UnmarshalCOSE(buf); derr == nil {
					copy(buf, A.tok)
					if verr := ev.Verify(k.Pub); verr == nil {
						c.Violation("C02/tampered-verified/buffer-swapped-after-decode/"+alg, "a modified token was decoded, the caller then reused the buffer for the genuine token, and Verify on the Evidence holding the MODIFIED claims returned nil", map[string]any{"mutant_hex": mon.Hex(m), "original_hex": mon.Hex(A.tok)})
					} else {
						c.Count("outcome:verify-rejected")
					}
				} else {
					c.Count("outcome:decode-rejected")
				}
			}
			c.Sig(base + "|buffer-swapped")
		}
		// (5c) the PAYLOAD re-serialised into other bytes (tags in front, non-minimal
		// map head, indefinite map, other key order, an extra unknown key), original
		// protected header and signature: the signature covers the original bytes
		if pm, perr := refcbor.DecodeAll(A.env.Payload); perr == nil && pm.K == refcbor.Map && len(pm.Items) >= 4 {
			rev := refcbor.MapOf()
			for q := len(pm.Items) - 2; q >= 0; q -= 2 {
				rev.Items = append(rev.Items, pm.Items[q], pm.Items[q+1])
			}
			extra := refcbor.MapOf(append(append([]*refcbor.Node{}, pm.Items...), refcbor.I(7777), refcbor.U(1))...)
			pays := []struct {
				name string
				b    []byte
			}{
				{"tag-61-prefix", append([]byte{0xd8, 0x3d}, A.env.Payload...)},
				{"tag-1-prefix", append([]byte{0xc1}, A.env.Payload...)},
				{"self-described-prefix", append([]byte{0xd9, 0xd9, 0xf7}, A.env.Payload...)},
				{"two-tags-prefix", append([]byte{0xc1, 0xd8, 0x3d}, A.env.Payload...)},
				{"map-head-non-minimal", refcbor.Encode(pm.WithArgW(2))},
				{"map-indefinite", refcbor.Encode(pm.AsIndef())},
				{"key-order-reversed", refcbor.Encode(rev)},
				{"extra-unknown-key", refcbor.Encode(extra)},
				{"bstr-wrapped", refcbor.Encode(refcbor.Bstr(A.env.Payload))},
			}
			for _, pv := range pays {
				c02Judge(c, "payload-reserialised:"+pv.name, A, sign1Bytes(A.env.ProtectedBS, nil, pv.b, A.env.Signature), k.Pub, true, nil)
				c.Sig(base + "|payload-reserialised|" + pv.name)
			}
		}
		// (7) envelopes whose signature is *valid for the wrong layout*: a
		// verifier that looked in the wrong place would accept them.
		signOver := func(protectedBS, payload []byte) []byte {
			s, err := k.Signer.Sign(rand.Reader, refcose.SigStructure(protectedBS, payload))
			if err != nil {
				return g.Bytes(sl)
			}
			return s
		}
		algNode := refcbor.I(coseAlgID[alg])
		unprotAlg := refcbor.MapOf(refcbor.I(1), algNode)
		pay := A.env.Payload
		layouts := []struct {
			name string
			tok  []byte
		}{
			{"alg-only-unprotected/empty-protected-bstr", sign1Bytes(nil, unprotAlg, pay, signOver(nil, pay))},
			{"alg-only-unprotected/protected-empty-map", sign1Bytes([]byte{0xa0}, unprotAlg, pay, signOver([]byte{0xa0}, pay))},
			{"alg-only-unprotected/protected-other-label", sign1Bytes(refcbor.Encode(refcbor.MapOf(refcbor.I(4), refcbor.Bstr([]byte("kid")))), unprotAlg, pay,
				signOver(refcbor.Encode(refcbor.MapOf(refcbor.I(4), refcbor.Bstr([]byte("kid")))), pay))},
			{"no-alg-anywhere", sign1Bytes(nil, nil, pay, signOver(nil, pay))},
			{"nil-payload/signed-over-empty", envelopeBytes(18, refcbor.Bstr(A.env.ProtectedBS), refcbor.MapOf(), refcbor.Null(), refcbor.Bstr(signOver(A.env.ProtectedBS, nil)))},
			{"empty-payload/signed-over-empty", sign1Bytes(A.env.ProtectedBS, nil, nil, signOver(A.env.ProtectedBS, nil))},
			{"nil-payload/original-signature", envelopeBytes(18, refcbor.Bstr(A.env.ProtectedBS), refcbor.MapOf(), refcbor.Null(), refcbor.Bstr(A.env.Signature))},
			{"undefined-payload/original-signature", envelopeBytes(18, refcbor.Bstr(A.env.ProtectedBS), refcbor.MapOf(), refcbor.Undef(), refcbor.Bstr(A.env.Signature))},
			{"empty-payload/original-signature", sign1Bytes(A.env.ProtectedBS, nil, nil, A.env.Signature)},
			{"empty-signature", sign1Bytes(A.env.ProtectedBS, nil, pay, nil)},
			{"null-signature", envelopeBytes(18, refcbor.Bstr(A.env.ProtectedBS), refcbor.MapOf(), refcbor.Bstr(pay), refcbor.Null())},
			{"alg-as-text-in-protected", sign1Bytes(refcbor.Encode(refcbor.MapOf(refcbor.I(1), refcbor.Tstr(alg))), nil, pay, signOver(refcbor.Encode(refcbor.MapOf(refcbor.I(1), refcbor.Tstr(alg))), pay))},
		}
		for _, l := range layouts {
			c02Judge(c, "layout:"+l.name, nil, l.tok, k.Pub, true, nil)
			c.Sig(base + "|layout|" + l.name)
		}
		// (7b) the protected header re-serialised into OTHER BYTES with the same
		// meaning, original payload and signature: the signature covers the
		// original bytes, so this must not verify
		algv := coseAlgID[alg]
		reser := []struct {
			name string
			prot []byte
		}{
			{"alg-value-non-minimal-1", refcbor.Encode(refcbor.MapOf(refcbor.I(1), refcbor.I(algv).WithArgW(1)))},
			{"alg-value-non-minimal-2", refcbor.Encode(refcbor.MapOf(refcbor.I(1), refcbor.I(algv).WithArgW(2)))},
			{"alg-value-non-minimal-8", refcbor.Encode(refcbor.MapOf(refcbor.I(1), refcbor.I(algv).WithArgW(8)))},
			{"label-non-minimal", refcbor.Encode(refcbor.MapOf(refcbor.I(1).WithArgW(1), refcbor.I(algv)))},
			{"map-head-non-minimal", refcbor.Encode(refcbor.MapOf(refcbor.I(1), refcbor.I(algv)).WithArgW(1))},
			{"map-indefinite", refcbor.Encode(refcbor.MapOf(refcbor.I(1), refcbor.I(algv)).AsIndef())},
			{"extra-label", refcbor.Encode(refcbor.MapOf(refcbor.I(1), refcbor.I(algv), refcbor.I(4), refcbor.Bstr([]byte("k"))))},
			{"tagged-map", refcbor.Encode(refcbor.Tagged(55799, refcbor.MapOf(refcbor.I(1), refcbor.I(algv))))},
			{"trailing-byte-inside-bstr", append(append([]byte{}, A.env.ProtectedBS...), 0x00)},
		}
		for _, r := range reser {
			if bytes.Equal(r.prot, A.env.ProtectedBS) {
				continue
			}
			c02Judge(c, "protected-reserialised:"+r.name, A, sign1Bytes(r.prot, nil, A.env.Payload, A.env.Signature), k.Pub, true, map[string]any{"protected_hex": mon.Hex(r.prot)})
			c.Sig(base + "|protected-reserialised|" + r.name)
		}
		// (7b) composite attestation: a FORGED outer token (signed by another key) whose
		// claims-set carries the GENUINE token in a sub-attester claim; the claims type of
		// that registered extension decodes the inner token while the outer decode is
		// still in progress (seeded fault C02-v: a package-level staging envelope). The
		// outer Evidence must verify under the forger's key only.
		if a2 := g.Valid(2); true {
			a2.Canon, a2.Profile = extprof.ExtSubName, model.SP(extprof.ExtSubName)
			outer := extprof.ExtSubProfile{}.GetClaims().(*extprof.ExtSubClaims)
			if err := obs.SetterApply(outer, a2); err == nil {
				inner := append([]byte{}, A.tok...)
				outer.Sub = &inner
				if forged, serr := (&psatoken.Evidence{Claims: outer}).Sign(k2.Signer); serr == nil {
					ev, derr := psatoken.DecodeEvidenceFromCOSE(forged)
					c.Eval()
					c.Count("composite-forgeries")
					if derr != nil {
						c.Violation("C02/harness/composite-token-undecodable", "the composite token does not decode: "+derr.Error(), map[string]any{"alg": alg})
					} else {
						if ev.Verify(k.Pub) == nil {
							c.Violation("C02/different-key-verified/composite-outer-token/"+alg, "a token signed by another key, carrying the genuine token in a sub-attester claim, verifies under the GENUINE signer's key", map[string]any{"alg": alg, "forged_hex": mon.Hex(forged)})
						}
						if verr := ev.Verify(k2.Pub); verr != nil {
							c.Violation("C02/control-rejected/composite-outer-token", "the composite token does not verify under the key that signed it: "+verr.Error(), map[string]any{"alg": alg})
						}
						if sc, ok := ev.Claims.(*extprof.ExtSubClaims); !ok || sc.SubEvidence == nil || sc.SubEvidence.Verify(k.Pub) != nil {
							c.Violation("C02/control-rejected/composite-inner-token", "the genuine inner token does not verify under its signer's key", map[string]any{"alg": alg})
						}
					}
				}
			}
			c.Sig(base + "|composite")
		}
		// (8) wrong-key matrix on the unmodified token
		var others []struct {
			name string
			pk   crypto.PublicKey
		}
		for _, an := range keys.AlgNames {
			ko := keys.New(an, 1+g.R.Intn(2))
			if an == alg || (len(an) == 5 && an[:2] == "PS" && alg[:2] == "PS") {
				ko = k2
			}
			others = append(others, struct {
				name string
				pk   crypto.PublicKey
			}{"other-" + an + "-key", ko.Pub})
		}
		for _, cv := range []struct {
			name string
			pk   crypto.PublicKey
		}{{"empty-key-slice", []crypto.PublicKey{}}, {"nil-key-slice", []crypto.PublicKey(nil)}, {"slice-of-other-key", []crypto.PublicKey{k2.Pub}}, {"slice-of-nil", []crypto.PublicKey{nil}},
			{"slice-of-wrong-type-keys", []crypto.PublicKey{k3.Pub, "x"}}, {"empty-any-slice", []any{}}, {"empty-map", map[string]crypto.PublicKey{}}, {"empty-struct", struct{}{}},
			{"pointer-to-key-interface", &k2.Pub}, {"nil-int-pointer", (*int)(nil)}, {"func", func() {}}, {"private-key-of-other", k2.Priv}} {
			others = append(others, struct {
				name string
				pk   crypto.PublicKey
			}{cv.name, cv.pk})
		}
		others = append(others, struct {
			name string
			pk   crypto.PublicKey
		}{"nil", nil}, struct {
			name string
			pk   crypto.PublicKey
		}{"string", "not a key"}, struct {
			name string
			pk   crypto.PublicKey
		}{"int", 42}, struct {
			name string
			pk   crypto.PublicKey
		}{"byte-slice", []byte{1, 2, 3}})
		for _, o := range others {
			c02Judge(c, "wrong-key:"+o.name, A, A.tok, o.pk, false, nil)
			c.Sig(base + "|wrong-key|" + o.name)
		}
		// (8b) the same keys in SEQUENCE on ONE decoded Evidence (seeded faults C02-u /
		// C03-u: a verifier remembered between Verify calls): signer's key, a wrong
		// key, the same wrong key again, the signer's key again - every answer must be
		// the one a fresh Evidence gives
		if ev, derr := psatoken.DecodeEvidenceFromCOSE(A.tok); derr == nil {
			step := func(name string, pk crypto.PublicKey, wantOK bool, pos string) bool {
				var verr error
				if pn, _, _ := mon.Guard(func() { verr = ev.Verify(pk) }); pn {
					c.Count("key-sequence:panic-below-library")
					return true
				}
				c.Eval()
				c.Count("key-sequence-verifies")
				if (verr == nil) != wantOK {
					k := "C02/key-sequence/wrong-key-verified/" + pos
					what := fmt.Sprintf("one decoded Evidence, Verify called with several keys in turn: Verify(%s) at position %q returned nil", name, pos)
					if wantOK {
						k = "C02/key-sequence/signers-key-refused/" + pos
						what = fmt.Sprintf("one decoded Evidence, Verify called with several keys in turn: the signer's key is refused (%v) %s", verr, pos)
					}
					c.Violation(k, what, map[string]any{"alg": alg, "key": name, "token_hex": mon.Hex(A.tok)})
					return false
				}
				return true
			}
			for _, o := range others {
				if !(step("signer", k.Pub, true, "before") && step(o.name, o.pk, false, "first-try") && step(o.name, o.pk, false, "retry") && step("signer", k.Pub, true, "after-wrong-key")) {
					break
				}
			}
		}
		// malformed key OBJECTS of the right Go type: whatever happens (error, or a
		// panic inside the standard library, which is counted but is not this
		// property's business), Verify must not return nil
		malformed := []struct {
			name string
			pk   crypto.PublicKey
		}{
			{"ed25519-empty", ed25519.PublicKey{}}, {"ed25519-31-bytes", ed25519.PublicKey(g.Bytes(31))}, {"ed25519-33-bytes", ed25519.PublicKey(g.Bytes(33))}, {"ed25519-nil", ed25519.PublicKey(nil)},
			{"ecdsa-zero-value", &ecdsa.PublicKey{}}, {"ecdsa-curve-only", &ecdsa.PublicKey{Curve: elliptic.P256()}}, {"ecdsa-nil-pointer", (*ecdsa.PublicKey)(nil)},
			{"rsa-zero-value", &rsa.PublicKey{}}, {"rsa-nil-pointer", (*rsa.PublicKey)(nil)}, {"rsa-tiny", &rsa.PublicKey{N: big.NewInt(3233), E: 17}},
		}
		for _, o := range malformed {
			c02Malformed(c, A, o.name, o.pk)
			c.Sig(base + "|malformed-key|" + o.name)
		}
	}
	for _, alg := range keys.AlgNames {
		c.Floor("control-accepted:"+alg, 1)
	}
	c.Floor("tokens-fully-bitflipped", 7)
	c.Floor("mutants:bitflip", 10000)
	c.Floor("mutants:splice", 1000)
	c.Floor("in-band-certificates-built", 5)
	c.Floor("outcome:verify-rejected", 5000)
	c.Floor("outcome:decode-rejected", 1000)
	c.Floor("reused-evidence-mutants", 10000)
}

// selfSignedCert returns a DER certificate the key pair issues to itself
// (nil if the standard library cannot build one for this key type).
func selfSignedCert(k keys.Pair) []byte {
	tmpl := &x509.Certificate{SerialNumber: big.NewInt(1), Subject: pkix.Name{CommonName: "attester"}, NotBefore: time.Unix(0, 0), NotAfter: time.Unix(4102444800, 0), KeyUsage: x509.KeyUsageDigitalSignature}
	der, err := x509.CreateCertificate(rand.Reader, tmpl, tmpl, k.Pub, k.Priv)
	if err != nil {
		return nil
	}
	return der
}
