package props

import (
	"errors"
	"fmt"
	"reflect"
	"strings"

	"github.com/veraison/psatoken"

	"verif/harness/extprof"
	"verif/harness/keys"
	"verif/harness/model"
	"verif/harness/mon"
	"verif/harness/obs"
	"verif/harness/refcbor"
)

func init() { register("C13", runC13) }

// ---- generated error trees for the filter -------------------------------------

type cutErr struct{ msg string } // %v-style: cuts the chain
func (e *cutErr) Error() string  { return e.msg }

type multiErr struct{ kids []error } // custom Unwrap() []error
func (e *multiErr) Error() string    { return fmt.Sprintf("multi(%d)", len(e.kids)) }
func (e *multiErr) Unwrap() []error  { return e.kids }

type isErr struct{ target error } // custom Is
func (e *isErr) Error() string    { return "custom-is" }
func (e *isErr) Is(t error) bool  { return t == e.target }

type foreignErr struct{ n int }

func (e *foreignErr) Error() string { return fmt.Sprintf("foreign-%d", e.n) }

type wrapErr struct{ inner error } // custom single Unwrap
func (e *wrapErr) Error() string   { return "wrap(" + e.inner.Error() + ")" }
func (e *wrapErr) Unwrap() error   { return e.inner }

// error types that are not pointers (seeded fault C13-u: a map[error]... lookup in
// the filter panics on a value whose dynamic type is not hashable)
type listErr []error // "list of problems", unwraps to its entries

func (e listErr) Error() string   { return fmt.Sprintf("list(%d)", len(e)) }
func (e listErr) Unwrap() []error { return e }

type mapErr map[string]error // problems by field, unwraps to its values

func (e mapErr) Error() string { return fmt.Sprintf("map(%d)", len(e)) }
func (e mapErr) Unwrap() []error {
	var l []error
	for _, v := range e {
		l = append(l, v)
	}
	return l
}

type structErr struct { // struct value holding a slice: not comparable either
	ctx   string
	inner []error
}

func (e structErr) Error() string   { return "struct(" + e.ctx + ")" }
func (e structErr) Unwrap() []error { return e.inner }

type strErr string // comparable value type, no Unwrap

func (e strErr) Error() string { return string(e) }

// sameErr is error identity that also works for dynamic types Go cannot compare.
func sameErr(a, b error) bool {
	if a == nil || b == nil {
		return a == nil && b == nil
	}
	ta := reflect.TypeOf(a)
	if ta != reflect.TypeOf(b) {
		return false
	}
	if ta.Comparable() {
		return a == b
	}
	va, vb := reflect.ValueOf(a), reflect.ValueOf(b)
	switch ta.Kind() {
	case reflect.Slice:
		return va.Len() == vb.Len() && (va.Len() == 0 || va.Pointer() == vb.Pointer())
	case reflect.Map:
		return va.Pointer() == vb.Pointer()
	}
	return fmt.Sprintf("%#v", a) == fmt.Sprintf("%#v", b)
}

type leaf struct {
	name       string
	err        error
	filterable bool // ground truth: belongs to missing-optional / not-in-profile
}

func filterLeaves() []leaf {
	return []leaf{
		{"ErrMissingOptional", psatoken.ErrMissingOptional, true},
		{"ErrNotInProfile", psatoken.ErrNotInProfile, true},
		{"ErrOptionalClaimMissing", psatoken.ErrOptionalClaimMissing, true},
		{"ErrOptionalFieldMissing", psatoken.ErrOptionalFieldMissing, true},
		{"ErrClaimNotInProfile", psatoken.ErrClaimNotInProfile, true},
		{"ErrFieldNotInProfile", psatoken.ErrFieldNotInProfile, true},
		{"ErrMissingMandatory", psatoken.ErrMissingMandatory, false},
		{"ErrMandatoryClaimMissing", psatoken.ErrMandatoryClaimMissing, false},
		{"ErrMandatoryFieldMissing", psatoken.ErrMandatoryFieldMissing, false},
		{"ErrWrongProfile", psatoken.ErrWrongProfile, false},
		{"ErrWrongSyntax", psatoken.ErrWrongSyntax, false},
		{"foreign", &foreignErr{1}, false},
		{"same-text", errors.New("missing optional"), false}, // same text, different identity
		{"same-text2", errors.New("not in profile"), false},
	}
}

// genTree builds a random error tree and returns it with its description and
// the ground truth "a filterable sentinel is reachable through Unwrap/Is".
func genTree(g *model.Gen, leaves []leaf, depth int) (error, string, bool) {
	k := g.R.Intn(11)
	if depth >= 4 {
		k = 0
	}
	switch k {
	case 9:
		// non-pointer containers: slice / map / struct-with-slice values
		n := g.R.Intn(3)
		var es []error
		var ds []string
		f := false
		for i := 0; i < n; i++ {
			e, d, fi := genTree(g, leaves, depth+1)
			es = append(es, e)
			ds = append(ds, d)
			f = f || fi
		}
		switch g.R.Intn(3) {
		case 0:
			return listErr(es), "list(" + strings.Join(ds, ",") + ")", f
		case 1:
			m := mapErr{}
			for i, e := range es {
				m[fmt.Sprintf("f%d", i)] = e
			}
			return m, "map(" + strings.Join(ds, ",") + ")", f
		}
		return structErr{"s", es}, "struct(" + strings.Join(ds, ",") + ")", f
	case 10:
		return strErr([]string{"missing optional", "not in profile", "x"}[g.R.Intn(3)]), "str-value", false
	case 0, 1:
		l := leaves[g.R.Intn(len(leaves))]
		return l.err, l.name, l.filterable
	case 2, 3:
		e, d, f := genTree(g, leaves, depth+1)
		return fmt.Errorf("ctx %d: %w", depth, e), "%w(" + d + ")", f
	case 4:
		e, d, _ := genTree(g, leaves, depth+1)
		return &cutErr{fmt.Sprintf("cut: %v", e)}, "%v(" + d + ")", false
	case 5:
		n := 1 + g.R.Intn(3)
		var es []error
		var ds []string
		f := false
		for i := 0; i < n; i++ {
			e, d, fi := genTree(g, leaves, depth+1)
			es = append(es, e)
			ds = append(ds, d)
			f = f || fi
		}
		return errors.Join(es...), "join(" + strings.Join(ds, ",") + ")", f
	case 6:
		n := 1 + g.R.Intn(3)
		var es []error
		var ds []string
		f := false
		for i := 0; i < n; i++ {
			e, d, fi := genTree(g, leaves, depth+1)
			es = append(es, e)
			ds = append(ds, d)
			f = f || fi
		}
		return &multiErr{es}, "multi(" + strings.Join(ds, ",") + ")", f
	case 7:
		l := leaves[g.R.Intn(len(leaves))]
		// custom Is matches exactly the target (identity); filterable only
		// if the target is one of the two base sentinels the filter asks for
		f := l.err == psatoken.ErrMissingOptional || l.err == psatoken.ErrNotInProfile
		return &isErr{l.err}, "is(" + l.name + ")", f
	default:
		e, d, f := genTree(g, leaves, depth+1)
		return &wrapErr{e}, "unwrap(" + d + ")", f
	}
}

// c13Signer is a working signer for the validating sign gate (never reached
// for an invalid set).
var c13Signer = keys.New("ES256", 0).Signer

func runC13(c *mon.Ctx) {
	c.Rule("(1) every claim x every value class alone (exact class of the getter and of Validate required) and 2-4 combined faults (class of some offending claim required) on claims-sets of both base profiles AND of the two extension profiles embedding them (same rules, other canonical name), built directly, CBOR-decoded and JSON-decoded; (2) every setter of both profiles and of the component x value classes (error class of a refusal); (3) component Validate/getters per field fault; (3c) the same field patterns written IN PLACE, through the pointer GetSoftwareComponents handed out, into a component of a set built by NewClaims + setters that has just validated; (3b) an extension's component type reporting absent-optional / not-in-profile with the class sentinels (bare and wrapped) through ValidateSwComponent and the container; (4) FilterError on generated error trees (leaves: the 11 exported sentinels, foreign and same-text errors; nodes: %w, %v, errors.Join, custom Unwrap() []error, custom Unwrap, custom Is, and NON-POINTER error values: slice-, map- and struct-with-slice-typed lists of problems, a string-typed error) with ground truth computed on the generated tree. distinct_nontrivial = distinct (profile, claim=class) signatures / distinct tree shapes")
	g := model.NewGen(c.Seed*31337 + int64(c.Shard))
	idx := 0
	classOK := func(sig string, a *model.Claims, single bool) {
		want := a.Expect()
		allowed := a.ValidateClasses()
		var objs map[string]psatoken.IClaims
		if p, pv, fr := mon.Guard(func() { objs = routes(c, a, g) }); p {
			c.Violation("C13/panic/"+mon.PanicKey(fr), "panic while constructing", map[string]any{"panic": pv, "frame": fr, "sig": sig})
			return
		}
		for route, o := range objs {
			var got model.Obs
			if p, pv, fr := mon.Guard(func() { got = obs.Observe(o) }); p {
				c.Violation("C13/panic/"+mon.PanicKey(fr), "panic while reading", map[string]any{"panic": pv, "frame": fr, "sig": sig, "route": route})
				continue
			}
			c.Eval()
			w, gt := want.Getters(), got.Getters()
			for i := range w {
				if gt[i].C != model.OK {
					c.Count("getter-error:" + gt[i].C.String())
				}
				if w[i].C != gt[i].C {
					// with several broken components the component getter may report any of them
					if i == 6 && !single && w[i].C != model.OK && gt[i].C != model.OK && a.OffendingCompClasses()[gt[i].C] {
						continue
					}
					c.Violation(fmt.Sprintf("C13/P%d/getter/%s:%s->%s", a.P, model.GetterNames[i], w[i].C, gt[i].C),
						fmt.Sprintf("%s (route %s): getter %s has class %s, documented class %s", sig, route, model.GetterNames[i], gt[i].C, w[i].C),
						map[string]any{"sig": sig, "route": route, "case": abstractSample(a), "wire_hex": mon.Hex(refcbor.Encode(a.WireCBOR()))})
				}
			}
			if got.Validate != model.OK {
				c.Count("validate-error:" + got.Validate.String())
			}
			bad := false
			if single {
				bad = got.Validate != want.Validate
			} else if want.Validate == model.OK {
				bad = got.Validate != model.OK
			} else {
				bad = !allowed[got.Validate]
			}
			if bad {
				c.Violation(fmt.Sprintf("C13/P%d/validate:%s->%s", a.P, want.Validate, got.Validate),
					fmt.Sprintf("%s (route %s): Validate has class %s, expected %s (offending classes %v)", sig, route, got.Validate, want.Validate, allowed),
					map[string]any{"sig": sig, "route": route, "case": abstractSample(a), "wire_hex": mon.Hex(refcbor.Encode(a.WireCBOR()))})
			}
			// validation reached through the validating entry points: the error
			// they return for an invalid set is a validation error and must carry
			// the same documented class
			if want.Validate != model.OK && got.Validate != model.OK && !bad {
				o := o
				gates := []struct {
					name string
					fn   func() error
				}{
					{"ValidateAndEncodeClaimsToCBOR", func() error { _, err := psatoken.ValidateAndEncodeClaimsToCBOR(o); return err }},
					{"ValidateAndEncodeClaimsToJSON", func() error { _, err := psatoken.ValidateAndEncodeClaimsToJSON(o); return err }},
					{"Evidence.SetClaims", func() error { return (&psatoken.Evidence{}).SetClaims(o) }},
					{"Evidence.ValidateAndSign", func() error {
						_, err := (&psatoken.Evidence{Claims: o}).ValidateAndSign(c13Signer)
						return err
					}},
				}
				for _, gt := range gates {
					var gerr error
					if p, pv, fr := mon.Guard(func() { gerr = gt.fn() }); p {
						c.Violation("C13/panic/"+mon.PanicKey(fr), "panic in "+gt.name, map[string]any{"panic": pv, "frame": fr, "sig": sig, "route": route})
						continue
					}
					c.Eval()
					if gerr == nil {
						continue // letting an invalid set through is C08's business
					}
					cls := obs.ClassOf(gerr)
					c.Count("gate-error:" + gt.name + ":" + cls.String())
					wrong := cls != want.Validate
					if !single {
						wrong = !allowed[cls]
					}
					if wrong {
						c.Violation(fmt.Sprintf("C13/P%d/%s:%s->%s", a.P, gt.name, want.Validate, cls),
							fmt.Sprintf("%s (route %s): the error of %s has class %s, Validate() on the same object has the documented class %s (offending classes %v): %v", sig, route, gt.name, cls, got.Validate, allowed, gerr),
							map[string]any{"sig": sig, "route": route, "case": abstractSample(a)})
					}
				}
			}
		}
	}
	// (1a) single faults, exhaustive over the class tables
	for p := 1; p <= 2; p++ {
		for _, claim := range model.ClaimNames(p) {
			for _, v := range model.VariantsCached(p, claim) {
				idx++
				if !c.Mine(idx) {
					continue
				}
				if strings.HasPrefix(v.Name, "mixed") {
					continue // several components may be broken at once: covered under combined
				}
				a := g.Valid(p)
				v.Apply(a, g)
				// claim interplay: the P1 flag and list are one claim for this purpose
				sig := fmt.Sprintf("P%d|%s=%s", p, claim, v.Name)
				c.Sig(sig)
				c.Count("single-fault-cases")
				classOK(sig, a, true)
				// the same fault on the extension profile built on this base (same rules, other canonical name)
				if claim != "profile" {
					b := g.Valid(p)
					if ext := maybeExt(g, b, 1); ext != "" {
						v.Apply(b, g)
						c.Sig(sig + ext)
						c.Count("single-fault-cases-on-extension")
						classOK(sig+ext, b, true)
					}
				}
				if v.Name == "len31" || v.Name == "absent" && claim == "vsi" {
					c.Sample("single", map[string]any{"sig": sig, "expected": a.Expect().String()})
				}
			}
		}
	}
	// (1b) combined faults
	n := c.N(60000, 2000000)
	for i := 0; i < n; i++ {
		p := 1 + g.R.Intn(2)
		a, s := g.Mutated(p, 2+g.R.Intn(3))
		sig := fmt.Sprintf("P%d|%s%s", p, s, maybeExt(g, a, 4))
		c.Sig(sig)
		c.Count("combined-fault-cases")
		classOK(sig, a, false)
	}
	// (1c) an extension that relaxes the base profile through its getters (client id
	// optional, instance id not in the profile): the generic validator must honour
	// exactly what FilterError honours
	for i := 0; i < c.N(4000, 100000); i++ {
		a := g.Valid(2)
		dropCID, dropInst, dropImpl := g.R.Intn(2) == 0, g.R.Intn(2) == 0, g.R.Intn(4) == 0
		x, err := obs.Build(a)
		if err != nil {
			continue
		}
		lx := extprof.NewExtLaxClaims()
		prof := lx.Profile
		lx.P2Claims = *obs.P2Of(x)
		lx.Profile, lx.CanonicalProfile = prof, extprof.ExtLaxName
		if dropCID {
			lx.ClientID = nil
		}
		if dropInst {
			lx.InstID = nil
		}
		if dropImpl {
			lx.ImplID = nil
		}
		sig := fmt.Sprintf("lax-extension|cid=%v|inst=%v|impl=%v", !dropCID, !dropInst, !dropImpl)
		c.Sig(sig)
		c.Eval()
		c.Count("lax-extension-cases")
		var verr error
		if pn, pv, fr := mon.Guard(func() { verr = lx.Validate() }); pn {
			c.Violation("C13/panic/"+mon.PanicKey(fr), "panic validating the relaxed extension", map[string]any{"panic": pv, "frame": fr, "sig": sig})
			continue
		}
		_, e1 := lx.GetClientID()
		_, e2 := lx.GetInstID()
		if (psatoken.FilterError(nil, e1) == nil) != (e1 == nil || dropCID) || (psatoken.FilterError(nil, e2) == nil) != (e2 == nil || dropInst) {
			c.Violation("C13/filter/extension-getter", "FilterError does not suppress the relaxed extension's getter errors", map[string]any{"sig": sig})
			continue
		}
		switch {
		case dropImpl && obs.ClassOf(verr) != model.MissingMandatory:
			c.Violation("C13/extension/validate:missing-mandatory->"+obs.ClassOf(verr).String(), fmt.Sprintf("relaxed extension without implementation id: Validate gives %v", verr), map[string]any{"sig": sig})
		case !dropImpl && verr != nil:
			c.Violation("C13/extension/validate:ok->"+obs.ClassOf(verr).String(), fmt.Sprintf("a claims-set of an extension that makes the client id optional / drops the instance id from the profile (errors FilterError suppresses) fails the generic validation: %v", verr), map[string]any{"sig": sig})
		}
	}
	// (1d) a claims-set of an extension profile whose profile claim holds the BASE
	// profile's name (or another registered name): wrong profile, not a pass
	for i := 0; i < c.N(3000, 60000); i++ {
		p := 1 + g.R.Intn(2)
		a := g.Valid(p)
		base, ext := model.P1Name, extprof.ExtP1Name
		if p == 2 {
			base, ext = model.P2Name, extprof.ExtP2Name
		}
		a.Canon = ext
		other := []string{base, extprof.ExtP2Name, extprof.ExtP1Name}[g.R.Intn(3)]
		if other == ext {
			other = base
		}
		a.Profile = model.SP(other)
		x, err := obs.Build(a)
		if err != nil {
			continue
		}
		c.Eval()
		c.Count("extension-with-foreign-profile-claim")
		c.Sig(fmt.Sprintf("ext-foreign-profile|P%d|%s", p, other))
		_, perr := x.GetProfile()
		verr := x.Validate()
		if obs.ClassOf(perr) != model.WrongProfile || obs.ClassOf(verr) != model.WrongProfile {
			c.Violation(fmt.Sprintf("C13/P%d/extension-foreign-profile:wrong-profile->%s", p, obs.ClassOf(verr)), fmt.Sprintf("claims of extension %q whose profile claim says %q: GetProfile gives %v, Validate gives %v (wrong-profile class expected)", ext, other, perr, verr), nil)
		}
	}
	// (2) setters
	type setCase struct {
		name string
		ok   bool
		call func(cl psatoken.IClaims) error
	}
	for p := 1; p <= 2; p++ {
		pname := map[int]string{1: model.P1Name, 2: model.P2Name}[p]
		var cases []setCase
		for _, l := range model.SweepLens() {
			l := l
			cases = append(cases,
				setCase{fmt.Sprintf("SetImplID/len%d", l), l == 32, func(cl psatoken.IClaims) error { return cl.SetImplID(g.Bytes(l)) }},
				setCase{fmt.Sprintf("SetBootSeed/len%d", l), model.BootSeedOK(p, l), func(cl psatoken.IClaims) error { return cl.SetBootSeed(g.Bytes(l)) }},
				setCase{fmt.Sprintf("SetNonce/len%d", l), l == 32 || l == 48 || l == 64, func(cl psatoken.IClaims) error { return cl.SetNonce(g.Bytes(l)) }},
				setCase{fmt.Sprintf("SetInstID/len%d", l), l == 33, func(cl psatoken.IClaims) error {
					b := g.Bytes(l)
					if l > 0 {
						b[0] = 1
					}
					return cl.SetInstID(b)
				}},
			)
		}
		for _, lc := range []uint16{0, 0xff, 0x100, 0x3000, 0x60ff, 0x6100, 0xffff} {
			lc := lc
			cases = append(cases, setCase{fmt.Sprintf("SetSecurityLifeCycle/0x%04x", lc), model.LifecycleState(lc) >= 0, func(cl psatoken.IClaims) error { return cl.SetSecurityLifeCycle(lc) }})
		}
		cases = append(cases,
			setCase{"SetVSI/empty", false, func(cl psatoken.IClaims) error { return cl.SetVSI("") }},
			setCase{"SetVSI/x", true, func(cl psatoken.IClaims) error { return cl.SetVSI("x") }},
			setCase{"SetInstID/type2", false, func(cl psatoken.IClaims) error { b := g.Bytes(33); b[0] = 2; return cl.SetInstID(b) }},
			setCase{"SetCertificationReference/bad", false, func(cl psatoken.IClaims) error { return cl.SetCertificationReference("12345") }},
			setCase{"SetCertificationReference/ean13+5", true, func(cl psatoken.IClaims) error { return cl.SetCertificationReference("1234567890123-12345") }},
			setCase{"SetSoftwareComponents/bad-comp", false, func(cl psatoken.IClaims) error {
				b := g.Bytes(5)
				return cl.SetSoftwareComponents([]psatoken.ISwComponent{&psatoken.SwComponent{MeasurementValue: &b, SignerID: &b}})
			}},
		)
		for _, sc := range cases {
			idx++
			if !c.Mine(idx) {
				continue
			}
			cl, _ := psatoken.NewClaims(pname)
			var err error
			if pn, pv, fr := mon.Guard(func() { err = sc.call(cl) }); pn {
				c.Violation("C13/panic/"+mon.PanicKey(fr), "panic in setter", map[string]any{"panic": pv, "frame": fr, "setter": sc.name})
				continue
			}
			c.Eval()
			c.Count("setter-calls")
			c.Sig(fmt.Sprintf("P%d|%s", p, sc.name))
			cls := obs.ClassOf(err)
			if sc.ok && err != nil || !sc.ok && cls != model.WrongSyntax {
				c.Violation(fmt.Sprintf("C13/P%d/setter/%s:%s", p, strings.SplitN(sc.name, "/", 2)[0], cls),
					fmt.Sprintf("P%d %s returned %v (class %s); a refusal must carry the wrong-syntax class, an accepted value no error", p, sc.name, err, cls), map[string]any{"setter": sc.name})
			}
		}
	}
	// (3) components: every field combination
	for mv := 0; mv < 3; mv++ {
		for sg := 0; sg < 3; sg++ {
			for t := 0; t < 8; t++ {
				idx++
				if !c.Mine(idx) {
					continue
				}
				code := [5]int{t & 1, mv, (t >> 1) & 1, sg, (t >> 2) & 1}
				ac := g.CompFromCode(code)
				rc := obs.RealComp(&ac)
				res, vclass := model.CompExpect(&ac)
				gotS := obs.ObserveComp(rc)
				wantS := model.CompString(res[0], res[1], res[2], res[3], res[4])
				gotV := obs.ClassOf(rc.Validate())
				c.Eval()
				c.Count("component-cases")
				c.Sig(fmt.Sprint("comp", code))
				if gotS != wantS || gotV != vclass {
					c.Violation(fmt.Sprintf("C13/component/%v", code), fmt.Sprintf("component %v: getters %s validate %s; documented %s validate %s", code, gotS, gotV, wantS, vclass), nil)
				}
				// component setters
				for _, l := range []int{0, 31, 32, 48, 64, 65} {
					e1 := (&psatoken.SwComponent{}).SetMeasurementValue(g.Bytes(l))
					e2 := (&psatoken.SwComponent{}).SetSignerID(g.Bytes(l))
					okl := l == 32 || l == 48 || l == 64
					for _, e := range []error{e1, e2} {
						c.Eval()
						if okl && e != nil || !okl && obs.ClassOf(e) != model.WrongSyntax {
							c.Violation("C13/component/setter", fmt.Sprintf("component hash setter with %d bytes returned %v", l, e), nil)
						}
					}
				}
			}
		}
	}
	// (3c) the same field faults reached IN PLACE (seeded fault C13-v: a "validated"
	// flag on the component container that the setters raise): a set built through
	// NewClaims + setters with two good components is validated and read, then one
	// component is overwritten through the pointer the caller kept; the error class
	// of Validate / GetSoftwareComponents must be the one the content now calls for.
	for p := 1; p <= 2; p++ {
		for mv := 0; mv < 3; mv++ {
			for sg := 0; sg < 3; sg++ {
				for t := 0; t < 8; t++ {
					idx++
					if !c.Mine(idx) {
						continue
					}
					code := [5]int{t & 1, mv, (t >> 1) & 1, sg, (t >> 2) & 1}
					a := g.Valid(p)
					a.NoMeas, a.HasComps = nil, true
					a.Comps = []model.Comp{g.CompFromCode([5]int{1, 1, 1, 1, 1}), g.CompFromCode([5]int{0, 1, 0, 1, 0})}
					x, err := obs.SetterBuild(a)
					if err != nil {
						continue
					}
					kept := make([]*psatoken.SwComponent, 0, 2)
					ok := false
					if pn, pv, fr := mon.Guard(func() {
						if x.Validate() != nil {
							return
						}
						l, gerr := x.GetSoftwareComponents()
						if gerr != nil || len(l) != 2 {
							return
						}
						for _, e := range l {
							if sc, is := e.(*psatoken.SwComponent); is {
								kept = append(kept, sc)
							}
						}
						ok = len(kept) == 2
					}); pn {
						c.Violation("C13/panic/"+mon.PanicKey(fr), "panic while reading a setter-built set", map[string]any{"panic": pv, "frame": fr})
						continue
					}
					if !ok {
						c.Violation("C13/in-place/setter-built-set-not-valid", "a claims-set built through the setters with two good components does not validate / hand out its two components", map[string]any{"profile": p})
						continue
					}
					which := t % 2
					ac := g.CompFromCode(code)
					*kept[which] = *obs.RealComp(&ac)
					a.Comps[which] = ac
					want, got := a.Expect(), obs.Observe(x)
					c.Eval()
					c.Count("in-place-component-cases")
					c.Sig(fmt.Sprint("comp-in-place", p, code))
					d := model.ObsDiff(&want, &got)
					if d == "" && want.Validate != model.OK && !a.ValidateClasses()[got.Validate] {
						d = fmt.Sprintf("validate: class %s, documented %v", got.Validate, a.ValidateClasses())
					}
					if d != "" {
						var ks []string
						for _, seg := range strings.Split(d, "; ") {
							ks = append(ks, strings.SplitN(seg, ":", 2)[0])
						}
						c.Violation(fmt.Sprintf("C13/in-place-component/P%d/%s", p, strings.Join(ks, ",")), fmt.Sprintf("profile %d, component %d overwritten in place with field pattern %v after a successful Validate: %s", p, which, code, d), map[string]any{"profile": p, "code": fmt.Sprint(code)})
					}
				}
			}
		}
	}
	// (4) the error filter
	leaves := filterLeaves()
	if c.Shard == 0 {
		if got := psatoken.FilterError("v", nil); got != nil {
			c.Violation("C13/filter/nil", "FilterError(v, nil) != nil", nil)
		}
		c.Eval()
	}
	// (3b) a component type of an extension that reports "optional, absent" and "not
	// in this profile" with the class sentinels themselves (bare or wrapped): the
	// generic component validator must ignore exactly those
	for i := 0; i < c.N(4000, 100000); i++ {
		code := [5]int{g.R.Intn(2), g.R.Intn(3), g.R.Intn(2), g.R.Intn(3), g.R.Intn(2)}
		if g.R.Intn(2) == 0 {
			code[1], code[3] = 1, 1
		}
		cp := g.CompFromCode(code)
		lc := &extprof.LaxComponent{SwComponent: *obs.RealComp(&cp)}
		_, want := model.CompExpect(&cp)
		var verr, cerr error
		if p, pv, fr := mon.Guard(func() {
			verr = psatoken.ValidateSwComponent(lc)
			ct := &psatoken.SwComponents[*extprof.LaxComponent]{}
			cerr = ct.Add(lc)
		}); p {
			c.Violation("C13/panic/"+mon.PanicKey(fr), "panic validating an extension's component type", map[string]any{"panic": pv, "frame": fr})
			continue
		}
		c.Eval()
		c.Count("lax-component-cases")
		c.Sig(fmt.Sprintf("lax-component|%v", code))
		if want != model.OK {
			// the same INVALID component as the stock type, offered to the container of the
			// other type: the refusal still carries the component's own class
			var ferr error
			mon.Guard(func() {
				ferr = (&psatoken.SwComponents[*extprof.LaxComponent]{}).Add(obs.RealComp(&cp))
			})
			c.Eval()
			if got := obs.ClassOf(ferr); ferr == nil || got != want {
				c.Violation(fmt.Sprintf("C13/lax-component/foreign-invalid-component:%s->%s", want, got), fmt.Sprintf("an invalid component of another concrete type offered to the container: class %s, expected the component's own class %s (%v)", got, want, ferr), map[string]any{"fields": fmt.Sprint(code)})
			}
		}
		for gi, e := range []error{verr, cerr} {
			gate := []string{"ValidateSwComponent", "SwComponents.Add"}[gi]
			got := obs.ClassOf(e)
			if e == nil {
				got = model.OK
			}
			if got != want {
				c.Violation(fmt.Sprintf("C13/lax-component/%s:%s->%s", gate, want, got), fmt.Sprintf("%s on a component type that reports absent-optional / not-in-profile with the class sentinels: class %s, expected %s (%v)", gate, got, want, e), map[string]any{"fields": fmt.Sprint(code)})
			}
		}
	}
	c.Floor("lax-component-cases", 1000)
	nt := c.N(100000, 3000000)
	for i := 0; i < nt; i++ {
		e, desc, filterable := genTree(g, leaves, 0)
		var got error
		if p, pv, fr := mon.Guard(func() { got = psatoken.FilterError(i, e) }); p {
			c.Violation("C13/panic/"+mon.PanicKey(fr), "panic in FilterError", map[string]any{"panic": pv, "frame": fr, "tree": desc})
			continue
		}
		c.Eval()
		c.Count("filter-trees")
		c.Sig("tree:" + desc)
		if filterable {
			c.Count("filter-expected-nil")
			if got != nil {
				c.Violation("C13/filter/not-suppressed", fmt.Sprintf("FilterError returned %v for a tree in which a missing-optional / not-in-profile sentinel is reachable: %s", got, desc), map[string]any{"tree": desc})
			}
		} else {
			c.Count("filter-expected-identity")
			if !sameErr(got, e) {
				c.Violation("C13/filter/not-identity", fmt.Sprintf("FilterError returned %v instead of the error itself for tree %s", got, desc), map[string]any{"tree": desc})
			}
		}
		if i < 3 {
			c.Sample("filter-tree", map[string]any{"tree": desc, "expected_nil": filterable})
		}
	}
	c.Floor("lax-extension-cases", 1000)
	c.Floor("filter-expected-nil", 1000)
	c.Floor("filter-expected-identity", 1000)
	c.Floor("single-fault-cases", 500)
	c.Floor("getter-error:missing-mandatory", 100)
	c.Floor("getter-error:missing-optional", 100)
	c.Floor("getter-error:wrong-syntax", 100)
	c.Floor("getter-error:wrong-profile", 20)
}
