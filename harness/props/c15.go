package props

import (
	"bytes"
	"encoding/json"
	"fmt"
	"math/big"
	"reflect"
	"sort"
	"time"

	"github.com/veraison/psatoken"
	"github.com/veraison/psatoken/encoding"

	"verif/harness/extprof"
	"verif/harness/model"
	"verif/harness/mon"
	"verif/harness/obs"
	"verif/harness/refcbor"
	"verif/harness/shapes"
)

func init() { register("C15", runC15) }

// expectedNode: what a set field must look like on the wire.
func shapeFieldNode(v any, f shapes.FieldInfo) *refcbor.Node {
	fv := shapes.FieldValue(v, f)
	if fv.IsNil() {
		return refcbor.Null()
	}
	switch x := fv.Elem().Interface().(type) {
	case int64:
		return refcbor.I(x)
	case string:
		return refcbor.Tstr(x)
	case []byte:
		return refcbor.Bstr(x)
	case uint16:
		return refcbor.U(uint64(x))
	case bool:
		return refcbor.Bool(x)
	case float64:
		return refcbor.Flt(x, 8)
	}
	panic("unknown field type")
}

func cborMapOf(b []byte) (map[int64]*refcbor.Node, []int64, []string) {
	var probs []string
	n, rest, err := refcbor.Decode(b)
	if err != nil {
		return nil, nil, []string{"not-well-formed: " + err.Error()}
	}
	if len(rest) != 0 {
		probs = append(probs, fmt.Sprintf("trailing-bytes:%d", len(rest)))
	}
	if n.K != refcbor.Map {
		return nil, nil, append(probs, "not-a-map")
	}
	if n.Indef {
		probs = append(probs, "indefinite-map")
	}
	m := map[int64]*refcbor.Node{}
	var order []int64
	for i := 0; i+1 < len(n.Items); i += 2 {
		k, ok := n.Items[i].Int64()
		if !ok {
			probs = append(probs, "non-integer-key")
			continue
		}
		if _, dup := m[k]; dup {
			probs = append(probs, fmt.Sprintf("duplicate-key:%d", k))
		}
		m[k] = n.Items[i+1]
		order = append(order, k)
	}
	return m, order, probs
}

// c15Held keeps the slices the serialisers returned (the slice itself plus a copy
// taken at once); each is compared again after six further serialisations (seeded
// fault C15-v: output built in a pooled scratch buffer that is handed out).
var c15Held []struct {
	got, copy []byte
	what      string
}

func c15Hold(c *mon.Ctx, got []byte, what string) {
	c15Held = append(c15Held, struct {
		got, copy []byte
		what      string
	}{got, append([]byte{}, got...), what})
	if len(c15Held) <= 6 {
		return
	}
	it := c15Held[0]
	c15Held = c15Held[1:]
	c.Count("returned-bytes-rechecked")
	if !bytes.Equal(it.got, it.copy) {
		c.Violation("C15/returned-bytes-changed-later/"+it.what, "bytes returned by "+it.what+" changed after further serialisations (populating from them no longer reproduces the value)",
			map[string]any{"returned_then": mon.Hex(it.copy), "same_slice_now": mon.Hex(it.got)})
	}
}

// c15CBOR checks one (shape, value) against the CBOR half of the property.
func c15CBOR(c *mon.Ctx, g *model.Gen, sn string, v any, sig string, embedded bool) {
	bad := func(key, what string, extra map[string]any) {
		d := map[string]any{"shape": sn, "sig": sig, "value": shapes.Render(v)}
		for k, x := range extra {
			d[k] = x
		}
		c.Violation("C15/cbor/"+key+"/"+sn, what, d)
	}
	b, err := encoding.SerializeStructToCBOR(extprof.EM, v)
	c.Eval()
	if err != nil {
		bad("serialize-failed", "SerializeStructToCBOR failed: "+err.Error(), nil)
		return
	}
	c15Hold(c, b, "SerializeStructToCBOR")
	m, order, probs := cborMapOf(b)
	if len(probs) > 0 {
		bad("not-one-map/"+probs[0], fmt.Sprintf("output is not one definite map: %v", probs), map[string]any{"hex": mon.Hex(b)})
		return
	}
	// union of outer and embedded fields, honouring omitempty and "-"
	want := map[int64]*refcbor.Node{}
	for _, f := range shapes.Fields(v) {
		fv := shapes.FieldValue(v, f)
		if fv.IsNil() && f.Optional {
			continue
		}
		want[f.CBORKey] = shapeFieldNode(v, f)
	}
	for k, w := range want {
		got, ok := m[k]
		if !ok {
			bad("missing-key", fmt.Sprintf("key %d of a set / mandatory field is missing from the output", k), map[string]any{"hex": mon.Hex(b)})
			return
		}
		if !refcbor.Equal(got, w) {
			bad("wrong-value", fmt.Sprintf("key %d: emitted %s, field holds %s", k, got.Diag(), w.Diag()), map[string]any{"hex": mon.Hex(b)})
			return
		}
	}
	for k := range m {
		if _, ok := want[k]; !ok {
			bad("unexpected-key", fmt.Sprintf("key %d emitted although the field is empty+omitempty, excluded with '-', or does not exist", k), map[string]any{"hex": mon.Hex(b)})
			return
		}
	}
	c.Count("cbor-serialisations-checked")
	// stable
	b2, err2 := encoding.SerializeStructToCBOR(extprof.EM, v)
	if err2 != nil || !bytes.Equal(b, b2) {
		bad("unstable-order", "two serialisations of the same value differ", map[string]any{"hex1": mon.Hex(b), "hex2": mon.Hex(b2)})
		return
	}
	// round trip into a fresh value
	fresh := shapes.New(sn)
	if err := encoding.PopulateStructFromCBOR(extprof.DM, b, fresh); err != nil {
		allEmpty := len(m) == 0
		k := "roundtrip-populate-failed"
		if allEmpty {
			k = "roundtrip-populate-failed-all-empty"
		}
		bad(k, "populating a fresh struct from the serialiser's own output failed: "+err.Error(), map[string]any{"hex": mon.Hex(b)})
		return
	}
	if shapes.Render(fresh) != shapes.Render(v) {
		bad("roundtrip-differs", "populate(serialize(v)) != v: "+shapes.Render(fresh), map[string]any{"hex": mon.Hex(b)})
		return
	}
	c.Count("cbor-roundtrips")
	if len(m) == 0 {
		c.Count("cbor-all-empty-roundtrips")
	}
	// plain codec equivalence for shapes without embedding
	if !embedded {
		pb, perr := extprof.EM.Marshal(v)
		pm, _, pprobs := cborMapOf(pb)
		if perr != nil || len(pprobs) > 0 {
			c.Count("plain-codec-unusable")
		} else {
			same := len(pm) == len(m)
			for k, x := range pm {
				if y, ok := m[k]; !ok || !refcbor.Equal(x, y) {
					same = false
				}
			}
			if !same {
				bad("differs-from-plain-codec", "output decodes to another map than the plain CBOR marshaller's", map[string]any{"hex": mon.Hex(b), "plain_hex": mon.Hex(pb)})
				return
			}
			c.Count("cbor-plain-equivalence")
		}
	}
	// missing keys: mandatory => error, optional => fine
	ast, _, _ := refcbor.Decode(b)
	for _, f := range shapes.Fields(v) {
		if _, present := m[f.CBORKey]; !present {
			continue
		}
		cut := refcbor.MapOf()
		for i := 0; i+1 < len(ast.Items); i += 2 {
			if k, _ := ast.Items[i].Int64(); k != f.CBORKey {
				cut.Items = append(cut.Items, ast.Items[i], ast.Items[i+1])
			}
		}
		// an empty definite map is covered by the round trip above
		if len(cut.Items) == 0 {
			continue
		}
		dst := shapes.New(sn)
		err := encoding.PopulateStructFromCBOR(extprof.DM, refcbor.Encode(cut), dst)
		if !f.Optional {
			// the same into a destination that already holds values (a factory default, a reused object)
			dirty := shapes.New(sn)
			shapes.Fill(g.R, dirty, func(int, shapes.FieldInfo) bool { return true })
			if derr := encoding.PopulateStructFromCBOR(extprof.DM, refcbor.Encode(cut), dirty); derr == nil {
				bad("missing-mandatory-accepted-into-nonzero-destination", fmt.Sprintf("input without the non-optional key %d was accepted when the destination already held values", f.CBORKey), map[string]any{"hex": mon.Hex(refcbor.Encode(cut))})
				return
			}
		}
		switch {
		case !f.Optional && err == nil:
			bad("missing-mandatory-accepted", fmt.Sprintf("input without the non-optional key %d was accepted", f.CBORKey), map[string]any{"hex": mon.Hex(refcbor.Encode(cut))})
			return
		case f.Optional && err != nil:
			bad("missing-optional-rejected", fmt.Sprintf("input without the optional key %d was rejected: %v", f.CBORKey, err), map[string]any{"hex": mon.Hex(refcbor.Encode(cut))})
			return
		case !f.Optional:
			c.Count("cbor-missing-mandatory-rejected")
		}
	}
	// duplicate key => error
	if len(order) > 0 {
		i := 2 * g.R.Intn(len(order))
		dup := refcbor.MapOf(ast.Items...)
		at := 2 * g.R.Intn(len(order)+1)
		items := append([]*refcbor.Node{}, dup.Items[:at]...)
		items = append(items, ast.Items[i], ast.Items[i+1])
		items = append(items, dup.Items[at:]...)
		dup.Items = items
		dst := shapes.New(sn)
		if err := encoding.PopulateStructFromCBOR(extprof.DM, refcbor.Encode(dup), dst); err == nil {
			bad("duplicate-key-accepted", "CBOR input with a duplicate key was accepted", map[string]any{"hex": mon.Hex(refcbor.Encode(dup))})
			return
		}
		c.Count("cbor-duplicate-key-rejected")
		// the same in the other map forms the populate function reads itself:
		// indefinite-length map, tagged map (default decoding mode, which
		// allows indefinite lengths); control: without the duplicate each
		// form populates
		clean := refcbor.MapOf(ast.Items...)
		for fi, form := range []func(n *refcbor.Node) *refcbor.Node{
			func(n *refcbor.Node) *refcbor.Node { return n.AsIndef() },
			func(n *refcbor.Node) *refcbor.Node { return refcbor.Tagged(uint64(1+g.R.Intn(70000)), n) },
			func(n *refcbor.Node) *refcbor.Node { return refcbor.Tagged(55799, n.AsIndef()) },
			func(n *refcbor.Node) *refcbor.Node { return n.WithArgW(1 << uint(g.R.Intn(3))) }, // 8-byte lengths are refused by design
		} {
			name := []string{"indefinite", "tagged", "tagged-indefinite", "non-minimal-length"}[fi]
			in := refcbor.Encode(form(dup))
			if err := encoding.PopulateStructFromCBOR(extprof.DMDefault, in, shapes.New(sn)); err == nil {
				bad("duplicate-key-accepted:"+name, "CBOR input ("+name+" map) with a duplicate key was accepted", map[string]any{"hex": mon.Hex(in)})
				return
			}
			c.Count("cbor-duplicate-key-rejected:" + name)
			in = refcbor.Encode(form(clean))
			dst := shapes.New(sn)
			if err := encoding.PopulateStructFromCBOR(extprof.DMDefault, in, dst); err != nil {
				bad("map-form-rejected:"+name, "the struct's own serialisation re-encoded as a "+name+" map was rejected: "+err.Error(), map[string]any{"hex": mon.Hex(in)})
				return
			}
			if shapes.Render(dst) != shapes.Render(v) {
				bad("map-form-populates-differently:"+name, "populating from the "+name+" form gives another value", map[string]any{"hex": mon.Hex(in), "got": shapes.Render(dst)})
				return
			}
			c.Count("cbor-map-form-populated:" + name)
		}
	}
}

// richFlat is a flat struct (no embedding) whose fields are not all pointers to
// scalars: struct-kind values the CBOR / JSON libraries encode natively
// (time.Time, big.Int), nested structs by value and by pointer, slices, maps.
type richFlat struct {
	Name   *string           `cbor:"1,keyasint" json:"name"`
	When   time.Time         `cbor:"2,keyasint" json:"when"`
	WhenP  *time.Time        `cbor:"3,keyasint,omitempty" json:"when-p,omitempty"`
	Big    *big.Int          `cbor:"4,keyasint" json:"big"`
	Nested richNested        `cbor:"5,keyasint" json:"nested"`
	NestP  *richNested       `cbor:"6,keyasint,omitempty" json:"nest-p,omitempty"`
	List   []richNested      `cbor:"7,keyasint,omitempty" json:"list,omitempty"`
	Map    map[string]uint16 `cbor:"8,keyasint,omitempty" json:"map,omitempty"`
	Count  uint32            `cbor:"-9,keyasint" json:"count"`
	// present in one encoding only (the other tag is "-"), and excluded from both
	CborOnly *string `cbor:"10,keyasint,omitempty" json:"-"`
	JSONOnly *string `cbor:"-" json:"json-only,omitempty"`
	Neither  string  `cbor:"-" json:"-"`
	Last     *int64  `cbor:"11,keyasint,omitempty" json:"last,omitempty"`
	// keys beyond 32 bits
	Wide    *int64 `cbor:"4294967301,keyasint,omitempty" json:"wide,omitempty"`
	WideNeg *int64 `cbor:"-4294967303,keyasint,omitempty" json:"wide-neg,omitempty"`
	// an embedded named NON-struct type is an ordinary field (named after its type)
	RichBytes `cbor:"12,keyasint,omitempty" json:"rich-bytes,omitempty"`
	// omitempty is not the last option of the tag (seeded faults C15-u / C10-u)
	OptMid  *string `cbor:"13,omitempty,keyasint" json:"opt-mid,omitempty,nonsense"`
	OptMid2 *int64  `cbor:"14,omitempty,keyasint,toarray" json:"opt-mid2,omitempty,nonsense,more"`
}

type RichBytes []byte

type richNested struct {
	X int64  `cbor:"1,keyasint" json:"x"`
	Y string `cbor:"2,keyasint,omitempty" json:"y,omitempty"`
}

// c15Rich: for a flat struct the embedding-aware serialisers must produce what
// the plain marshallers produce (same CBOR map / same JSON members), whatever
// the field types, and populating must reproduce the value.
func c15Rich(c *mon.Ctx, g *model.Gen) {
	name := g.Text()
	v := &richFlat{Name: &name, When: time.Unix(int64(g.R.Intn(1<<31)), 0).UTC(), Nested: richNested{X: int64(g.R.Intn(1000)) - 500, Y: g.Text()}, Count: uint32(g.R.Intn(1 << 30))}
	v.Big = big.NewInt(int64(g.R.Intn(1 << 40)))
	if g.R.Intn(2) == 0 {
		t := time.Unix(int64(g.R.Intn(1<<31)), 0).UTC()
		v.WhenP = &t
	}
	if g.R.Intn(2) == 0 {
		v.NestP = &richNested{X: 7, Y: "p"}
	}
	if g.R.Intn(3) != 0 {
		v.CborOnly, v.JSONOnly, v.Neither = model.SP(g.NonEmptyText()), model.SP(g.NonEmptyText()), "bookkeeping"
		l := int64(g.R.Intn(100))
		v.Last = &l
		w1, w2 := int64(g.R.Intn(1000)), int64(-g.R.Intn(1000))
		v.Wide, v.WideNeg = &w1, &w2
		v.RichBytes = RichBytes(g.Bytes(1 + g.R.Intn(8)))
	}
	if g.R.Intn(2) == 0 {
		v.List = []richNested{{X: 1}, {X: 2, Y: g.Text()}}
	}
	if g.R.Intn(3) == 0 {
		n := int64(g.R.Intn(100))
		v.OptMid, v.OptMid2 = model.SP(g.Text()), &n
	}
	if g.R.Intn(2) == 0 {
		v.Map = map[string]uint16{"a": uint16(g.R.Intn(65536))} // one entry: Go map order must not enter the comparison
	}
	c.Eval()
	bad := func(key, what string, extra map[string]any) {
		c.Violation("C15/rich-flat/"+key, what, extra)
	}
	b, err := encoding.SerializeStructToCBOR(extprof.EM, v)
	pb, perr := extprof.EM.Marshal(v)
	if err != nil || perr != nil {
		bad("cbor-serialise-failed", fmt.Sprintf("serialising a flat struct failed: %v / plain marshaller: %v", err, perr), nil)
		return
	}
	n1, e1 := refcbor.DecodeAll(b)
	n2, e2 := refcbor.DecodeAll(pb)
	if e1 != nil || e2 != nil || n1.K != refcbor.Map || n2.K != refcbor.Map || !sameMapCBOR(n1, n2) {
		bad("cbor-differs-from-plain-marshaller", "for a flat struct the output does not decode to the same map as the plain CBOR marshaller's", map[string]any{"codec_hex": mon.Hex(b), "plain_hex": mon.Hex(pb)})
		return
	}
	back := &richFlat{}
	if err := encoding.PopulateStructFromCBOR(extprof.DM, b, back); err != nil {
		bad("cbor-populate-failed", "populating from the serialiser's own output failed: "+err.Error(), map[string]any{"hex": mon.Hex(b)})
		return
	}
	if rb, err := extprof.EM.Marshal(back); err != nil || !bytes.Equal(rb, pb) {
		bad("cbor-roundtrip-differs", "populate(serialise(v)) != v (compared through the plain marshaller)", map[string]any{"hex": mon.Hex(b)})
		return
	}
	fromPlain := &richFlat{}
	if err := encoding.PopulateStructFromCBOR(extprof.DM, pb, fromPlain); err != nil {
		bad("cbor-plain-output-not-populatable", "the plain marshaller's output cannot be populated: "+err.Error(), map[string]any{"hex": mon.Hex(pb)})
		return
	}
	j, err := encoding.SerializeStructToJSON(v)
	pj, perr := json.Marshal(v)
	var m1, m2 map[string]any
	if err != nil || perr != nil || json.Unmarshal(j, &m1) != nil || json.Unmarshal(pj, &m2) != nil || !reflect.DeepEqual(m1, m2) {
		bad("json-differs-from-plain-marshaller", fmt.Sprintf("for a flat struct the JSON output differs from encoding/json's (%v / %v)", err, perr), map[string]any{"codec": string(j), "plain": string(pj)})
		return
	}
	jback := &richFlat{}
	if err := encoding.PopulateStructFromJSON(j, jback); err != nil {
		bad("json-populate-failed", "populating from the serialiser's own JSON failed: "+err.Error(), map[string]any{"json": string(j)})
		return
	}
	if rj, err := json.Marshal(jback); err != nil || !bytes.Equal(rj, pj) {
		bad("json-roundtrip-differs", "populate(serialise(v)) != v for JSON", map[string]any{"json": string(j), "back": string(rj)})
		return
	}
	c.Count("rich-flat-structs")
}

// sameMapCBOR compares two definite maps as sets of (key, value) pairs.
func sameMapCBOR(a, b *refcbor.Node) bool {
	if len(a.Items) != len(b.Items) {
		return false
	}
	for i := 0; i+1 < len(a.Items); i += 2 {
		found := false
		for j := 0; j+1 < len(b.Items); j += 2 {
			if refcbor.Equal(a.Items[i], b.Items[j]) && refcbor.Equal(a.Items[i+1], b.Items[j+1]) {
				found = true
			}
		}
		if !found {
			return false
		}
	}
	return true
}

// c15IfaceValue: an embedded interface may hold the struct itself instead of
// a pointer to it ("embedded interface holding a struct"); for serialising
// that is the same value, so both serialisers must emit the same bytes as for
// the pointer-holding twin (which the caller has just checked key by key).
func c15IfaceValue(c *mon.Ctx, v *shapes.EmbIface, sig string) {
	in, ok := v.IThing.(*shapes.Inner)
	if !ok || in == nil {
		return
	}
	twin := &shapes.EmbIface{IThing: *in, T: v.T, U: v.U}
	c.Eval()
	b1, e1 := encoding.SerializeStructToCBOR(extprof.EM, v)
	b2, e2 := encoding.SerializeStructToCBOR(extprof.EM, twin)
	if (e1 == nil) != (e2 == nil) || !bytes.Equal(b1, b2) {
		c.Violation("C15/cbor/interface-holding-struct-value-differs/EmbIface", fmt.Sprintf("an embedded interface holding the struct by value serialises differently from one holding a pointer to it (err %v vs %v)", e2, e1),
			map[string]any{"sig": sig, "pointer_hex": mon.Hex(b1), "value_hex": mon.Hex(b2)})
		return
	}
	j1, e1 := encoding.SerializeStructToJSON(v)
	j2, e2 := encoding.SerializeStructToJSON(twin)
	if (e1 == nil) != (e2 == nil) || !bytes.Equal(j1, j2) {
		c.Violation("C15/json/interface-holding-struct-value-differs/EmbIface", fmt.Sprintf("an embedded interface holding the struct by value serialises differently from one holding a pointer to it (err %v vs %v)", e2, e1),
			map[string]any{"sig": sig, "pointer_json": string(j1), "value_json": string(j2)})
		return
	}
	c.Count("interface-holding-value-twins")
}

func c15JSON(c *mon.Ctx, g *model.Gen, sn string, v any, sig string, embedded bool) {
	bad := func(key, what string, extra map[string]any) {
		d := map[string]any{"shape": sn, "sig": sig, "value": shapes.Render(v)}
		for k, x := range extra {
			d[k] = x
		}
		c.Violation("C15/json/"+key+"/"+sn, what, d)
	}
	b, err := encoding.SerializeStructToJSON(v)
	c.Eval()
	if err != nil {
		bad("serialize-failed", "SerializeStructToJSON failed: "+err.Error(), nil)
		return
	}
	c15Hold(c, b, "SerializeStructToJSON")
	root, perr := parseJSON(b)
	if perr != nil || root.kind != 'o' {
		bad("not-one-object", fmt.Sprintf("output is not one JSON object (%v)", perr), map[string]any{"json": string(b)})
		return
	}
	var trailing json.RawMessage
	if json.Unmarshal(b, &trailing) != nil {
		bad("not-one-object", "output is not a single JSON value", map[string]any{"json": string(b)})
		return
	}
	got := map[string]string{}
	for i, n := range root.names {
		if _, dup := got[n]; dup {
			bad("duplicate-member", "member "+n+" emitted twice", map[string]any{"json": string(b)})
			return
		}
		got[n] = string(root.members[i].bytes())
	}
	want := map[string]string{}
	for _, f := range shapes.Fields(v) {
		fv := shapes.FieldValue(v, f)
		if fv.IsNil() && f.Optional {
			continue
		}
		jb, _ := json.Marshal(fv.Interface())
		var cn bytes.Buffer
		_ = json.Compact(&cn, jb)
		want[f.JSONName] = cn.String()
	}
	for n, w := range want {
		gv, ok := got[n]
		if !ok {
			bad("missing-member", "member "+n+" of a set / mandatory field is missing", map[string]any{"json": string(b)})
			return
		}
		var x, y any
		if json.Unmarshal([]byte(gv), &x) != nil || json.Unmarshal([]byte(w), &y) != nil || !reflect.DeepEqual(x, y) {
			bad("wrong-value", fmt.Sprintf("member %s: emitted %s, field holds %s", n, gv, w), map[string]any{"json": string(b)})
			return
		}
	}
	for n := range got {
		if _, ok := want[n]; !ok {
			bad("unexpected-member", "member "+n+" emitted although the field is empty+omitempty, excluded, or does not exist", map[string]any{"json": string(b)})
			return
		}
	}
	c.Count("json-serialisations-checked")
	b2, err2 := encoding.SerializeStructToJSON(v)
	if err2 != nil || !bytes.Equal(b, b2) {
		bad("unstable-order", "two serialisations of the same value differ", map[string]any{"json1": string(b), "json2": string(b2)})
		return
	}
	fresh := shapes.New(sn)
	if err := encoding.PopulateStructFromJSON(b, fresh); err != nil {
		bad("roundtrip-populate-failed", "populating a fresh struct from the serialiser's own output failed: "+err.Error(), map[string]any{"json": string(b)})
		return
	}
	if shapes.Render(fresh) != shapes.Render(v) {
		bad("roundtrip-differs", "populate(serialize(v)) != v: "+shapes.Render(fresh), map[string]any{"json": string(b)})
		return
	}
	c.Count("json-roundtrips")
	if len(got) == 0 {
		c.Count("json-all-empty-roundtrips")
	}
	if !embedded {
		pb, perr := json.Marshal(v)
		var x, y any
		if perr == nil && json.Unmarshal(pb, &x) == nil && json.Unmarshal(b, &y) == nil {
			if !reflect.DeepEqual(x, y) {
				bad("differs-from-plain-codec", "output decodes to another object than json.Marshal's", map[string]any{"json": string(b), "plain": string(pb)})
				return
			}
			c.Count("json-plain-equivalence")
		}
	}
	for _, f := range shapes.Fields(v) {
		if _, present := got[f.JSONName]; !present {
			continue
		}
		cut := &jnode{kind: 'o'}
		for i, n := range root.names {
			if n != f.JSONName {
				cut.names = append(cut.names, n)
				cut.members = append(cut.members, root.members[i])
			}
		}
		dst := shapes.New(sn)
		err := encoding.PopulateStructFromJSON(cut.bytes(), dst)
		if !f.Optional {
			dirty := shapes.New(sn)
			shapes.Fill(g.R, dirty, func(int, shapes.FieldInfo) bool { return true })
			if derr := encoding.PopulateStructFromJSON(cut.bytes(), dirty); derr == nil {
				bad("missing-mandatory-accepted-into-nonzero-destination", "input without the non-optional member "+f.JSONName+" was accepted when the destination already held values", map[string]any{"json": string(cut.bytes())})
				return
			}
		}
		switch {
		case !f.Optional && err == nil:
			bad("missing-mandatory-accepted", "input without the non-optional member "+f.JSONName+" was accepted", map[string]any{"json": string(cut.bytes())})
			return
		case f.Optional && err != nil:
			bad("missing-optional-rejected", "input without the optional member "+f.JSONName+" was rejected: "+err.Error(), map[string]any{"json": string(cut.bytes())})
			return
		case !f.Optional:
			c.Count("json-missing-mandatory-rejected")
		}
	}
}

// c15Synth exercises a flat shape with n synthetic keys around the header
// boundaries of the hand-rolled map header writer / reader.
func c15Synth(c *mon.Ctx, g *model.Gen, n int, fill string) {
	v := shapes.NewSynth(n)
	rv := reflect.ValueOf(v).Elem()
	set := 0
	for i := 0; i < n; i++ {
		on := fill == "all" || (fill == "half" && g.R.Intn(2) == 0) || (fill == "all-but-one" && i != n/2)
		if on {
			x := uint16(i*7 + 1)
			rv.Field(i).Set(reflect.ValueOf(&x))
			set++
		}
	}
	sig := fmt.Sprintf("synth|n=%d|%s|set=%d", n, fill, set)
	c.Sig(sig)
	bad := func(key, what string) {
		c.Violation(fmt.Sprintf("C15/synthetic/%s/entries=%d", key, set), what, map[string]any{"sig": sig, "fields": n, "entries": set})
	}
	b, err := encoding.SerializeStructToCBOR(extprof.EM, v)
	c.Eval()
	if err != nil {
		bad("serialize-failed", err.Error())
		return
	}
	m, _, probs := cborMapOf(b)
	if len(probs) > 0 {
		bad("header/"+probs[0], fmt.Sprintf("serialisation of %d entries is not one well-formed definite map: %v (first bytes %x)", set, probs, b[:min(len(b), 12)]))
		return
	}
	if len(m) != set {
		bad("entry-count", fmt.Sprintf("map carries %d entries, %d fields are set", len(m), set))
		return
	}
	for i := 0; i < n; i++ {
		f := rv.Field(i)
		got, ok := m[int64(i)]
		if f.IsNil() != !ok || (ok && !refcbor.Equal(got, refcbor.U(uint64(*f.Interface().(*uint16))))) {
			bad("wrong-content", fmt.Sprintf("key %d wrong / missing / spurious", i))
			return
		}
	}
	fresh := shapes.NewSynth(n)
	if err := encoding.PopulateStructFromCBOR(extprof.DM, b, fresh); err != nil {
		bad("roundtrip-populate-failed", "populate from own output failed: "+err.Error())
		return
	}
	if !reflect.DeepEqual(fresh, v) {
		bad("roundtrip-differs", "populate(serialize(v)) != v")
		return
	}
	pb, perr := extprof.EM.Marshal(v)
	if perr == nil {
		pm, _, pp := cborMapOf(pb)
		same := len(pp) == 0 && len(pm) == len(m)
		for k, x := range pm {
			if y, ok := m[k]; !ok || !refcbor.Equal(x, y) {
				same = false
			}
		}
		if !same {
			bad("differs-from-plain-codec", "decodes to another map than the plain marshaller's output")
			return
		}
	}
	c.Count("synthetic-cbor-roundtrips")
	c.SetAdd("synthetic_entry_counts", fmt.Sprint(set))
	// JSON
	jb, err := encoding.SerializeStructToJSON(v)
	if err != nil {
		bad("json-serialize-failed", err.Error())
		return
	}
	var jm map[string]uint16
	if err := json.Unmarshal(jb, &jm); err != nil || len(jm) != set {
		bad("json-entry-count", fmt.Sprintf("JSON object has %d members (%v), %d fields set", len(jm), err, set))
		return
	}
	jfresh := shapes.NewSynth(n)
	if err := encoding.PopulateStructFromJSON(jb, jfresh); err != nil || !reflect.DeepEqual(jfresh, v) {
		bad("json-roundtrip", fmt.Sprintf("JSON round trip failed (%v)", err))
		return
	}
	c.Count("synthetic-json-roundtrips")
}

func runC15(c *mon.Ctx) {
	c.Rule("a flat struct with struct-kind field values (time.Time, big.Int, nested structs by value / pointer / in slices, map) compared with the plain marshallers and round-tripped; shapes following the claims convention (pointer-typed tagged fields, '-' for bookkeeping fields): flat; one and two levels of embedded struct; embedded interface holding a struct pointer, the struct by value (must serialise exactly like the pointer-holding twin) or nothing; all-optional flat and embedded; flat reflect.StructOf shapes with N synthetic keys, N (and number of set fields) in {0,1,22,23,24,25,254,255,256,257} (thorough: also 65534..65537, 70000); the two extension profiles built on P2Claims / P1Claims. For random field values x every subset of optional fields (mandatory fields set or nil): the output of SerializeStructToCBOR / JSON, read by the independent CBOR reader / a generic JSON parse, must be exactly one map = union of outer and embedded fields honouring omitempty and '-', right value per key, no duplicates, nothing trailing; serialising twice gives identical bytes; populating a fresh struct reproduces the value (incl. the all-empty one); for shapes without embedding the output decodes to the same map as the plain fxamacker / encoding/json marshaller's; removing a non-optional key makes populate fail (into a zero destination and into one that already holds values), removing an optional one does not; a duplicated CBOR key makes populate fail, also when the map is re-encoded as an indefinite-length / tagged / tagged indefinite-length / non-minimal-length map under the CBOR library's default decoding mode, while each of these forms without the duplicate populates to the same value. Extension profiles: MarshalCBOR/JSON of valid claims = base profile wire map + extension member, and round-trips. Every slice the serialisers return is kept and compared again after six further serialisations; the rich flat struct has optional fields whose tags list omitempty before other options. distinct_nontrivial = distinct (shape, set-field subset) signatures")
	if err := extprof.Register(extprof.ExtP2Name, extprof.ExtP1Name); err != nil {
		c.Violation("harness/register", err.Error(), nil)
		return
	}
	g := model.NewGen(c.Seed*3391 + int64(c.Shard))
	guard := func(what string, fn func()) {
		if pn, pv, fr := mon.Guard(fn); pn {
			c.Violation("C15/panic/"+mon.PanicKey(fr), "panic in the embedding-aware codec ("+what+")", map[string]any{"panic": pv, "frame": fr, "during": what})
		}
	}
	embeddedShape := map[string]bool{"Emb1": true, "Emb2": true, "EmbIface": true, "EmbIfaceNil": false, "EmbAllOptional": true}
	idx := 0
	for _, sn := range shapes.Names {
		proto := shapes.New(sn)
		fields := shapes.Fields(proto)
		nf := len(fields)
		// every subset of fields (set / nil), incl. mandatory ones being nil
		subsets := 1 << nf
		reps := 24
		if !c.Quick() {
			reps = 400
		}
		for mask := 0; mask < subsets; mask++ {
			idx++
			if !c.Mine(idx) {
				continue
			}
			for r := 0; r < reps; r++ {
				v := shapes.New(sn)
				shapes.Fill(g.R, v, func(i int, _ shapes.FieldInfo) bool { return mask&(1<<i) != 0 })
				sig := fmt.Sprintf("%s|mask=%0*b", sn, nf, mask)
				c.Sig(sig)
				c.Count("shape:" + sn)
				guard("cbor "+sig, func() { c15CBOR(c, g, sn, v, sig, embeddedShape[sn]) })
				guard("json "+sig, func() { c15JSON(c, g, sn, v, sig, embeddedShape[sn]) })
				if ei, ok := v.(*shapes.EmbIface); ok && sn == "EmbIface" {
					guard("iface-holding-value "+sig, func() { c15IfaceValue(c, ei, sig) })
				}
				if mask == subsets-1 && r == 0 {
					b, _ := encoding.SerializeStructToCBOR(extprof.EM, v)
					c.Sample("shape:"+sn, map[string]any{"shape": sn, "cbor_hex": mon.Hex(b)})
				}
			}
		}
	}
	// synthetic N-key shapes
	ns := []int{0, 1, 22, 23, 24, 25, 254, 255, 256, 257}
	if !c.Quick() {
		ns = append(ns, 65534, 65535, 65536, 65537, 70000)
	}
	for _, n := range ns {
		for _, fill := range []string{"all", "all-but-one", "half", "none"} {
			idx++
			if !c.Mine(idx) {
				continue
			}
			guard(fmt.Sprintf("synthetic n=%d %s", n, fill), func() { c15Synth(c, g, n, fill) })
		}
	}
	// header boundaries by number of *set* fields in a larger shape
	for _, set := range []int{23, 24, 255, 256} {
		idx++
		if !c.Mine(idx) {
			continue
		}
		n := set + 40
		guard("synthetic boundary", func() {
			v := shapes.NewSynth(n)
			rv := reflect.ValueOf(v).Elem()
			perm := g.R.Perm(n)
			for _, i := range perm[:set] {
				x := uint16(i)
				rv.Field(i).Set(reflect.ValueOf(&x))
			}
			b, err := encoding.SerializeStructToCBOR(extprof.EM, v)
			fresh := shapes.NewSynth(n)
			m, _, probs := cborMapOf(b)
			if err != nil || len(probs) > 0 || len(m) != set || encoding.PopulateStructFromCBOR(extprof.DM, b, fresh) != nil || !reflect.DeepEqual(fresh, v) {
				c.Violation(fmt.Sprintf("C15/synthetic/boundary/entries=%d", set), fmt.Sprintf("sparse shape with %d of %d fields set does not serialise/round-trip (%v %v)", set, n, err, probs), nil)
			}
			c.Count("synthetic-cbor-roundtrips")
			c.Eval()
		})
	}
	// extension profiles
	nE := c.N(40000, 1000000)
	for i := 0; i < nE; i++ {
		p := 1 + g.R.Intn(2)
		a := g.Valid(p)
		if i%2 == 0 {
			a, _ = g.ValidProduct(p)
		}
		var extKey int64
		var extNode *refcbor.Node
		extName, extJSON := "", ""
		if p == 2 {
			a.Canon, a.Profile = extprof.ExtP2Name, model.SP(extprof.ExtP2Name)
		} else {
			a.Canon = extprof.ExtP1Name
			a.Profile = model.SP(extprof.ExtP1Name)
		}
		x, err := obs.Build(a)
		if err != nil {
			continue
		}
		withExt := g.R.Intn(2) == 0
		switch t := x.(type) {
		case *extprof.ExtP2Claims:
			if withExt {
				ts := int64(g.R.Intn(1 << 40))
				if g.R.Intn(4) == 0 {
					ts = 0 // present-but-zero is not absent
				}
				t.Timestamp = &ts
				extKey, extNode, extName, extJSON = -75100, refcbor.I(ts), "timestamp", fmt.Sprint(ts)
			}
		case *extprof.ExtP1Claims:
			if withExt {
				s := g.NonEmptyText()
				if g.R.Intn(4) == 0 {
					s = "" // present-but-empty is not absent
				}
				t.Extra = &s
				jb, _ := json.Marshal(s)
				extKey, extNode, extName, extJSON = -75200, refcbor.Tstr(s), "x-extra", string(jb)
			}
		}
		sig := fmt.Sprintf("ext|P%d|%s|ext=%v", p, optSig(a), withExt)
		c.Sig(sig)
		guard("extension "+sig, func() {
			c.Eval()
			enc, err := psatoken.EncodeClaimsToCBOR(x)
			if err != nil {
				c.Violation("C15/extension/encode-failed/"+profName(a), "encoding valid extension claims failed: "+err.Error(), map[string]any{"sig": sig})
				return
			}
			// strip the extension member, the rest must be the base profile's wire map
			ast, rest, derr := refcbor.Decode(enc)
			if derr != nil || len(rest) != 0 || ast.K != refcbor.Map {
				c.Violation("C15/extension/not-one-map/"+profName(a), "extension profile output is not one map", map[string]any{"sig": sig, "hex": mon.Hex(enc)})
				return
			}
			base := refcbor.MapOf()
			var gotExt *refcbor.Node
			for j := 0; j+1 < len(ast.Items); j += 2 {
				if k, _ := ast.Items[j].Int64(); k == -75100 || k == -75200 {
					gotExt = ast.Items[j+1]
					continue
				}
				base.Items = append(base.Items, ast.Items[j], ast.Items[j+1])
			}
			if (gotExt == nil) != !withExt || (withExt && (!refcbor.Equal(gotExt, extNode))) {
				c.Violation("C15/extension/extension-member/"+profName(a), fmt.Sprintf("extension member %d wrong / missing / spurious", extKey), map[string]any{"sig": sig, "hex": mon.Hex(enc)})
				return
			}
			if probs := wireFormatProblems(a, refcbor.Encode(base)); len(probs) > 0 {
				c.Violation("C15/extension/base-members/"+profName(a)+"/"+probs[0], fmt.Sprintf("embedded base profile members are not merged correctly: %v", probs), map[string]any{"sig": sig, "hex": mon.Hex(enc), "expected": a.WireCBOR().Diag()})
				return
			}
			y := obs.Fresh(a)
			if err := y.(interface{ UnmarshalCBOR([]byte) error }).UnmarshalCBOR(enc); err != nil {
				c.Violation("C15/extension/roundtrip-failed/"+profName(a), "UnmarshalCBOR of own output failed: "+err.Error(), map[string]any{"sig": sig, "hex": mon.Hex(enc)})
				return
			}
			gx, gy := obs.Observe(x), obs.Observe(y)
			if d := model.ObsDiff(&gx, &gy); d != "" || fmt.Sprint(extOf(x)) != fmt.Sprint(extOf(y)) {
				c.Violation("C15/extension/roundtrip-differs/"+profName(a), "CBOR round trip of extension claims changed them: "+d, map[string]any{"sig": sig, "hex": mon.Hex(enc)})
				return
			}
			// JSON
			doc, err := psatoken.EncodeClaimsToJSON(x)
			if err != nil {
				c.Violation("C15/extension/json-encode-failed/"+profName(a), err.Error(), map[string]any{"sig": sig})
				return
			}
			extra := map[string]bool{}
			if withExt {
				extra[extName] = true
			}
			if probs := jsonProblems(a, doc, extra); len(probs) > 0 {
				c.Violation("C15/extension/json-members/"+profName(a)+"/"+probs[0], fmt.Sprintf("JSON form of extension claims deviates: %v", probs), map[string]any{"sig": sig, "json": string(doc)})
				return
			}
			var raw map[string]json.RawMessage
			_ = json.Unmarshal(doc, &raw)
			if withExt {
				var u, w any
				if json.Unmarshal(raw[extName], &u) != nil || json.Unmarshal([]byte(extJSON), &w) != nil || !reflect.DeepEqual(u, w) {
					c.Violation("C15/extension/json-extension-member/"+profName(a), "extension member wrong in JSON", map[string]any{"sig": sig, "json": string(doc)})
					return
				}
			} else if _, ok := raw["timestamp"]; ok {
				c.Violation("C15/extension/json-extension-member/"+profName(a), "absent extension member present in JSON", map[string]any{"sig": sig, "json": string(doc)})
				return
			}
			z := obs.Fresh(a)
			if err := z.(interface{ UnmarshalJSON([]byte) error }).UnmarshalJSON(doc); err != nil {
				c.Violation("C15/extension/json-roundtrip-failed/"+profName(a), "UnmarshalJSON of own output failed: "+err.Error(), map[string]any{"sig": sig, "json": string(doc)})
				return
			}
			gz := obs.Observe(z)
			if d := model.ObsDiff(&gx, &gz); d != "" || fmt.Sprint(extOf(x)) != fmt.Sprint(extOf(z)) {
				c.Violation("C15/extension/json-roundtrip-differs/"+profName(a), "JSON round trip of extension claims changed them: "+d, map[string]any{"sig": sig, "json": string(doc)})
				return
			}
			c.Count("extension-roundtrips:" + profName(a))
		})
	}
	var l []string
	for _, n := range ns {
		l = append(l, fmt.Sprint(n))
	}
	sort.Strings(l)
	c.Extra("synthetic_field_counts", l)
	c.Floor("cbor-roundtrips", 500)
	c.Floor("json-roundtrips", 500)
	c.Floor("cbor-all-empty-roundtrips", 2)
	c.Floor("cbor-plain-equivalence", 100)
	c.Floor("cbor-missing-mandatory-rejected", 100)
	for i := 0; i < c.N(300, 20000); i++ {
		var pn bool
		var pv string
		var fr string
		if pn, pv, fr = mon.Guard(func() { c15Rich(c, g) }); pn {
			c.Violation("C15/panic/"+mon.PanicKey(fr), "panic on a flat struct with struct-kind fields", map[string]any{"panic": pv, "frame": fr})
		}
	}
	c.Floor("rich-flat-structs", 100)
	c.Floor("cbor-duplicate-key-rejected", 100)
	c.Floor("interface-holding-value-twins", 100)
	c.Floor("synthetic-cbor-roundtrips", 30)
	c.Floor("extension-roundtrips:ExtP1", 500)
	c.Floor("extension-roundtrips:ExtP2", 500)
}

func extOf(x psatoken.IClaims) any {
	switch t := x.(type) {
	case *extprof.ExtP2Claims:
		if t.Timestamp != nil {
			return *t.Timestamp
		}
	case *extprof.ExtP1Claims:
		if t.Extra != nil {
			return *t.Extra
		}
	}
	return nil
}
