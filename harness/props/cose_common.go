package props

import (
	"crypto"
	"fmt"

	"github.com/veraison/psatoken"

	"verif/harness/extprof"
	"verif/harness/keys"
	"verif/harness/model"
	"verif/harness/mon"
	"verif/harness/obs"
	"verif/harness/refcbor"
	"verif/harness/refcose"
)

// signedTok is a token produced by the real library together with everything
// the monitors need to judge what is later done with it.
type signedTok struct {
	tok []byte
	env *refcose.Envelope
	key keys.Pair
	a   *model.Claims
	x   psatoken.IClaims
	ev  *psatoken.Evidence // the signing Evidence
}

// envelopeBytes assembles tag(array(items...)) with the independent encoder;
// tag < 0 means untagged.
func envelopeBytes(tag int64, items ...*refcbor.Node) []byte {
	n := refcbor.Arr(items...)
	if tag >= 0 {
		n = refcbor.Tagged(uint64(tag), n)
	}
	return refcbor.Encode(n)
}

// sign1Bytes assembles a tag-18 COSE_Sign1 from raw parts.
func sign1Bytes(protectedBS []byte, unprotected *refcbor.Node, payload, sig []byte) []byte {
	if unprotected == nil {
		unprotected = refcbor.MapOf()
	}
	return envelopeBytes(18, refcbor.Bstr(protectedBS), unprotected, refcbor.Bstr(payload), refcbor.Bstr(sig))
}

// genSignable yields a valid claims-set of P1, P2 or the registered P2-based
// extension (the P1-based extension cannot be selected by the CBOR dispatcher
// by design and is therefore not used for envelope round trips).
func genSignable(c *mon.Ctx, g *model.Gen) (validCase, bool) {
	vc, ok := genValidCase(c, g, false)
	if !ok {
		return vc, false
	}
	if vc.a.P == 2 && g.R.Intn(5) == 0 && vc.route != "decoded" {
		vc.a.Canon = extprof.ExtP2Name
		vc.a.Profile = model.SP(vc.a.Canon)
		x, err := obs.Build(vc.a)
		if err != nil {
			return vc, false
		}
		vc.x = x
		vc.sig = "ext|" + vc.sig
	}
	return vc, true
}

// signWith signs claims x with key k through the real library.
func signWith(x psatoken.IClaims, a *model.Claims, k keys.Pair, validating bool) (*signedTok, error) {
	ev := &psatoken.Evidence{Claims: x}
	var tok []byte
	var err error
	if validating {
		tok, err = ev.ValidateAndSign(k.Signer)
	} else {
		tok, err = ev.Sign(k.Signer)
	}
	if err != nil {
		return nil, err
	}
	env, perr := refcose.Parse(tok)
	if perr != nil {
		return &signedTok{tok: tok, key: k, a: a, x: x, ev: ev}, fmt.Errorf("independent reader: %w", perr)
	}
	return &signedTok{tok: tok, env: env, key: k, a: a, x: x, ev: ev}, nil
}

// libAccepts decodes a token with the library and verifies it under pk.
// It returns (decoded, verified, decodeErr, verifyErr).
func libAccepts(tok []byte, pk crypto.PublicKey) (ev *psatoken.Evidence, decoded, verified bool, derr, verr error) {
	ev, derr = psatoken.DecodeEvidenceFromCOSE(tok)
	if derr != nil {
		return nil, false, false, derr, nil
	}
	verr = ev.Verify(pk)
	return ev, true, verr == nil, nil, verr
}

// hookEnvelope reads the envelope held by an Evidence through hook H2 and
// returns the *content* of the protected bstr, the payload and the signature.
func hookEnvelope(ev *psatoken.Evidence) (present bool, protContent, payload, sig []byte, err error) {
	present, prot, payload, sig := ev.VerifEnvelope()
	if !present {
		return false, nil, nil, nil, nil
	}
	if len(prot) > 0 {
		n, derr := refcbor.DecodeAll(prot)
		if derr != nil || n.K != refcbor.Bytes {
			return true, nil, payload, sig, fmt.Errorf("hook: protected header is not a bstr: %x", prot)
		}
		protContent = n.B
	}
	return true, protContent, payload, sig, nil
}

// maybeExt turns (with probability 1/den) an abstract claims-set whose profile
// claim is canonical (or, for profile 1, absent) into the same set of the
// extension profile built on that base: same rules, other canonical name.
func maybeExt(g *model.Gen, a *model.Claims, den int) string {
	if g.R.Intn(den) != 0 {
		return ""
	}
	canonical := a.Profile != nil && *a.Profile == a.Canon
	switch {
	case a.P == 2 && canonical && a.Canon == model.P2Name:
		a.Canon, a.Profile = extprof.ExtP2Name, model.SP(extprof.ExtP2Name)
		return "|ext"
	case a.P == 1 && a.Canon == model.P1Name && (canonical || a.Profile == nil):
		a.Canon = extprof.ExtP1Name
		if a.Profile != nil {
			a.Profile = model.SP(extprof.ExtP1Name)
		}
		return "|ext"
	}
	return ""
}
