package props

import (
	"fmt"
	"strings"

	"github.com/veraison/psatoken"

	"verif/harness/model"
	"verif/harness/mon"
	"verif/harness/obs"
	"verif/harness/refcbor"
)

func init() { register("C01", runC01) }

// obsKey names the getters on which two observations differ (finding key part).
func obsKey(want, got *model.Obs) string {
	var parts []string
	if (want.Validate == model.OK) != (got.Validate == model.OK) {
		parts = append(parts, fmt.Sprintf("validate:%s->%s", want.Validate, got.Validate))
	}
	w, g := want.Getters(), got.Getters()
	for i := range w {
		if w[i].C != g[i].C {
			parts = append(parts, fmt.Sprintf("%s:%s->%s", model.GetterNames[i], w[i].C, g[i].C))
		} else if w[i].C == model.OK && w[i].V != g[i].V {
			parts = append(parts, model.GetterNames[i]+":value")
		}
	}
	return strings.Join(parts, ",")
}

// routes builds the real object of an abstract set in up to three ways.
// A route that cannot represent the set returns nil (and is counted).
func routes(c *mon.Ctx, a *model.Claims, g *model.Gen) map[string]psatoken.IClaims {
	out := map[string]psatoken.IClaims{}
	if o, err := obs.Build(a); err == nil {
		out["direct"] = o
	} else {
		c.Count("route-unbuildable:direct")
	}
	w := a.WireCBOR()
	// unrelated garbage under unknown keys must not matter
	for i := g.R.Intn(3); i > 0; i-- {
		w.Items = append(w.Items, refcbor.I(int64(5000+g.R.Intn(1000))), refcbor.Arr(refcbor.Tstr("junk"), refcbor.I(int64(g.R.Intn(100)))))
	}
	if o, err := obs.FromCBOR(a, refcbor.Encode(w)); err == nil {
		out["cbor"] = o
	} else {
		c.Count("route-undecodable:cbor")
	}
	ms := a.JSONMembers()
	if g.R.Intn(2) == 0 {
		ms = append(ms, model.Member{Name: "x-unknown", Value: `{"a":[1,2,null]}`})
	}
	if o, err := obs.FromJSON(a, model.MembersJSON(ms)); err == nil {
		out["json"] = o
	} else {
		c.Count("route-undecodable:json")
	}
	return out
}

func abstractSample(a *model.Claims) map[string]any {
	return map[string]any{"profile": a.P, "cbor_diag": a.WireCBOR().Diag()}
}

// checkAgainstModel compares the observation of every construction route with
// the reference model.
func checkAgainstModel(c *mon.Ctx, prop string, a *model.Claims, g *model.Gen, sig string) {
	want := a.Expect()
	var objs map[string]psatoken.IClaims
	if p, pv, fr := mon.Guard(func() { objs = routes(c, a, g) }); p {
		c.Violation(prop+"/panic/"+mon.PanicKey(fr), "panic while constructing the claims-set", map[string]any{"panic": pv, "frame": fr, "case": abstractSample(a), "sig": sig})
		return
	}
	for route, o := range objs {
		var got model.Obs
		if p, pv, fr := mon.Guard(func() { got = obs.Observe(o) }); p {
			c.Violation(prop+"/panic/"+mon.PanicKey(fr), "panic while validating / reading the claims-set", map[string]any{"panic": pv, "frame": fr, "case": abstractSample(a), "route": route, "sig": sig})
			continue
		}
		c.Eval()
		c.Count("route:" + route)
		if got.Validate == model.OK {
			c.Count("accepted")
		} else {
			c.Count("rejected")
		}
		if d := model.ObsDiff(&want, &got); d != "" {
			key := fmt.Sprintf("%s/P%d/%s", prop, a.P, obsKey(&want, &got))
			c.Violation(key, fmt.Sprintf("profile %d claims-set (%s, route %s): %s", a.P, sig, route, d),
				map[string]any{"route": route, "sig": sig, "case": abstractSample(a), "want": want.String(), "got": got.String(), "wire_hex": mon.Hex(refcbor.Encode(a.WireCBOR()))})
		}
	}
}

func runC01(c *mon.Ctx) {
	c.Rule("cases = abstract claims-sets: (a) exhaustive single-claim sweeps over every value class of every claim (byte lengths 0..80 and lengths congruent to the legal ones modulo 2^8 / 2^16 such as 288, 289, 304, 320, 65568, UEID type byte 0..255, full single-edit neighbourhood of both certification-reference formats, 80 component-field combinations) on an otherwise valid random set, (b) all claim pairs x sampled class pairs, (c) triples and random products, (d) history independence: a valid object is validated and read, rewritten IN PLACE to a single-claim variant (fields overwritten, components edited through the pointers the getter handed out), observed, rewritten back, observed; each case is realised by direct field assignment, by CBOR decoding and by JSON decoding (with unrelated unknown members) and Validate + all getters are compared with the reference predicate. The profile-2 profile classes contain every near-miss spelling of the canonical name that an eat.Profile can hold verbatim (host case, port, query, fragment, user-info, path variants); half of the generated certification references are drawn from three fixed digit strings so that the same reference recurs across objects and profiles within one process. distinct_nontrivial = distinct (profile, claim=class...) signatures that deviate from the all-valid vector")
	g := model.NewGen(c.Seed*977 + int64(c.Shard))
	idx := 0
	// (a) exhaustive sweeps
	for p := 1; p <= 2; p++ {
		for _, claim := range model.ClaimNames(p) {
			for _, v := range model.Variants(p, claim) {
				idx++
				if !c.Mine(idx) {
					continue
				}
				reps := 2
				if !c.Quick() {
					reps = 8
				}
				for r := 0; r < reps; r++ {
					a := g.Valid(p)
					ext := ""
					if claim != "profile" && r%2 == 1 {
						ext = maybeExt(g, a, 1) // same rules on the extension profile embedding this base
					}
					v.Apply(a, g)
					sig := fmt.Sprintf("P%d|%s=%s%s", p, claim, v.Name, ext)
					c.Sig(sig)
					c.Count("sweep-cases")
					checkAgainstModel(c, "C01", a, g, sig)
					if r == 0 && (v.Name == "len33" || v.Name == "ean13" || v.Name == "mixed3") {
						c.Sample("sweep", map[string]any{"sig": sig, "valid": a.Valid(), "case": abstractSample(a)})
					}
				}
			}
		}
		// UEID type byte 0..255
		for t := 0; t < 256; t++ {
			idx++
			if !c.Mine(idx) {
				continue
			}
			a := g.Valid(p)
			b := g.Bytes(33)
			b[0] = byte(t)
			a.InstID = &b
			sig := fmt.Sprintf("P%d|inst-id=type%d", p, t)
			c.Sig(sig)
			c.Count("sweep-cases")
			checkAgainstModel(c, "C01", a, g, sig)
		}
		// certification reference: full single-edit neighbourhood
		for fi, base := range []string{g.Digits(13), g.Digits(13) + "-" + g.Digits(5)} {
			for ni, s := range model.CertRefNeighbours(base) {
				idx++
				if !c.Mine(idx) {
					continue
				}
				a := g.Valid(p)
				s := s
				a.CertRef = &s
				sig := fmt.Sprintf("P%d|cert-ref=edit%d/%d", p, fi, ni)
				c.Sig(sig)
				c.Count("sweep-cases")
				c.Count("certref-neighbours")
				checkAgainstModel(c, "C01", a, g, sig)
			}
		}
	}
	// (b) pairs, (c) triples, random products
	n := c.N(400000, 8000000)
	for i := 0; i < n; i++ {
		p := 1 + g.R.Intn(2)
		var a *model.Claims
		var sig model.Sig
		switch i % 4 {
		case 0, 1:
			a, sig = g.Mutated(p, 2)
			c.Count("pair-cases")
		case 2:
			a, sig = g.Mutated(p, 3)
			c.Count("triple-cases")
		default:
			if i%8 == 3 {
				a, sig = g.RandomProduct(p)
			} else {
				a, sig = g.ValidProduct(p)
			}
			c.Count("product-cases")
		}
		s := fmt.Sprintf("P%d|%s%s", p, sig, maybeExt(g, a, 5))
		if len(sig) > 0 {
			c.Sig(s)
		}
		checkAgainstModel(c, "C01", a, g, s)
		if i < 2 {
			c.Sample("product", map[string]any{"sig": s, "valid": a.Valid(), "case": abstractSample(a)})
		}
	}
	// (d) "depends on nothing else": the verdict must be a function of the
	// claims-set as it is NOW, not of what was validated / read before. A valid
	// object is validated and read, then rewritten in place (exported fields;
	// components through the pointers GetSoftwareComponents handed out, keeping
	// the container object) into a single-claim variant, observed, rewritten
	// back, observed again.
	m := c.N(120000, 3000000)
	for i := 0; i < m; i++ {
		p := 1 + g.R.Intn(2)
		a := g.Valid(p)
		names := model.ClaimNames(p)
		claim := names[g.R.Intn(len(names))]
		if claim == "profile" {
			continue // the canonical name is bookkeeping of the implementation, not rewritten
		}
		vs := model.VariantsCached(p, claim)
		v := vs[g.R.Intn(len(vs))]
		b := a.Clone()
		v.Apply(b, g)
		sig := fmt.Sprintf("history|P%d|%s=%s", p, claim, v.Name)
		det := map[string]any{"sig": sig, "before": abstractSample(a), "after": abstractSample(b)}
		if pn, pv, fr := mon.Guard(func() {
			var x psatoken.IClaims
			var err error
			if i%2 == 0 && (a.NoMeas == nil || *a.NoMeas == 1) {
				x, err = obs.SetterBuild(a) // NewClaims + setters: shares whatever the factory shares
			} else {
				x, err = obs.Build(a)
			}
			if err != nil {
				c.Count("route-unbuildable:direct")
				return
			}
			first := obs.Observe(x) // Validate + every getter on the valid object
			wantA := a.Expect()
			if d := model.ObsDiff(&wantA, &first); d != "" {
				return // the plain sweeps report this
			}
			// nothing done to ANOTHER object of the same kind may matter either:
			// create a sibling the way x was created and scribble all over it
			if sib, serr := psatoken.NewClaims(a.Canon); serr == nil {
				if q := obs.P2Of(sib); q != nil {
					if q.Profile != nil {
						_ = q.Profile.Set("http://example.com/scribbled")
					}
					q.CanonicalProfile = "scribbled"
				} else if q := obs.P1Of(sib); q != nil {
					if q.Profile != nil {
						*q.Profile = "SCRIBBLED"
					}
					q.CanonicalProfile = "scribbled"
				}
				_ = sib.SetSecurityLifeCycle(0x3000)
				if q := obs.P2Of(sib); q != nil && q.SecurityLifeCycle != nil {
					*q.SecurityLifeCycle = 0xffff
				} else if q := obs.P1Of(sib); q != nil && q.SecurityLifeCycle != nil {
					*q.SecurityLifeCycle = 0xffff
				}
				if again := obs.Observe(x); model.ObsDiff(&wantA, &again) != "" {
					det["want"], det["got"] = wantA.String(), again.String()
					c.Violation(fmt.Sprintf("C01/sibling/P%d/%s", p, obsKey(&wantA, &again)), "the verdict / getters of a claims-set changed after ANOTHER claims-set of the same profile was created and modified", det)
					return
				}
				c.Count("history:sibling-scribbled")
			}
			retained, _ := x.GetSoftwareComponents()
			_, _ = psatoken.ValidateAndEncodeClaimsToCBOR(x)
			if err := obs.AssignInPlace(x, b, retained); err != nil {
				c.Count("route-unbuildable:in-place")
				return
			}
			c.Eval()
			got := obs.Observe(x)
			want := b.Expect()
			if d := model.ObsDiff(&want, &got); d != "" {
				det["want"], det["got"] = want.String(), got.String()
				c.Violation(fmt.Sprintf("C01/history/P%d/%s", p, obsKey(&want, &got)), "after a successful Validate the object was rewritten in place; the verdict / getters do not follow the current content: "+d, det)
				return
			}
			c.Count("history:rewritten-in-place")
			if got.Validate != model.OK {
				c.Count("history:valid-then-invalid")
			}
			// and back
			// the pointers handed out at the beginning are still the ones in
			// the container only if the first rewrite edited through them
			var retained2 []psatoken.ISwComponent
			if len(retained) > 0 && len(retained) == len(b.Comps) {
				retained2 = retained
			}
			if err := obs.AssignInPlace(x, a, retained2); err != nil {
				return
			}
			c.Eval()
			back := obs.Observe(x)
			if d := model.ObsDiff(&wantA, &back); d != "" {
				det["want"], det["got"] = wantA.String(), back.String()
				c.Violation(fmt.Sprintf("C01/history-back/P%d/%s", p, obsKey(&wantA, &back)), "object rewritten back to its valid content; the verdict / getters do not follow: "+d, det)
				return
			}
			c.Count("history:rewritten-back")
		}); pn {
			det["panic"], det["frame"] = pv, fr
			c.Violation("C01/panic/"+mon.PanicKey(fr), "panic while rewriting / validating an object in place", det)
		}
		c.Sig(sig)
	}
	c.Floor("history:valid-then-invalid", 1000)
	c.Floor("history:rewritten-back", 1000)
	c.Floor("accepted", 1000)
	c.Floor("rejected", 1000)
	c.Floor("certref-neighbours", 1000)
}
