package props

import (
	"context"
	"fmt"
	"os"
	"os/exec"
	"path/filepath"
	"reflect"
	"sort"
	"strings"
	"time"

	"github.com/veraison/psatoken"

	"verif/harness/extprof"
	"verif/harness/model"
	"verif/harness/mon"
	"verif/harness/obs"
	"verif/harness/refcbor"
)

func init() {
	register("C16", runC16)
	register("C16H", runC16History)
}

// runC16 is the shard driver: the register of a process cannot be reset, so
// every history runs in its own child process (this binary, sub-mode C16H).
func runC16(c *mon.Ctx) {
	c.Rule("one CHILD PROCESS per history (the register cannot be reset). A history is a seeded random sequence of 12..45 operations over: RegisterProfile(new name, P1- or P2-based - the latter also through a claims type embedding TWO structs, a mixin without profile field first and P2Claims second -, sharing the JSON profile member of its base) / re-register an existing name (base profiles, earlier extras) / register a profile whose claims type has no profile field (also: a field NAMED Profile that is a private-use claim under another CBOR key) / a profile-2 extension that adds such a field next to the embedded claims (must register with the inherited eat-profile member) / has no json tag on it (then register the same name properly) / whose profile field is identified by its name and followed by other fields (register snapshot must record THAT field's JSON member), NewClaims(registered | unregistered), DecodeClaimsFromCBOR / JSON (token of any known or not-yet-registered profile, documents declaring two profiles at once under the two profile members, and documents carrying a profile name under the OTHER base profile's member), mutate one instance (setters, writes through its pointer fields and byte slices, container Add/Replace, canonical-name overwrite), observe another. 0..8 extra profiles per history. Offline-style trace checker with model = set of successfully registered names: after EVERY registration attempt the register snapshot (hook H1) must equal the model (failed attempt: unchanged; successful: grown by exactly that entry) and a probe battery (NewClaims + CBOR decode + JSON decode for every name of the universe, registered or not) must be unchanged for every name other than the one just registered and must follow the model for that one; every created/decoded instance is a new pointer with its own container / profile pointers and its observation is unaffected by any mutation of another instance; every JSON dispatch is repeated 40x and all repetitions must agree on (error?, type, canonical profile, observation); hook H3 records the register visit order of each dispatch. An operation that is in flight for 20 s while its process uses no CPU ends the process (goroutine dump) and is reported as call-blocked-forever. Inconclusive if fewer than 2 distinct visit orders were seen. distinct_nontrivial = distinct operation-kind sequences")
	self, err := os.Executable()
	if err != nil {
		c.Inconclusive("cannot locate own executable: " + err.Error())
		return
	}
	n := c.N(1000, 4000) // thorough: race-detector build, one child process per history
	blocked := 0
	for i := 0; i < n && blocked < 3; i++ {
		hid := int64(i)*int64(c.NShards) + int64(c.Shard)
		dir := filepath.Join(c.OutDir, fmt.Sprintf("c16-%d-%d", c.Shard, i))
		_ = os.MkdirAll(dir, 0o755)
		ctx, cancel := context.WithTimeout(context.Background(), 120*time.Second)
		cmd := exec.CommandContext(ctx, self, "-prop", "C16H", "-tier", c.Tier, "-seed", fmt.Sprint(c.Seed), "-shard", fmt.Sprint(hid), "-nshards", "1", "-out", dir)
		out, rerr := cmd.CombinedOutput()
		timedOut := ctx.Err() == context.DeadlineExceeded
		cancel()
		found := c.MergeChild(dir)
		_ = os.RemoveAll(dir)
		c.Count("child-processes")
		switch {
		case timedOut:
			c.Inconclusive(fmt.Sprintf("history %d hit the wall-clock watchdog", hid))
		case !found && strings.Contains(string(out), "fatal error: call-blocked-forever"):
			head := string(out)
			if len(head) > 6000 {
				head = head[:6000]
			}
			blocked++
			c.Violation("C16/call-blocked-forever", fmt.Sprintf("an operation of history %d (registration / lookup / decode) never returned: the process was blocked without using CPU (goroutine dump in the replay)", hid), map[string]any{"history": hid, "output_head": head})
		case !found:
			tail := string(out)
			if len(tail) > 3000 {
				tail = tail[len(tail)-3000:]
			}
			c.Violation("C16/crash/history-process-died", fmt.Sprintf("the process running history %d died: %v", hid, rerr), map[string]any{"history": hid, "output_tail": tail})
		case rerr != nil && !strings.Contains(rerr.Error(), "exit status 66"):
			c.Inconclusive(fmt.Sprintf("history %d wrote its summary but exited with %v", hid, rerr))
		}
	}
	c.Floor("histories-completed", 100)
	c.Floor("registrations-ok", 200)
	c.Floor("registrations-refused:existing-name", 100)
	c.Floor("registrations-ok:two-embedded-structs", 10)
	c.Floor("registrations-refused:no-profile-field", 50)
	c.Floor("registrations-refused:no-json-tag", 50)
	c.Floor("registrations-ok:by-name", 30)
	c.Floor("json-dispatch-repetitions", 10000)
	c.Floor("instances-created", 2000)
	c.Floor("mutations", 1000)
	c.Floor("histories-with-several-visit-orders", 50)
}

// ---- one history ---------------------------------------------------------------------------------

type c16Cand struct {
	name string
	base int
	cbor []byte
	json []byte
}

type c16Inst struct {
	x    psatoken.IClaims
	how  string
	obs  string
	ptrs []uintptr
}

func p1Of(x psatoken.IClaims) *psatoken.P1Claims {
	switch t := x.(type) {
	case *psatoken.P1Claims:
		return t
	case *extprof.ExtP1Claims:
		return &t.P1Claims
	}
	return nil
}

func p2Of(x psatoken.IClaims) *psatoken.P2Claims {
	switch t := x.(type) {
	case *psatoken.P2Claims:
		return t
	case *extprof.ExtP2Claims:
		return &t.P2Claims
	case *extprof.MixinClaims:
		return &t.P2Claims
	}
	return nil
}

// innerPointers lists the addresses of everything mutable an instance
// points to (container, profile, byte slices, scalars).
func innerPointers(x psatoken.IClaims) []uintptr {
	var out []uintptr
	add := func(v reflect.Value) {
		switch v.Kind() {
		case reflect.Pointer:
			if !v.IsNil() {
				out = append(out, v.Pointer())
				if e := v.Elem(); e.Kind() == reflect.Slice && e.Len() > 0 {
					out = append(out, e.Pointer())
				}
			}
		case reflect.Interface:
			if !v.IsNil() && v.Elem().Kind() == reflect.Pointer {
				out = append(out, v.Elem().Pointer())
			}
		}
	}
	var rv reflect.Value
	if p := p1Of(x); p != nil {
		rv = reflect.ValueOf(p).Elem()
	} else if p := p2Of(x); p != nil {
		rv = reflect.ValueOf(p).Elem()
	} else {
		return nil
	}
	for i := 0; i < rv.NumField(); i++ {
		add(rv.Field(i))
	}
	return out
}

func obsString(x psatoken.IClaims) string {
	o := obs.Observe(x)
	enc, err := psatoken.EncodeClaimsToCBOR(x)
	return fmt.Sprintf("%s|%s|enc=%x|%v", canonicalOf(x), o.String(), enc, err != nil)
}

func runC16History(c *mon.Ctx) {
	// every operation of a history takes micro- to milliseconds; one that is in
	// flight for 10 s while the process uses no CPU waits for something nobody
	// will provide (a lock left locked) - the process then ends itself with a
	// goroutine dump and the parent reports it
	mon.SetBlockedWall(20 * time.Second)
	mon.StartWatchdog(60*time.Second, "cpu-bound-exceeded")
	hid := int64(c.Shard)
	g := model.NewGen(c.Seed*99991 + hid*7 + 3)
	var trace []string
	fail := func(key, what string, extra map[string]any) {
		d := map[string]any{"history_id": hid, "history": append([]string{}, trace...)}
		for k, v := range extra {
			d[k] = v
		}
		c.Violation("C16/"+key, what, d)
	}
	// visit orders through hook H3
	var curOrder []string
	psatoken.VerifSetObserver(func(ev, detail string) {
		if ev == "json-dispatch-visit" {
			curOrder = append(curOrder, detail)
		}
	})
	orders := map[string]bool{}

	// universe of names
	nExtra := g.R.Intn(9)
	var cands []*c16Cand
	mk := func(name string, base int) *c16Cand {
		content := base
		if base == 3 {
			content = 2 // profile 2 through the two-embedded-structs claims type
		}
		a := g.Valid(content)
		a.Canon, a.Profile = name, model.SP(name)
		return &c16Cand{name: name, base: base, cbor: refcbor.Encode(a.WireCBOR()), json: a.WireJSON()}
	}
	shareAll := g.R.Intn(2) == 0
	for i := 0; i < 8; i++ {
		base := 2
		if !shareAll && g.R.Intn(2) == 0 {
			base = 1
		}
		if base == 2 {
			if i >= 2 && g.R.Intn(3) == 0 {
				base = 3
			}
			name := fmt.Sprintf("http://example.com/h%d/p%d", hid%1000, i)
			if i == 3 || i == 5 {
				// a character a JSON encoder may write as \u0026 (same string value)
				name += "?family=a&rev=2"
			}
			cands = append(cands, mk(name, base))
		} else {
			cands = append(cands, mk(fmt.Sprintf("PSA_IOT_PROFILE_1_H%d", i), 1))
		}
	}
	// two candidates whose names are distinct strings but the same URI to a normalising comparison
	if g.R.Intn(2) == 0 {
		cands[1] = mk(strings.Replace(cands[0].name, "http://", "HTTP://", 1), 2)
		if cands[0].base != 2 {
			cands[0] = mk(fmt.Sprintf("http://example.com/h%d/p0", hid%1000), 2)
			cands[1] = mk(fmt.Sprintf("HTTP://example.com/h%d/p0", hid%1000), 2)
		}
	}
	universe := append([]*c16Cand{mk(model.P1Name, 1), mk(model.P2Name, 2), mk("http://example.com/never-registered", 2), mk("PSA_IOT_PROFILE_NEVER", 1)}, cands...)
	{
		// documents with one profile member null and the other naming an unregistered profile
		a := g.Valid(1)
		a.Profile = nil
		ms := append(a.JSONMembers(), model.Member{Name: "psa-profile", Value: "null"}, model.Member{Name: "eat-profile", Value: `"http://example.com/never-registered"`})
		universe = append(universe, &c16Cand{name: "(psa-profile null, eat-profile unregistered)", base: 1, cbor: refcbor.Encode(a.WireCBOR()), json: model.MembersJSON(ms)})
		ms2 := append(a.JSONMembers(), model.Member{Name: "eat-profile", Value: "null"}, model.Member{Name: "psa-profile", Value: `"PSA_IOT_PROFILE_NEVER"`})
		universe = append(universe, &c16Cand{name: "(eat-profile null, psa-profile unregistered)", base: 1, cbor: refcbor.Encode(a.WireCBOR()), json: model.MembersJSON(ms2)})
		ms3 := append(a.JSONMembers(), model.Member{Name: "eat-profile", Value: "null"}, model.Member{Name: "psa-profile", Value: "null"})
		universe = append(universe, &c16Cand{name: "(both profile members null)", base: 1, cbor: refcbor.Encode(a.WireCBOR()), json: model.MembersJSON(ms3)})
	}
	{
		// documents that declare a profile under BOTH profile members: whatever the outcome
		// is (error, or one of the two), it must be the same on every call
		a := g.Valid(1)
		a.Profile = model.SP(model.P1Name)
		both := func(name, eat string) {
			ms := append(a.JSONMembers(), model.Member{Name: "eat-profile", Value: `"` + eat + `"`})
			w := a.WireCBOR()
			w.Items = append(w.Items, refcbor.I(model.P2KProfile), refcbor.Tstr(eat))
			universe = append(universe, &c16Cand{name: name, base: 1, cbor: refcbor.Encode(w), json: model.MembersJSON(ms)})
		}
		both("(P1 and P2 declared)", model.P2Name)
		for _, cd := range cands[:3] {
			if cd.base == 2 {
				both("(P1 and "+cd.name+" declared)", cd.name)
			}
		}
	}
	{
		// documents declaring TWO different profiles neither of which is profile 1: a
		// P1-based candidate under psa-profile and a P2-based name under eat-profile
		var p1c, p2c *c16Cand
		for _, cd := range cands {
			if cd.base == 1 && p1c == nil {
				p1c = cd
			}
			if cd.base == 2 && p2c == nil {
				p2c = cd
			}
		}
		if p1c != nil {
			a := g.Valid(1)
			a.Canon, a.Profile = p1c.name, model.SP(p1c.name)
			for _, other := range []string{model.P2Name, func() string {
				if p2c != nil {
					return p2c.name
				}
				return model.P2Name
			}()} {
				ms := append(a.JSONMembers(), model.Member{Name: "eat-profile", Value: `"` + other + `"`})
				w := a.WireCBOR()
				w.Items = append(w.Items, refcbor.I(model.P2KProfile), refcbor.Tstr(other))
				universe = append(universe, &c16Cand{name: "(" + p1c.name + " and " + other + " declared)", base: 1, cbor: refcbor.Encode(w), json: model.MembersJSON(ms)})
			}
		}
	}
	{
		// documents that carry a (registered or not-yet-registered) profile NAME under
		// the profile member of the OTHER base profile: no (member, value) pair of the
		// register matches, whatever gets registered later under its proper member
		cross := func(name string, base int) {
			a := g.Valid(base)
			a.Canon, a.Profile = name, nil
			other := "psa-profile"
			if base == 1 {
				other = "eat-profile"
			}
			ms := append(a.JSONMembers(), model.Member{Name: other, Value: `"` + name + `"`})
			universe = append(universe, &c16Cand{name: "(cross-member: " + name + " under " + other + ")", base: base, cbor: refcbor.Encode(a.WireCBOR()), json: model.MembersJSON(ms)})
		}
		cross(model.P1Name, 1)
		cross(model.P2Name, 2)
		for _, cd := range cands[:4] {
			b := cd.base
			if b == 3 {
				b = 2
			}
			cross(cd.name, b)
		}
	}
	{
		// documents without an exactly spelled profile member but with several CASE
		// VARIANTS of it carrying different values: member names are case-sensitive,
		// so these declare nothing - and whatever the outcome is, it is the same on
		// every call
		for vi, variant := range [][2][2]string{
			{{"Eat-Profile", model.P2Name}, {"EAT-PROFILE", "http://example.com/never-registered"}},
			{{"Psa-Profile", model.P1Name}, {"PSA-PROFILE", "PSA_IOT_PROFILE_NEVER"}},
			{{"EAT-profile", cands[0].name}, {"eat-Profile", model.P2Name}},
		} {
			a := g.Valid(1 + vi%2)
			a.Profile = nil
			ms := append(a.JSONMembers(), model.Member{Name: variant[0][0], Value: `"` + variant[0][1] + `"`}, model.Member{Name: variant[1][0], Value: `"` + variant[1][1] + `"`})
			universe = append(universe, &c16Cand{name: fmt.Sprintf("(profile member only in case variants #%d)", vi), base: 1 + vi%2, cbor: refcbor.Encode(a.WireCBOR()), json: model.MembersJSON(ms)})
		}
	}
	{
		// a P1 token without explicit profile
		a := g.Valid(1)
		a.Profile = nil
		universe = append(universe, &c16Cand{name: "(no profile claim)", base: 1, cbor: refcbor.Encode(a.WireCBOR()), json: a.WireJSON()})
	}

	// model
	type entry struct{ typ, tag string }
	reg := map[string]entry{}
	for name, v := range psatoken.VerifProfileRegister() {
		reg[name] = entry{v[0], v[1]}
	}
	if len(reg) != 3 {
		fail("initial-register", fmt.Sprintf("a fresh process has %d register entries, expected \"\", P1, P2", len(reg)), nil)
	}
	checkSnapshot := func(after string) bool {
		snap := psatoken.VerifProfileRegister()
		ok := len(snap) == len(reg)
		for name, e := range reg {
			if v, present := snap[name]; !present || v[0] != e.typ || v[1] != e.tag {
				ok = false
			}
		}
		if !ok {
			fail("register-snapshot-differs/"+after, fmt.Sprintf("register snapshot %v differs from the model %v", snap, reg), nil)
		}
		return ok
	}
	// probes
	decodeJSONRepeated := func(doc []byte, reps int) (string, bool) {
		first := ""
		for r := 0; r < reps; r++ {
			curOrder = curOrder[:0]
			x, err := psatoken.DecodeClaimsFromJSON(doc)
			orders[strings.Join(curOrder, ",")] = true
			c.Count("json-dispatch-repetitions")
			res := "error"
			if err == nil {
				res = fmt.Sprintf("%T|%s", x, obsString(x))
			}
			if r == 0 {
				first = res
			} else if res != first {
				fail("json-dispatch-order-dependent", fmt.Sprintf("repeating the same JSON dispatch gave different outcomes: %.200s vs %.200s", first, res), map[string]any{"json": string(doc), "visit_order": strings.Join(curOrder, ",")})
				return first, false
			}
		}
		return first, true
	}
	probe := func(reps int) (map[string]string, bool) {
		out := map[string]string{}
		for _, u := range universe {
			if x, err := psatoken.NewClaims(u.name); err != nil {
				out["new|"+u.name] = "error"
			} else {
				out["new|"+u.name] = fmt.Sprintf("%T|%s", x, obsString(x))
			}
			if x, err := psatoken.DecodeClaimsFromCBOR(u.cbor); err != nil {
				out["cbor|"+u.name] = "error"
			} else {
				out["cbor|"+u.name] = fmt.Sprintf("%T|%s", x, obsString(x))
			}
			r, ok := decodeJSONRepeated(u.json, reps)
			if !ok {
				return out, false
			}
			out["json|"+u.name] = r
		}
		c.Count("probe-batteries")
		return out, true
	}
	typeFor := func(base int) string {
		if base == 1 {
			return "*extprof.ExtP1Claims"
		}
		if base == 3 {
			return "*extprof.MixinClaims"
		}
		return "*extprof.ExtP2Claims"
	}
	last, ok := probe(40)
	if !ok {
		return
	}
	var insts []*c16Inst
	addInst := func(x psatoken.IClaims, how string) bool {
		in := &c16Inst{x: x, how: how, obs: obsString(x), ptrs: innerPointers(x)}
		for _, o := range insts {
			if reflect.ValueOf(o.x).Pointer() == reflect.ValueOf(x).Pointer() {
				fail("instance-not-fresh", fmt.Sprintf("%s returned the same object as an earlier %s", how, o.how), nil)
				return false
			}
			for _, p := range in.ptrs {
				for _, q := range o.ptrs {
					if p == q {
						fail("instances-share-state", fmt.Sprintf("%s returned an instance that shares a pointer (container / profile / value) with the result of an earlier %s", how, o.how), nil)
						return false
					}
				}
			}
		}
		insts = append(insts, in)
		c.Count("instances-created")
		return true
	}
	othersUnchanged := func(except *c16Inst, after string) bool {
		for _, o := range insts {
			if o == except {
				continue
			}
			if now := obsString(o.x); now != o.obs {
				fail("instance-affected-by-other/"+after, fmt.Sprintf("an instance obtained by %s changed after %s on ANOTHER instance", o.how, after), map[string]any{"before": o.obs, "after": now})
				return false
			}
		}
		return true
	}

	nOps := 12 + g.R.Intn(34)
	registered := 0
	kinds := ""
	for step := 0; step < nOps; step++ {
		opk := g.R.Intn(10)
		stop := false
		mon.CallBegin(fmt.Sprintf("history-operation-kind-%d", opk))
		pn, pv, fr := mon.Guard(func() {
			switch {
			case opk <= 2: // registration attempts
				kind := g.R.Intn(5)
				var p psatoken.IProfile
				var name, what string
				expectOK := false
				switch {
				case kind == 0 && registered < nExtra: // new
					var cd *c16Cand
					for _, x := range cands {
						if _, in := reg[x.name]; !in {
							cd = x
							break
						}
					}
					if cd == nil {
						return
					}
					p, name, what, expectOK = extprof.NumberedProfile{Name: cd.name, Base: cd.base}, cd.name, "new", true
				case kind == 1: // existing base profile names
					name = []string{model.P1Name, model.P2Name, ""}[g.R.Intn(3)]
					p, what = extprof.NumberedProfile{Name: name, Base: 1 + g.R.Intn(2)}, "existing-name"
					if name == "" {
						p = extprof.NumberedProfile{Name: "", Base: 1}
					}
				case kind == 2: // an earlier extra again (possibly with the other base)
					var names []string
					for n := range reg {
						if n != "" && n != model.P1Name && n != model.P2Name {
							names = append(names, n)
						}
					}
					if len(names) == 0 {
						return
					}
					sort.Strings(names)
					name = names[g.R.Intn(len(names))]
					p, what = extprof.NumberedProfile{Name: name, Base: 1 + g.R.Intn(2)}, "existing-name"
				case kind == 3 && g.R.Intn(3) == 0:
					// a well-formed but unusual profile: its profile field is found by NAME and is not the last field
					name = fmt.Sprintf("http://example.com/by-name/%d", step)
					p, what, expectOK = extprof.ByNameProfile{Name: name}, "by-name", true
					if g.R.Intn(2) == 0 {
						// extends profile 2 and adds a private-use claim in a field NAMED Profile:
						// the profile member is still the inherited eat-profile
						name = fmt.Sprintf("http://example.com/shadow/%d", step)
						p, what = extprof.ShadowProfile{Name: name}, "shadow"
					}
				case kind == 3:
					name = fmt.Sprintf("http://example.com/defective/%d", step)
					if g.R.Intn(2) == 0 {
						for _, x := range cands {
							if _, in := reg[x.name]; !in {
								name = x.name // a later proper registration of this name must still work
								break
							}
						}
					}
					p, what = extprof.NoProfileFieldProfile{Name: name}, "no-profile-field"
				default:
					name = fmt.Sprintf("http://example.com/defective/%d", step)
					if g.R.Intn(2) == 0 {
						for _, x := range cands {
							if _, in := reg[x.name]; !in {
								name = x.name
								break
							}
						}
					}
					p, what = extprof.NoJSONTagProfile{Name: name}, "no-json-tag"
					if g.R.Intn(3) == 0 {
						// a field named Profile that is a private-use claim (other CBOR key): no profile field
						p, what = extprof.DeviceProfileProfile{Name: name}, "no-profile-field"
					} else if g.R.Intn(3) == 0 {
						// a claim whose CBOR key merely starts with the digits of the profile key
						p, what = extprof.PrefixKeyProfile{Name: name}, "no-profile-field"
					}
				}
				if p == nil {
					return
				}
				err := psatoken.RegisterProfile(p)
				trace = append(trace, fmt.Sprintf("Register(%s %q) -> err=%v", what, name, err != nil))
				kinds += "R" + what[:2]
				c.Eval()
				if expectOK != (err == nil) {
					fail("registration-outcome/"+what, fmt.Sprintf("RegisterProfile(%s %q) returned %v", what, name, err), nil)
					stop = true
					return
				}
				if err == nil && what == "by-name" {
					// a document declaring this profile under the member the register recorded
					// for it is dispatched to IT (whatever that type's decoder then makes of
					// it) - not treated as a profile-less, i.e. profile-1, document
					doc := []byte(`{"` + extprof.ByNameJSONTag + `":"` + name + `","psa-client-id":1}`)
					if x, derr := psatoken.DecodeClaimsFromJSON(doc); derr == nil {
						if _, isP1 := x.(*psatoken.P1Claims); isP1 {
							fail("own-member-name-ignored/by-name", fmt.Sprintf("a document declaring %q under its registered member %q was decoded as profile 1", name, extprof.ByNameJSONTag), nil)
							stop = true
							return
						}
					}
					c.Count("own-member-name-dispatches")
					reg[name] = entry{"extprof.ByNameProfile", extprof.ByNameJSONTag}
					c.Count("registrations-ok")
					c.Count("registrations-ok:by-name")
				} else if err == nil && what == "shadow" {
					reg[name] = entry{"extprof.ShadowProfile", "eat-profile"}
					c.Count("registrations-ok")
					c.Count("registrations-ok:shadowed-profile-field")
				} else if err == nil {
					np := p.(extprof.NumberedProfile)
					tag := "eat-profile"
					if np.Base == 1 {
						tag = "psa-profile"
					}
					reg[name] = entry{"extprof.NumberedProfile", tag}
					registered++
					c.Count("registrations-ok")
				} else {
					c.Count("registrations-refused:" + what)
				}
				if !checkSnapshot(what) {
					stop = true
					return
				}
				now, ok := probe(40)
				if !ok {
					stop = true
					return
				}
				for k, v := range now {
					// tokens declaring the registered profile (alone or next to another one) are the ones that may change
					affected := err == nil && (strings.HasSuffix(k, "|"+name) || strings.Contains(k, " and "+name+" declared)") || strings.Contains(k, "("+name+" and "))
					if !affected && last[k] != v {
						fail("lookup-changed-by-registration/"+what+"/"+strings.SplitN(k, "|", 2)[0], fmt.Sprintf("after Register(%s %q) the outcome of %s changed: %.160s -> %.160s", what, name, k, last[k], v), nil)
						stop = true
						return
					}
				}
				if err == nil && what != "by-name" && what != "shadow" {
					np := p.(extprof.NumberedProfile)
					want := typeFor(np.Base)
					if !strings.HasPrefix(now["new|"+name], want+"|"+name+"|") {
						fail("new-profile-not-effective/NewClaims", fmt.Sprintf("after registering %q NewClaims gives %.120s", name, now["new|"+name]), nil)
						stop = true
						return
					}
					if !strings.HasPrefix(now["json|"+name], want+"|"+name+"|") {
						fail("new-profile-not-effective/json", fmt.Sprintf("after registering %q JSON decoding of its token gives %.120s", name, now["json|"+name]), nil)
						stop = true
						return
					}
					if np.Base == 3 {
						c.Count("registrations-ok:two-embedded-structs")
					}
					if np.Base >= 2 && !strings.HasPrefix(now["cbor|"+name], want+"|"+name+"|") {
						fail("new-profile-not-effective/cbor", fmt.Sprintf("after registering %q CBOR decoding of its token gives %.120s", name, now["cbor|"+name]), nil)
						stop = true
						return
					}
				}
				last = now
			case opk <= 4: // NewClaims
				u := universe[g.R.Intn(len(universe))]
				x, err := psatoken.NewClaims(u.name)
				_, isReg := reg[u.name]
				trace = append(trace, fmt.Sprintf("NewClaims(%q) -> err=%v", u.name, err != nil))
				kinds += "N"
				c.Eval()
				if isReg != (err == nil) {
					fail("newclaims-vs-model", fmt.Sprintf("NewClaims(%q) err=%v, registered in model: %v", u.name, err, isReg), nil)
					stop = true
					return
				}
				if err == nil && !addInst(x, "NewClaims("+u.name+")") {
					stop = true
				}
			case opk <= 6: // decode
				u := universe[g.R.Intn(len(universe))]
				var x psatoken.IClaims
				var err error
				how := ""
				if g.R.Intn(2) == 0 {
					x, err = psatoken.DecodeClaimsFromCBOR(append([]byte{}, u.cbor...))
					how = "DecodeClaimsFromCBOR(" + u.name + ")"
					kinds += "C"
				} else {
					x, err = psatoken.DecodeClaimsFromJSON(append([]byte{}, u.json...))
					how = "DecodeClaimsFromJSON(" + u.name + ")"
					kinds += "J"
				}
				trace = append(trace, fmt.Sprintf("%s -> err=%v", how, err != nil))
				c.Eval()
				if err == nil && !addInst(x, how) {
					stop = true
				}
			case opk <= 8: // mutate one instance
				if len(insts) == 0 {
					return
				}
				in := insts[g.R.Intn(len(insts))]
				m := g.R.Intn(12)
				desc := ""
				switch m {
				case 0:
					_ = in.x.SetClientID(int32(g.R.Intn(100000)))
					desc = "SetClientID"
				case 1:
					_ = in.x.SetNonce(g.Bytes(g.HashLen()))
					desc = "SetNonce"
				case 2:
					_ = in.x.SetImplID(g.Bytes(32))
					desc = "SetImplID"
				case 3:
					cp := g.ValidComp()
					_ = in.x.SetSoftwareComponents([]psatoken.ISwComponent{obs.RealComp(&cp)})
					desc = "SetSoftwareComponents"
				case 4:
					_ = in.x.SetVSI("https://example.com/" + g.Digits(5))
					desc = "SetVSI"
				case 5:
					_ = in.x.SetInstID(g.InstID())
					desc = "SetInstID"
				case 6:
					lc := g.Lifecycle()
					if g.R.Intn(2) == 0 {
						lc &= 0xff00 // the "base" value of a state
					}
					_ = in.x.SetSecurityLifeCycle(lc)
					desc = "SetSecurityLifeCycle"
				case 7: // write through pointer fields
					desc = "write-through-pointers"
					if p := p1Of(in.x); p != nil {
						if p.SecurityLifeCycle != nil {
							*p.SecurityLifeCycle = 0xfff0
						}
						if p.BootSeed != nil && len(*p.BootSeed) > 0 {
							(*p.BootSeed)[0] ^= 0xff
						}
						if p.CertificationReference != nil {
							*p.CertificationReference = "overwritten"
						}
						if p.InstID != nil && len(*p.InstID) > 1 {
							(*p.InstID)[1] ^= 0xff
						}
						if p.NoSwMeasurements != nil {
							*p.NoSwMeasurements = 7
						}
						if p.ClientID != nil {
							*p.ClientID ^= 0x55
						}
						if p.ImplID != nil && len(*p.ImplID) > 0 {
							(*p.ImplID)[0] ^= 0xff
						}
						if p.Nonce != nil && len(*p.Nonce) > 0 {
							(*p.Nonce)[len(*p.Nonce)-1] ^= 0xff
						}
						if p.Profile != nil {
							*p.Profile += "x"
						}
						if p.VSI != nil {
							*p.VSI = "overwritten"
						}
					} else if p := p2Of(in.x); p != nil {
						if p.SecurityLifeCycle != nil {
							*p.SecurityLifeCycle = 0xfff0
						}
						if p.BootSeed != nil && len(*p.BootSeed) > 0 {
							(*p.BootSeed)[0] ^= 0xff
						}
						if p.CertificationReference != nil {
							*p.CertificationReference = "overwritten"
						}
						if p.VSI != nil {
							*p.VSI = "overwritten"
						}
						if p.ClientID != nil {
							*p.ClientID ^= 0x55
						}
						if p.ImplID != nil && len(*p.ImplID) > 0 {
							(*p.ImplID)[0] ^= 0xff
						}
						if p.InstID != nil && len(*p.InstID) > 1 {
							(*p.InstID)[1] ^= 0xff
						}
						if p.Profile != nil {
							_ = p.Profile.Set("http://example.com/overwritten")
						}
					}
				case 8: // container Add
					desc = "container.Add"
					cp := g.ValidComp()
					if p := p1Of(in.x); p != nil && p.SwComponents != nil {
						_ = p.SwComponents.Add(obs.RealComp(&cp))
					} else if p := p2Of(in.x); p != nil && p.SwComponents != nil {
						_ = p.SwComponents.Add(obs.RealComp(&cp))
					}
				case 9: // container Replace with nothing
					desc = "container.Replace(empty)"
					if p := p1Of(in.x); p != nil && p.SwComponents != nil {
						_ = p.SwComponents.Replace(nil)
					} else if p := p2Of(in.x); p != nil && p.SwComponents != nil {
						_ = p.SwComponents.Replace(nil)
					}
				case 10:
					desc = "overwrite-canonical-name"
					if p := p1Of(in.x); p != nil {
						p.CanonicalProfile = "zzz"
					} else if p := p2Of(in.x); p != nil {
						p.CanonicalProfile = "zzz"
					}
				default: // mutate the components the getter hands out
					desc = "mutate-returned-components"
					if scs, err := in.x.GetSoftwareComponents(); err == nil {
						for _, sc := range scs {
							_ = sc.SetVersion("9.9.9")
						}
					}
				}
				trace = append(trace, fmt.Sprintf("Mutate(#%d from %s: %s)", indexOf(insts, in), in.how, desc))
				kinds += "M"
				c.Count("mutations")
				c.Count("mutation:" + desc)
				c.Eval()
				in.obs = obsString(in.x)
				in.ptrs = innerPointers(in.x)
				// what a setter stored must be this instance's own storage too
				for _, o := range insts {
					if o == in {
						continue
					}
					for _, pp := range in.ptrs {
						for _, qq := range o.ptrs {
							if pp == qq {
								fail("instances-share-state-after-mutation/"+desc, fmt.Sprintf("after %s an instance (from %s) shares a pointer with another instance (from %s)", desc, in.how, o.how), nil)
								stop = true
								return
							}
						}
					}
				}
				if !othersUnchanged(in, desc) {
					stop = true
					return
				}
				// a mutated instance must not influence what the library hands out afterwards
				now, ok := probe(3)
				if !ok {
					stop = true
					return
				}
				for k, v := range now {
					if last[k] != v {
						fail("lookup-changed-by-instance-mutation/"+desc, fmt.Sprintf("after %s on an instance the outcome of %s changed: %.160s -> %.160s", desc, k, last[k], v), nil)
						stop = true
						return
					}
				}
			default: // observe
				if len(insts) == 0 {
					return
				}
				in := insts[g.R.Intn(len(insts))]
				kinds += "O"
				c.Eval()
				if now := obsString(in.x); now != in.obs {
					fail("instance-changed-spontaneously", "an instance changed although nothing touched it", map[string]any{"before": in.obs, "after": now, "instance": in.how})
					stop = true
				}
			}
		})
		mon.CallEnd()
		if pn {
			fail("panic/"+mon.PanicKey(fr), "panic during a registry history", map[string]any{"panic": pv, "frame": fr})
			return
		}
		if stop {
			return
		}
	}
	psatoken.VerifSetObserver(nil)
	c.Sig(kinds)
	c.Count("histories-completed")
	c.Add("visit-orders-distinct-sum", int64(len(orders)))
	if len(orders) >= 2 {
		c.Count("histories-with-several-visit-orders")
	}
	c.SetAdd("extras_registered_per_history", fmt.Sprint(registered))
	if hid < 2 {
		c.Sample("history", map[string]any{"history_id": hid, "ops": trace, "distinct_visit_orders": len(orders)})
	}
}

func indexOf(l []*c16Inst, x *c16Inst) int {
	for i, y := range l {
		if y == x {
			return i
		}
	}
	return -1
}
