package props

import (
	"bytes"
	"crypto/rand"
	"fmt"

	"github.com/veraison/psatoken"

	"verif/harness/extprof"
	"verif/harness/keys"
	"verif/harness/model"
	"verif/harness/mon"
	"verif/harness/obs"
	"verif/harness/refcbor"
	"verif/harness/refcose"
)

func init() { register("C03", runC03) }

var coseAlgID = map[string]int64{"ES256": refcose.AlgES256, "ES384": refcose.AlgES384, "ES512": refcose.AlgES512,
	"EdDSA": refcose.AlgEdDSA, "PS256": refcose.AlgPS256, "PS384": refcose.AlgPS384, "PS512": refcose.AlgPS512}

func runC03(c *mon.Ctx) {
	c.Rule("(a) valid claims-sets of both profiles and of a registered profile-2 extension (all optional subsets, hash sizes, 1-4 components, P1 flag or list, with/without explicit P1 profile; built directly / by setters / by decoding) x 7 algorithms x fresh keys (the ECDSA algorithms also with a curve other than the customary one: ES256 over P-384, ES384 over P-521, ES512 over P-256): SetClaims + ValidateAndSign (and Sign) must succeed; the token read by the independent COSE reader must be tag 18 / 4-array / [bstr, map, bstr, non-empty bstr], its payload byte-identical to ValidateAndEncodeClaimsToCBOR(claims), its protected header must carry the signer's algorithm under label 1; the independent verifier (Go stdlib crypto over a Sig_structure rebuilt by the harness) and Evidence.Verify on the signing Evidence must accept it; DecodeAndValidateEvidenceFromCOSE must succeed, return the same implementation type and identical Validate/getter results (also equal to the reference model's expectation), verify under the signer's key, and hold (hook H2) exactly the token's protected/payload/signature bytes; every token is also decoded by ONE REUSED Evidence that still holds the previous case's claims and must then expose exactly this token's claims; for every third case the attached claims are then edited in place (new nonce) and the SAME Evidence signs again: the second token's payload must be the encoding of the claims as they are now, verify, decode, and carry the new nonce; every fourth case the DECODED Evidence signs again with a key of another algorithm (re-issue): header algorithm, independent verification and payload are checked; every signing Evidence and token is kept and re-verified after six further cases; (c) the same round trip for registered extensions with unusual struct layouts (unexported embedded base over three levels with a non-last '-' field and a CBOR-only claim; mixin first); (b) invalid claims-sets signed with the non-validating Sign: the claims of the decoded Evidence must equal DecodeClaimsFromCBOR(payload read by the independent reader). Candidate-key trials: on the decoded and on the signing Evidence another key of the same algorithm is tried first (must fail), then the matching key (must succeed). Every 50th case carries 17..300 software components. distinct_nontrivial = distinct (algorithm, profile, route, optional-subset, nonce size, component count) signatures")
	if err := extprof.Register(extprof.ExtP2Name); err != nil {
		c.Violation("harness/register", err.Error(), nil)
		return
	}
	g := model.NewGen(c.Seed*7717 + int64(c.Shard))
	// (c) registered extensions with unusual struct layouts through the whole
	// sign -> decode -> verify path
	if err := extprof.Register(extprof.ExtNestedName, extprof.MixinName, extprof.ExtOwnerName); err != nil {
		c.Violation("harness/register", err.Error(), nil)
		return
	}
	for i := 0; i < c.N(400, 8000); i++ {
		a := g.Valid(2)
		name := []string{extprof.ExtNestedName, extprof.MixinName, extprof.ExtOwnerName}[i%3]
		a.Canon, a.Profile = name, model.SP(name)
		var ownerComps []model.Comp
		if name == extprof.ExtOwnerName {
			ownerComps, a.Comps = a.Comps, nil
		}
		k := keys.New(keys.AlgNames[i%7], g.R.Intn(3))
		if pn, pv, fr := mon.Guard(func() {
			c.Eval()
			x, err := obs.SetterBuild(a)
			if err != nil {
				c.Violation("C03/layout-ext/setters-refused", err.Error(), nil)
				return
			}
			var ext *string
			if name == extprof.ExtOwnerName {
				// this extension adds no codecs of its own: it inherits the base type's
				var scs []psatoken.ISwComponent
				for j := range ownerComps {
					scs = append(scs, &extprof.OwnerComponent{SwComponent: *obs.RealComp(&ownerComps[j]), Owner: model.SP("owner")})
				}
				if err := x.SetSoftwareComponents(scs); err != nil {
					c.Violation("C03/layout-ext/setters-refused", err.Error(), nil)
					return
				}
				a.Comps = ownerComps
			}
			switch t := x.(type) {
			case *extprof.ExtNestedClaims:
				t.Cache = "bookkeeping"
				t.Internal = model.SP(g.NonEmptyText())
				ext = t.Internal
			case *extprof.MixinClaims:
				t.Mixin = model.SP(g.NonEmptyText())
				ext = t.Mixin
			}
			ev := &psatoken.Evidence{}
			if err := ev.SetClaims(x); err != nil {
				c.Violation("C03/layout-ext/setclaims-failed/"+name, "SetClaims refused valid extension claims: "+err.Error(), nil)
				return
			}
			tok, err := ev.ValidateAndSign(k.Signer)
			if err != nil {
				c.Violation("C03/layout-ext/sign-failed/"+name, "ValidateAndSign failed: "+err.Error(), nil)
				return
			}
			d, err := psatoken.DecodeAndValidateEvidenceFromCOSE(tok)
			if err != nil {
				c.Violation("C03/layout-ext/own-token-rejected/"+name, "the library rejects the token it has just issued: "+err.Error(), map[string]any{"token_hex": mon.Hex(tok)})
				return
			}
			if verr := d.Verify(k.Pub); verr != nil {
				c.Violation("C03/layout-ext/decoded-verify-failed/"+name, verr.Error(), nil)
				return
			}
			want, got := a.Expect(), obs.Observe(d.Claims)
			var gext *string
			switch t := d.Claims.(type) {
			case *extprof.ExtNestedClaims:
				gext = t.Internal
			case *extprof.MixinClaims:
				gext = t.Mixin
			}
			if df := model.ObsDiff(&want, &got); df != "" || fmt.Sprintf("%T", d.Claims) != fmt.Sprintf("%T", x) || strp(gext) != strp(ext) {
				c.Violation("C03/layout-ext/claims-vs-model/"+name, fmt.Sprintf("decoded claims (%T) differ from the signed ones (%T): %s; extension claim %s vs %s", d.Claims, x, trunc(df, 300), strp(gext), strp(ext)), map[string]any{"token_hex": mon.Hex(tok)})
				return
			}
			c.Count("layout-extension-tokens")
		}); pn {
			c.Violation("C03/panic/"+mon.PanicKey(fr), "panic on a layout extension", map[string]any{"panic": pv, "frame": fr})
		}
		c.Sig("layout-ext|" + name + "|" + k.Name)
	}
	c.Floor("layout-extension-tokens", 100)
	var held03 []c03Held
	var reuse03 *psatoken.Evidence
	n := c.N(22400, 560000)
	for i := 0; i < n; i++ {
		alg := keys.AlgNames[i%7]
		ki := g.R.Intn(3)
		k := keys.New(alg, ki)
		// another key of the same algorithm, for the candidate-key trials below
		kOther := keys.New(alg, (ki+1)%3)
		if i%21 < 3 {
			// an ECDSA algorithm with another curve than the customary one
			k = keys.NewCross(alg, []int{384, 521, 256}[i%3])
			c.Count("cross-paired-ecdsa-keys")
		}
		if i%8 == 7 {
			c03Invalid(c, g, k)
			continue
		}
		vc, ok := genSignable(c, g)
		if !ok {
			continue
		}
		a, x := vc.a, vc.x
		if i%50 == 49 && (a.P == 2 || a.NoMeas == nil) {
			// a larger, still valid set (seeded fault C03-v: limits in the decode mode that
			// the encoder does not know about): 17 .. 300 software components
			nc := []int{17, 24, 33, 65, 129, 300}[(i/50)%6]
			a.HasComps, a.NoMeas, a.Comps = true, nil, nil
			for j := 0; j < nc; j++ {
				a.Comps = append(a.Comps, g.ValidComp())
			}
			if bx, err := obs.Build(a); err == nil {
				x, vc.sig = bx, fmt.Sprintf("%s|comps=%d", vc.sig, nc)
				c.Count("many-component-sets")
			} else {
				continue
			}
		}
		sig := alg + "|" + vc.sig
		c.Sig(sig)
		det := func() map[string]any {
			return map[string]any{"sig": sig, "alg": alg, "route": vc.route, "case": abstractSample(a)}
		}
		bad := func(step, what string, d map[string]any) {
			c.Violation(fmt.Sprintf("C03/%s/%s", step, profName(a)), what, d)
		}
		if pn, pv, fr := mon.Guard(func() {
			c.Eval()
			e0 := &psatoken.Evidence{}
			if err := e0.SetClaims(x); err != nil {
				bad("setclaims-failed", "SetClaims rejected a valid claims-set: "+err.Error(), det())
				return
			}
			validating := i%2 == 0
			st, err := signWith(x, a, k, validating)
			if err != nil {
				d := det()
				if st != nil {
					d["token_hex"] = mon.Hex(st.tok)
				}
				bad("sign-failed", fmt.Sprintf("signing a valid claims-set failed (validating=%v): %v", validating, err), d)
				return
			}
			c.Count("tokens-signed:" + alg)
			d := det()
			d["token_hex"] = mon.Hex(st.tok)
			if ok, why := st.env.WellFormedSign1(); !ok {
				bad("envelope-shape", "the signed token is not a tagged COSE_Sign1: "+why, d)
				return
			}
			want, err := psatoken.ValidateAndEncodeClaimsToCBOR(x)
			if err != nil {
				bad("encode-failed", "ValidateAndEncodeClaimsToCBOR failed on a valid set: "+err.Error(), d)
				return
			}
			if !bytes.Equal(want, st.env.Payload) {
				d["payload_hex"], d["encoding_hex"] = mon.Hex(st.env.Payload), mon.Hex(want)
				bad("payload-differs", "the token's payload is not byte-identical to the validated CBOR encoding of the claims", d)
				return
			}
			if got, ok := st.env.Alg(); !ok || got != coseAlgID[alg] {
				d["protected_hex"] = mon.Hex(st.env.ProtectedBS)
				bad("protected-alg", fmt.Sprintf("protected header does not carry the signer's algorithm %d (found %d, present=%v)", coseAlgID[alg], got, ok), d)
				return
			}
			if err := st.env.Verify(k.Pub); err != nil {
				bad("independent-verify-failed", "the independent verifier rejects the token under the signer's public key: "+err.Error(), d)
				return
			}
			if err := st.ev.Verify(k.Pub); err != nil {
				bad("signing-evidence-verify-failed", "Verify on the signing Evidence failed: "+err.Error(), d)
				return
			}
			if present, prot, pay, sg, herr := hookEnvelope(st.ev); herr != nil || !present || !bytes.Equal(pay, st.env.Payload) || !bytes.Equal(sg, st.env.Signature) || !bytes.Equal(prot, st.env.ProtectedBS) {
				bad("signing-evidence-envelope", fmt.Sprintf("the envelope held by the signing Evidence differs from the returned token (present=%v err=%v)", present, herr), d)
				return
			}
			dv, err := psatoken.DecodeAndValidateEvidenceFromCOSE(st.tok)
			if err != nil {
				bad("decode-failed", "DecodeAndValidateEvidenceFromCOSE rejected a freshly signed valid token: "+err.Error(), d)
				return
			}
			if dv.Claims == nil {
				bad("decoded-claims-nil", "decoded Evidence has nil claims", d)
				return
			}
			gx, gy := obs.Observe(x), obs.Observe(dv.Claims)
			if fmt.Sprintf("%T", x) != fmt.Sprintf("%T", dv.Claims) {
				bad("type-changed", fmt.Sprintf("decoded claims have type %T, signed %T", dv.Claims, x), d)
				return
			}
			if df := model.ObsDiff(&gx, &gy); df != "" || gx.Validate != gy.Validate {
				d["before"], d["after"] = gx.String(), gy.String()
				bad("claims-changed/"+obsKey(&gx, &gy), "decoded claims differ from the signed ones: "+df, d)
				return
			}
			wantObs := a.Expect()
			if df := model.ObsDiff(&wantObs, &gy); df != "" {
				d["model"], d["after"] = wantObs.String(), gy.String()
				bad("claims-vs-model/"+obsKey(&wantObs, &gy), "decoded claims differ from the reference model's expectation: "+df, d)
				return
			}
			if err := dv.Verify(k.Pub); err != nil {
				bad("decoded-verify-failed", "Verify on the decoded Evidence failed under the signer's key: "+err.Error(), d)
				return
			}
			// a relying party trying candidate keys (seeded fault C03-u: the verifier of
			// the first Verify call is kept): wrong key of the same algorithm, then the
			// matching one, on the decoded and on the signing Evidence
			for ei, e := range []*psatoken.Evidence{dv, st.ev} {
				which := []string{"decoded", "signing"}[ei]
				if e.Verify(kOther.Pub) == nil {
					bad("other-key-verified/"+which, "Verify succeeded under another key of the same algorithm on the "+which+" Evidence", d)
					return
				}
				if err := e.Verify(k.Pub); err != nil {
					bad("matching-key-refused-after-wrong-key/"+which, "Verify with the matching key fails on the "+which+" Evidence after another candidate key was tried: "+err.Error(), d)
					return
				}
				c.Count("candidate-key-trials")
			}
			present, prot, pay, sg, herr := hookEnvelope(dv)
			if herr != nil || !present || !bytes.Equal(pay, st.env.Payload) || !bytes.Equal(sg, st.env.Signature) || !bytes.Equal(prot, st.env.ProtectedBS) {
				bad("decoded-envelope", fmt.Sprintf("the envelope held by the decoded Evidence differs from the token (present=%v err=%v)", present, herr), d)
				return
			}
			hc, err := psatoken.DecodeClaimsFromCBOR(pay)
			if err != nil {
				bad("hook-payload-undecodable", "payload held by the decoded Evidence does not decode: "+err.Error(), d)
				return
			}
			gh := obs.Observe(hc)
			if df := model.ObsDiff(&gh, &gy); df != "" || gh.Validate != gy.Validate {
				bad("claims-not-from-payload/"+obsKey(&gh, &gy), "claims exposed by the decoded Evidence are not the decoding of the payload it holds: "+df, d)
				return
			}
			// sign again on the SAME Evidence after the attached claims were
			// edited in place (new challenge): the new token must carry the
			// claims as they are now
			// an Evidence object that is decoded into again and again (it holds the
			// claims of the PREVIOUS case, of whatever profile): after decoding this
			// token it must expose exactly this token's claims
			if reuse03 == nil {
				reuse03 = &psatoken.Evidence{}
			}
			if i%5 == 2 {
				// first a validly signed envelope whose payload is not decodable as claims:
				// whatever is left behind, Verify must not succeed with stale claims attached
				badPay := refcbor.Encode(refcbor.MapOf(refcbor.I(model.P2KProfile), refcbor.Tstr(model.P2Name), refcbor.I(model.P2KLifecycle), refcbor.Tstr("not-an-integer")))
				if sg, serr := k.Signer.Sign(rand.Reader, refcose.SigStructure(st.env.ProtectedBS, badPay)); serr == nil {
					if uerr := reuse03.UnmarshalCOSE(sign1Bytes(st.env.ProtectedBS, nil, badPay, sg)); uerr == nil {
						bad("undecodable-claims-accepted", "an envelope whose payload does not decode as claims was accepted", d)
						return
					}
					if reuse03.Verify(k.Pub) == nil && reuse03.Claims != nil {
						bad("stale-claims-after-failed-decode", "after a FAILED decode of a validly signed envelope the Evidence verifies and still exposes the claims of an earlier token", d)
						reuse03 = nil
						return
					}
					c.Count("reused-evidence-failed-decodes")
				}
			}
			if err := reuse03.UnmarshalCOSE(st.tok); err != nil {
				bad("reused-evidence-decode-failed", "an Evidence that decoded other tokens before rejects this valid token: "+err.Error(), d)
				return
			}
			gr := obs.Observe(reuse03.Claims)
			if df := model.ObsDiff(&gx, &gr); df != "" || fmt.Sprintf("%T", reuse03.Claims) != fmt.Sprintf("%T", x) {
				d["reused_evidence_claims"] = gr.String()
				bad("reused-evidence-stale-claims/"+obsKey(&gx, &gr), fmt.Sprintf("an Evidence that held other claims before exposes, after decoding this token, claims that are not the token's (%T): %s", reuse03.Claims, df), d)
				reuse03 = nil
				return
			}
			if enc, err := psatoken.EncodeClaimsToCBOR(reuse03.Claims); err != nil || !bytes.Equal(enc, st.env.Payload) {
				bad("reused-evidence-claims-reencode-differently", "claims exposed by a reused Evidence do not re-encode to the signed payload", d)
				reuse03 = nil
				return
			}
			if reuse03.Verify(k.Pub) != nil {
				bad("reused-evidence-verify-failed", "a reused Evidence does not verify the token it just decoded", d)
				return
			}
			c.Count("reused-evidence-decodes")
			curTok := st.tok
			firstTokCopy := append([]byte{}, st.tok...)
			if i%3 == 0 {
				newNonce := g.Bytes(g.HashLen())
				if err := x.SetNonce(newNonce); err != nil {
					bad("setnonce-failed", "SetNonce with a valid nonce failed: "+err.Error(), d)
					return
				}
				var tok2 []byte
				if validating {
					tok2, err = st.ev.ValidateAndSign(k.Signer)
				} else {
					tok2, err = st.ev.Sign(k.Signer)
				}
				if err != nil {
					bad("second-sign-failed", "signing again on the same Evidence failed: "+err.Error(), d)
					return
				}
				env2, perr := refcose.Parse(tok2)
				want2, _ := psatoken.ValidateAndEncodeClaimsToCBOR(x)
				if perr != nil || !bytes.Equal(env2.Payload, want2) {
					d["token2_hex"] = mon.Hex(tok2)
					bad("second-sign-stale-payload", "after editing the attached claims in place, signing again produced a token whose payload is not the encoding of the claims as they are now", d)
					return
				}
				if env2.Verify(k.Pub) != nil || st.ev.Verify(k.Pub) != nil {
					bad("second-sign-not-verifiable", "the second token does not verify", d)
					return
				}
				d2, err := psatoken.DecodeAndValidateEvidenceFromCOSE(tok2)
				if err != nil {
					bad("second-sign-decode-failed", "the second token does not decode: "+err.Error(), d)
					return
				}
				if n2, err := d2.Claims.GetNonce(); err != nil || !bytes.Equal(n2, newNonce) {
					bad("second-sign-stale-claims", "the second token does not carry the new nonce", d)
					return
				}
				if !bytes.Equal(st.tok, firstTokCopy) {
					bad("first-token-overwritten-by-second-sign", "the token returned by the first sign operation was overwritten in place by the second one on the same Evidence", d)
					return
				}
				curTok = tok2
				c.Count("second-signs")
			}
			// re-issue: the DECODED Evidence signs again, with a key of another
			// algorithm; the new token must be a valid token of the new signer
			if i%4 == 1 {
				alg2 := keys.AlgNames[(i/4+1+i%7)%7]
				if alg2 == alg {
					alg2 = keys.AlgNames[(i%7+3)%7]
				}
				k2 := keys.New(alg2, g.R.Intn(3))
				tok3, err := dv.ValidateAndSign(k2.Signer)
				if err != nil {
					bad("reissue-failed", "a decoded Evidence could not sign again with another key: "+err.Error(), d)
					return
				}
				env3, perr := refcose.Parse(tok3)
				d["token3_hex"] = mon.Hex(tok3)
				if perr != nil {
					bad("reissue-unreadable", "re-issued token unreadable: "+perr.Error(), d)
					return
				}
				if got, ok := env3.Alg(); !ok || got != coseAlgID[alg2] {
					bad("reissue-protected-alg", fmt.Sprintf("token re-issued with a %s key carries algorithm %d in its protected header", alg2, got), d)
					return
				}
				if err := env3.Verify(k2.Pub); err != nil {
					bad("reissue-independent-verify-failed", "re-issued token rejected by the independent verifier under the new signer's key: "+err.Error(), d)
					return
				}
				if d3, err := psatoken.DecodeAndValidateEvidenceFromCOSE(tok3); err != nil || d3.Verify(k2.Pub) != nil || dv.Verify(k2.Pub) != nil {
					bad("reissue-not-accepted", fmt.Sprintf("re-issued token not decodable+verifiable (%v)", err), d)
					return
				}
				if !bytes.Equal(env3.Payload, st.env.Payload) {
					bad("reissue-payload-differs", "re-issued token carries another payload than the token it was decoded from", d)
					return
				}
				c.Count("reissued-with-other-algorithm")
			}
			// the signing Evidence and the token are still good after further use of the library
			held03 = append(held03, c03Held{ev: st.ev, tok: curTok, copy: append([]byte{}, curTok...), pub: k.Pub, sig: sig})
			if len(held03) > 6 {
				h := held03[0]
				held03 = held03[1:]
				c.Count("held-evidence-rechecked")
				henv, perr := refcose.Parse(h.copy)
				_, _, hpay, _, herr := hookEnvelope(h.ev)
				switch {
				case !bytes.Equal(h.tok, h.copy):
					c.Violation("C03/token-bytes-changed-later", "the token bytes returned by a sign operation changed after further calls into the library", map[string]any{"sig": h.sig})
				case h.ev.Verify(h.pub) != nil:
					c.Violation("C03/held-evidence-no-longer-verifies", "a signing Evidence verified right after signing but no longer does after further signs / encodes of OTHER objects", map[string]any{"sig": h.sig})
				case perr != nil || herr != nil || !bytes.Equal(hpay, henv.Payload):
					c.Violation("C03/held-evidence-payload-changed", "the payload held by a signing Evidence changed after further use of the library", map[string]any{"sig": h.sig})
				}
			}
			c.Count("round-trips")
			c.Count("profile:" + a.Canon)
			c.Count("route:" + vc.route)
			if validating {
				c.Count("via:ValidateAndSign")
			} else {
				c.Count("via:Sign")
			}
			if i < 14 {
				c.Sample("token:"+alg, map[string]any{"sig": sig, "token_len": len(st.tok), "protected_hex": mon.Hex(st.env.ProtectedBS), "payload_diag": a.WireCBOR().Diag()})
			}
		}); pn {
			d := det()
			d["panic"], d["frame"] = pv, fr
			c.Violation("C03/panic/"+mon.PanicKey(fr), "panic during sign/decode/verify round trip", d)
		}
	}
	for _, alg := range keys.AlgNames {
		c.Floor("tokens-signed:"+alg, 50)
	}
	c.Floor("round-trips", 1000)
	c.Floor("profile:"+model.P1Name, 100)
	c.Floor("profile:"+model.P2Name, 100)
	c.Floor("profile:"+extprof.ExtP2Name, 30)
	c.Floor("invalid-signed-decoded", 50)
	c.Floor("second-signs", 300)
	c.Floor("reused-evidence-decodes", 1000)
	c.Floor("reissued-with-other-algorithm", 300)
	c.Floor("held-evidence-rechecked", 1000)
}

type c03Held struct {
	ev   *psatoken.Evidence
	tok  []byte
	copy []byte
	pub  any
	sig  string
}

func profName(a *model.Claims) string {
	switch a.Canon {
	case model.P1Name:
		return "P1"
	case model.P2Name:
		return "P2"
	case extprof.ExtP2Name:
		return "ExtP2"
	case extprof.ExtP1Name:
		return "ExtP1"
	}
	return fmt.Sprintf("P%d", a.P)
}

// c03Invalid: an invalid set signed with the non-validating Sign; the decoded
// Evidence must expose exactly the decoding of the signed payload.
func c03Invalid(c *mon.Ctx, g *model.Gen, k keys.Pair) {
	p := 1 + g.R.Intn(2)
	a, s := g.Mutated(p, 1+g.R.Intn(2))
	x, err := obs.Build(a)
	if err != nil {
		c.Count("invalid-unbuildable")
		return
	}
	sig := fmt.Sprintf("invalid|%s|P%d|%s", k.Name, p, s)
	c.Sig(sig)
	det := map[string]any{"sig": sig, "case": abstractSample(a)}
	if pn, pv, fr := mon.Guard(func() {
		c.Eval()
		st, err := signWith(x, a, k, false)
		if err != nil {
			c.Count("invalid-sign-refused") // an unencodable set (legitimate)
			return
		}
		det["token_hex"] = mon.Hex(st.tok)
		enc, err := psatoken.EncodeClaimsToCBOR(x)
		if err != nil || !bytes.Equal(enc, st.env.Payload) {
			c.Violation("C03/invalid/payload-differs", fmt.Sprintf("Sign: payload is not EncodeClaimsToCBOR(claims) (err=%v)", err), det)
			return
		}
		if err := st.env.Verify(k.Pub); err != nil {
			c.Violation("C03/invalid/independent-verify-failed", "independent verifier rejects a token produced by Sign: "+err.Error(), det)
			return
		}
		dv, err := psatoken.DecodeEvidenceFromCOSE(st.tok)
		if err != nil {
			c.Count("invalid-signed-undecodable")
			return
		}
		ref, rerr := psatoken.DecodeClaimsFromCBOR(st.env.Payload)
		if rerr != nil {
			c.Violation("C03/invalid/decoded-but-payload-undecodable", "Evidence decoded although its payload does not decode as claims: "+rerr.Error(), det)
			return
		}
		g1, g2 := obs.Observe(dv.Claims), obs.Observe(ref)
		if df := model.ObsDiff(&g1, &g2); df != "" || g1.Validate != g2.Validate || fmt.Sprintf("%T", dv.Claims) != fmt.Sprintf("%T", ref) {
			c.Violation("C03/invalid/claims-not-from-payload/"+obsKey(&g2, &g1), "claims of the decoded Evidence differ from the decoding of the signed payload: "+df, det)
			return
		}
		if err := dv.Verify(k.Pub); err != nil {
			c.Violation("C03/invalid/decoded-verify-failed", "Verify failed on a decoded token produced by Sign: "+err.Error(), det)
			return
		}
		if _, err := psatoken.DecodeAndValidateEvidenceFromCOSE(st.tok); err == nil && g1.Validate != model.OK {
			c.Violation("C03/invalid/validating-decoder-accepted", "DecodeAndValidateEvidenceFromCOSE accepted a token whose claims do not validate", det)
			return
		}
		c.Count("invalid-signed-decoded")
	}); pn {
		det["panic"], det["frame"] = pv, fr
		c.Violation("C03/panic/"+mon.PanicKey(fr), "panic during sign/decode of an invalid set", det)
	}
	_ = refcbor.Encode
}
