package props

import (
	"bytes"
	"crypto"
	"encoding/json"
	"fmt"
	"strings"

	"github.com/veraison/psatoken"
	"github.com/veraison/psatoken/encoding"

	"verif/harness/extprof"
	"verif/harness/keys"
	"verif/harness/model"
	"verif/harness/obs"
	"verif/harness/refcbor"
	"verif/harness/shapes"
)

// entryPoint is one decoding entry point of the library, reduced to
// bytes -> (result, error). family is "cbor", "json" or "cose".
type entryPoint struct {
	name   string
	family string
	fn     func(b []byte) (any, error)
}

func claimsRes(c psatoken.IClaims, err error) (any, error) {
	if err != nil {
		return nil, err
	}
	return c, nil
}

func evRes(e *psatoken.Evidence, err error) (any, error) {
	if err != nil {
		return nil, err
	}
	return e, nil
}

// entryPoints lists every decoding entry point the hostile-bytes properties
// (C05, C06) cover.
func entryPoints() []entryPoint {
	eps := []entryPoint{
		{"DecodeEvidenceFromCOSE", "cose", func(b []byte) (any, error) { return evRes(psatoken.DecodeEvidenceFromCOSE(b)) }},
		{"DecodeAndValidateEvidenceFromCOSE", "cose", func(b []byte) (any, error) { return evRes(psatoken.DecodeAndValidateEvidenceFromCOSE(b)) }},
		{"Evidence.UnmarshalCOSE", "cose", func(b []byte) (any, error) {
			e := &psatoken.Evidence{}
			if err := e.UnmarshalCOSE(b); err != nil {
				return nil, err
			}
			return e, nil
		}},
		{"DecodeClaimsFromCBOR", "cbor", func(b []byte) (any, error) { return claimsRes(psatoken.DecodeClaimsFromCBOR(b)) }},
		{"DecodeAndValidateClaimsFromCBOR", "cbor", func(b []byte) (any, error) { return claimsRes(psatoken.DecodeAndValidateClaimsFromCBOR(b)) }},
		{"P1Claims.UnmarshalCBOR", "cbor", func(b []byte) (any, error) {
			c := &psatoken.P1Claims{SwComponents: &psatoken.SwComponents[*psatoken.SwComponent]{}, CanonicalProfile: model.P1Name}
			if err := c.UnmarshalCBOR(b); err != nil {
				return nil, err
			}
			return psatoken.IClaims(c), nil
		}},
		{"P2Claims.UnmarshalCBOR", "cbor", func(b []byte) (any, error) {
			c := &psatoken.P2Claims{SwComponents: &psatoken.SwComponents[*psatoken.SwComponent]{}, CanonicalProfile: model.P2Name}
			if err := c.UnmarshalCBOR(b); err != nil {
				return nil, err
			}
			return psatoken.IClaims(c), nil
		}},
		{"P1Claims.UnmarshalCBOR(nil-container)", "cbor", func(b []byte) (any, error) {
			c := &psatoken.P1Claims{}
			if err := c.UnmarshalCBOR(b); err != nil {
				return nil, err
			}
			return nil, nil // a zero-value receiver (no canonical name) is not a supported way to obtain usable claims; only the decode itself is covered
		}},
		// struct-literal destinations: canonical name set, NO component container
		{"P1Claims.UnmarshalCBOR(literal)", "cbor", func(b []byte) (any, error) {
			c := &psatoken.P1Claims{CanonicalProfile: model.P1Name}
			if err := c.UnmarshalCBOR(b); err != nil {
				return nil, err
			}
			return psatoken.IClaims(c), nil
		}},
		{"P2Claims.UnmarshalCBOR(literal)", "cbor", func(b []byte) (any, error) {
			c := &psatoken.P2Claims{CanonicalProfile: model.P2Name}
			if err := c.UnmarshalCBOR(b); err != nil {
				return nil, err
			}
			return psatoken.IClaims(c), nil
		}},
		{"P1Claims.UnmarshalJSON(literal)", "json", func(b []byte) (any, error) {
			c := &psatoken.P1Claims{CanonicalProfile: model.P1Name}
			if err := c.UnmarshalJSON(b); err != nil {
				return nil, err
			}
			return psatoken.IClaims(c), nil
		}},
		{"P2Claims.UnmarshalJSON(literal)", "json", func(b []byte) (any, error) {
			c := &psatoken.P2Claims{CanonicalProfile: model.P2Name}
			if err := c.UnmarshalJSON(b); err != nil {
				return nil, err
			}
			return psatoken.IClaims(c), nil
		}},
		{"SwComponents.UnmarshalCBOR", "cbor", func(b []byte) (any, error) {
			c := &psatoken.SwComponents[*psatoken.SwComponent]{}
			if err := c.UnmarshalCBOR(b); err != nil {
				return nil, err
			}
			return c, nil
		}},
		{"ExtP2Claims.UnmarshalCBOR", "cbor", func(b []byte) (any, error) {
			c := extprof.NewExtP2Claims()
			if err := c.(*extprof.ExtP2Claims).UnmarshalCBOR(b); err != nil {
				return nil, err
			}
			return c, nil
		}},
		{"ExtP1Claims.UnmarshalCBOR", "cbor", func(b []byte) (any, error) {
			c := extprof.NewExtP1Claims()
			if err := c.(*extprof.ExtP1Claims).UnmarshalCBOR(b); err != nil {
				return nil, err
			}
			return c, nil
		}},
		{"DecodeClaimsFromJSON", "json", func(b []byte) (any, error) { return claimsRes(psatoken.DecodeClaimsFromJSON(b)) }},
		{"DecodeAndValidateClaimsFromJSON", "json", func(b []byte) (any, error) { return claimsRes(psatoken.DecodeAndValidateClaimsFromJSON(b)) }},
		{"DecodeJSONClaims", "json", func(b []byte) (any, error) { return claimsRes(psatoken.DecodeJSONClaims(b)) }},
		{"DecodeUnvalidatedJSONClaims", "json", func(b []byte) (any, error) { return claimsRes(psatoken.DecodeUnvalidatedJSONClaims(b)) }},
		{"P1Claims.UnmarshalJSON", "json", func(b []byte) (any, error) {
			c := &psatoken.P1Claims{SwComponents: &psatoken.SwComponents[*psatoken.SwComponent]{}, CanonicalProfile: model.P1Name}
			if err := c.UnmarshalJSON(b); err != nil {
				return nil, err
			}
			return psatoken.IClaims(c), nil
		}},
		{"P2Claims.UnmarshalJSON", "json", func(b []byte) (any, error) {
			c := &psatoken.P2Claims{SwComponents: &psatoken.SwComponents[*psatoken.SwComponent]{}, CanonicalProfile: model.P2Name}
			if err := c.UnmarshalJSON(b); err != nil {
				return nil, err
			}
			return psatoken.IClaims(c), nil
		}},
		{"SwComponents.UnmarshalJSON", "json", func(b []byte) (any, error) {
			c := &psatoken.SwComponents[*psatoken.SwComponent]{}
			if err := c.UnmarshalJSON(b); err != nil {
				return nil, err
			}
			return c, nil
		}},
		{"ExtP2Claims.UnmarshalJSON", "json", func(b []byte) (any, error) {
			c := extprof.NewExtP2Claims()
			if err := c.(*extprof.ExtP2Claims).UnmarshalJSON(b); err != nil {
				return nil, err
			}
			return c, nil
		}},
		{"ExtP1Claims.UnmarshalJSON", "json", func(b []byte) (any, error) {
			c := extprof.NewExtP1Claims()
			if err := c.(*extprof.ExtP1Claims).UnmarshalJSON(b); err != nil {
				return nil, err
			}
			return c, nil
		}},
	}
	eps = append(eps,
		entryPoint{"encoding.PopulateStructFromCBOR(Plain)", "cbor", func(b []byte) (any, error) {
			d := &shapes.Plain{}
			if err := encoding.PopulateStructFromCBOR(extprof.DM, b, d); err != nil {
				return nil, err
			}
			return d, nil
		}},
		entryPoint{"encoding.PopulateStructFromJSON(Plain)", "json", func(b []byte) (any, error) {
			d := &shapes.Plain{}
			if err := encoding.PopulateStructFromJSON(b, d); err != nil {
				return nil, err
			}
			return d, nil
		}})
	for _, sn := range shapes.Names {
		sn := sn
		eps = append(eps,
			entryPoint{"encoding.PopulateStructFromCBOR(" + sn + ")", "cbor", func(b []byte) (any, error) {
				d := shapes.New(sn)
				if err := encoding.PopulateStructFromCBOR(extprof.DM, b, d); err != nil {
					return nil, err
				}
				return d, nil
			}},
			entryPoint{"encoding.PopulateStructFromJSON(" + sn + ")", "json", func(b []byte) (any, error) {
				d := shapes.New(sn)
				if err := encoding.PopulateStructFromJSON(b, d); err != nil {
					return nil, err
				}
				return d, nil
			}})
	}
	return eps
}

// exerciseKeys are the keys a decoded Evidence is verified against.
var exerciseKeys []crypto.PublicKey

func initExerciseKeys() {
	if exerciseKeys != nil {
		return
	}
	exerciseKeys = []crypto.PublicKey{keys.New("ES256", 0).Pub, keys.New("ES384", 0).Pub, keys.New("EdDSA", 0).Pub, keys.New("PS256", 0).Pub, nil, "not a key", 7, []byte{1, 2}}
}

// exercise uses whatever a decode entry point returned without error the way
// a caller would: validate, read through every getter, re-encode, verify.
func exercise(res any) {
	switch v := res.(type) {
	case nil:
		return
	case *psatoken.Evidence:
		initExerciseKeys()
		for _, k := range exerciseKeys {
			_ = v.Verify(k)
		}
		_ = v.GetInstanceID()
		_ = v.GetImplementationID()
		_, _ = v.MarshalJSON()
		if v.Claims != nil {
			exercise(v.Claims)
		}
	case psatoken.IClaims:
		_ = obs.Observe(v) // Validate + all getters + component getters
		_, _ = psatoken.EncodeClaimsToCBOR(v)
		_, _ = psatoken.EncodeClaimsToJSON(v)
		_, _ = psatoken.ValidateAndEncodeClaimsToCBOR(v)
		_, _ = psatoken.ValidateAndEncodeClaimsToJSON(v)
		e := &psatoken.Evidence{}
		_ = e.SetClaims(v)
		if x, ok := v.(*extprof.ExtP2Claims); ok {
			_, _ = x.GetTimestamp()
		}
	case *psatoken.SwComponents[*psatoken.SwComponent]:
		_ = v.Validate()
		_ = v.IsEmpty()
		if vals, err := v.Values(); err == nil {
			for _, sc := range vals {
				_ = obs.ObserveComp(sc)
			}
		}
		_, _ = v.MarshalCBOR()
		_, _ = v.MarshalJSON()
	default:
		// a populated shape: serialise it again with both codecs
		_, _ = encoding.SerializeStructToCBOR(extprof.EM, res)
		_, _ = encoding.SerializeStructToJSON(res)
	}
}

// ---- a small ordered JSON AST for structure-aware mutation ------------------------

type jnode struct {
	kind    byte // 'o' object, 'a' array, 'v' scalar (raw text)
	raw     string
	names   []string
	members []*jnode
}

func parseJSON(doc []byte) (*jnode, error) {
	dec := json.NewDecoder(bytes.NewReader(doc))
	dec.UseNumber()
	n, err := parseJValue(dec)
	if err != nil {
		return nil, err
	}
	return n, nil
}

func parseJValue(dec *json.Decoder) (*jnode, error) {
	t, err := dec.Token()
	if err != nil {
		return nil, err
	}
	switch v := t.(type) {
	case json.Delim:
		switch v {
		case '{':
			n := &jnode{kind: 'o'}
			for dec.More() {
				kt, err := dec.Token()
				if err != nil {
					return nil, err
				}
				ks, _ := kt.(string)
				m, err := parseJValue(dec)
				if err != nil {
					return nil, err
				}
				n.names = append(n.names, ks)
				n.members = append(n.members, m)
			}
			_, err := dec.Token()
			return n, err
		case '[':
			n := &jnode{kind: 'a'}
			for dec.More() {
				m, err := parseJValue(dec)
				if err != nil {
					return nil, err
				}
				n.members = append(n.members, m)
			}
			_, err := dec.Token()
			return n, err
		}
		return nil, fmt.Errorf("unexpected delimiter %v", v)
	case string:
		b, _ := json.Marshal(v)
		return &jnode{kind: 'v', raw: string(b)}, nil
	case json.Number:
		return &jnode{kind: 'v', raw: v.String()}, nil
	case bool:
		return &jnode{kind: 'v', raw: fmt.Sprint(v)}, nil
	case nil:
		return &jnode{kind: 'v', raw: "null"}, nil
	}
	return nil, fmt.Errorf("unexpected token %v", t)
}

func (n *jnode) encode(sb *strings.Builder) {
	switch n.kind {
	case 'v':
		sb.WriteString(n.raw)
	case 'a':
		sb.WriteByte('[')
		for i, m := range n.members {
			if i > 0 {
				sb.WriteByte(',')
			}
			m.encode(sb)
		}
		sb.WriteByte(']')
	case 'o':
		sb.WriteByte('{')
		for i, m := range n.members {
			if i > 0 {
				sb.WriteByte(',')
			}
			k, _ := json.Marshal(n.names[i])
			sb.Write(k)
			sb.WriteByte(':')
			m.encode(sb)
		}
		sb.WriteByte('}')
	}
}

func (n *jnode) bytes() []byte {
	var sb strings.Builder
	n.encode(&sb)
	return []byte(sb.String())
}

func (n *jnode) clone() *jnode {
	c := &jnode{kind: n.kind, raw: n.raw, names: append([]string{}, n.names...)}
	for _, m := range n.members {
		c.members = append(c.members, m.clone())
	}
	return c
}

var jsonSpecials = []string{"null", `""`, "[]", "{}", "0", "-1", "1e999", "18446744073709551616", "-9223372036854775809", "1.5", "true", "false",
	`"AAAA"`, `"!!!"`, `"\u0000"`, `[null]`, `[[]]`, `{"a":null}`, `[1,2,3]`, `"` + strings.Repeat("A", 100) + `"`, `{"measurement-value":null}`, `[{}]`, `[null,null]`,
	`"` + strings.Repeat("é", 33) + `"`, `"` + strings.Repeat("証", 22) + `"`, `"` + strings.Repeat("x", 63) + `é"`, `"http://example.com/` + strings.Repeat("ü", 40) + `"`, `"` + strings.Repeat("é", 128) + `"`}

// mutateJSON applies k random structural edits and returns their classes.
func mutateJSON(g *model.Gen, root *jnode, k int) string {
	desc := ""
	for ; k > 0; k-- {
		var parents []*jnode
		var walk func(n *jnode)
		walk = func(n *jnode) {
			if len(n.members) > 0 {
				parents = append(parents, n)
			}
			for _, m := range n.members {
				walk(m)
			}
		}
		walk(root)
		if len(parents) == 0 {
			return desc
		}
		p := parents[g.R.Intn(len(parents))]
		i := g.R.Intn(len(p.members))
		switch g.R.Intn(8) {
		case 0, 1:
			s := jsonSpecials[g.R.Intn(len(jsonSpecials))]
			p.members[i] = &jnode{kind: 'v', raw: s}
			desc += "replace:" + s[:min(len(s), 6)] + ";"
		case 2:
			p.members = append(p.members[:i], p.members[i+1:]...)
			if p.kind == 'o' {
				p.names = append(p.names[:i], p.names[i+1:]...)
			}
			desc += "delete;"
		case 3: // duplicate (same key twice)
			p.members = append(p.members, p.members[i].clone())
			if p.kind == 'o' {
				p.names = append(p.names, p.names[i])
			}
			desc += "duplicate;"
		case 4: // duplicate under a case variant / with another value
			if p.kind == 'o' {
				p.members = append(p.members, &jnode{kind: 'v', raw: jsonSpecials[g.R.Intn(len(jsonSpecials))]})
				nm := p.names[i]
				if g.R.Intn(2) == 0 {
					nm = strings.ToUpper(nm)
				}
				p.names = append(p.names, nm)
				desc += "duplicate-variant;"
			}
		case 5:
			p.members[i] = &jnode{kind: 'a', members: []*jnode{p.members[i]}}
			desc += "array-wrap;"
		case 6:
			j := g.R.Intn(len(p.members))
			p.members[i], p.members[j] = p.members[j], p.members[i]
			desc += "swap;"
		default:
			if p.kind == 'o' {
				p.names[i] = []string{"", "a", "psa-nonce", "eat-profile", "psa-profile", "measurement-value", "b", "y"}[g.R.Intn(8)]
				desc += "rename;"
			}
		}
	}
	return desc
}

// reencodeVariants re-encodes a CBOR AST with non-minimal / indefinite
// lengths at random nodes.
func reencodeVariant(g *model.Gen, n *refcbor.Node) {
	var walk func(x *refcbor.Node)
	walk = func(x *refcbor.Node) {
		switch g.R.Intn(12) {
		case 0:
			x.ArgW = []int{1, 2, 4, 8}[g.R.Intn(4)]
		case 1:
			if x.K == refcbor.Array || x.K == refcbor.Map || x.K == refcbor.Bytes || x.K == refcbor.Text {
				x.Indef = true
			}
		}
		for _, it := range x.Items {
			walk(it)
		}
	}
	walk(n)
}
