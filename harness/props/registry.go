// Package props holds one workload + monitor per property.
package props

import "verif/harness/mon"

// Registry maps property id (and auxiliary sub-modes) to its worker entry.
var Registry = map[string]func(*mon.Ctx){}

func register(id string, fn func(*mon.Ctx)) { Registry[id] = fn }
