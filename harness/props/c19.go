package props

import (
	"bytes"
	"crypto"
	"crypto/rand"
	"errors"
	"fmt"
	"io"

	cose "github.com/veraison/go-cose"
	"github.com/veraison/psatoken"

	"verif/harness/extprof"
	"verif/harness/keys"
	"verif/harness/model"
	"verif/harness/mon"
	"verif/harness/obs"
	"verif/harness/refcbor"
	"verif/harness/refcose"
)

func init() { register("C19", runC19) }

// faultSigner is a cose.Signer whose behaviour is chosen by the harness: the
// signer is the one fallible collaborator of Sign / ValidateAndSign, so faults
// are injected at this real boundary.
type faultSigner struct {
	alg   cose.Algorithm
	mode  string
	n     int
	inner cose.Signer
	calls *int
}

func (s faultSigner) Algorithm() cose.Algorithm { return s.alg }
func (s faultSigner) Sign(r io.Reader, content []byte) ([]byte, error) {
	if s.calls != nil {
		*s.calls++
	}
	switch s.mode {
	case "error":
		return nil, errors.New("injected signer fault")
	case "error-with-bytes":
		b := make([]byte, s.n)
		_, _ = rand.Read(b)
		return b, errors.New("injected signer fault (bytes returned too)")
	case "nil":
		return nil, nil
	case "empty":
		return []byte{}, nil
	case "garbage":
		b := make([]byte, s.n)
		_, _ = rand.Read(b)
		return b, nil
	case "delegate":
		return s.inner.Sign(r, content)
	}
	return nil, errors.New("unknown mode")
}

type c19Op struct {
	kind string // setclaims, assign, mutate, sign, vsign, decode, verify
	arg  string
}

func (o c19Op) String() string { return o.kind + "(" + o.arg + ")" }

var c19Alphabet = func() []c19Op {
	var a []c19Op
	for _, x := range []string{"valid-1", "valid-2", "invalid"} {
		a = append(a, c19Op{"setclaims", x})
	}
	for _, x := range []string{"valid-2", "invalid"} {
		a = append(a, c19Op{"assign", x})
	}
	a = append(a, c19Op{"mutate", "client-id"})
	for _, s := range []string{"good-0", "good-1", "error", "error-with-bytes", "nil", "empty", "garbage", "garbage-wrong-length", "unsupported-alg", "reserved-alg"} {
		a = append(a, c19Op{"sign", s})
	}
	for _, s := range []string{"good-0", "good-1", "error", "nil", "garbage", "unsupported-alg"} {
		a = append(a, c19Op{"vsign", s})
	}
	for _, t := range []string{"valid-by-0", "valid-by-1", "invalid-claims-by-0", "tampered", "garbage", "undecodable-claims-by-0", "own-last", "empty"} {
		a = append(a, c19Op{"decode", t})
	}
	return a
}()

// c19World is the fixed cast of one history: keys, claims objects, tokens.
type c19World struct {
	k      [2]keys.Pair
	other  keys.Pair
	claims map[string]psatoken.IClaims
	tokens map[string][]byte
}

func newC19World(c *mon.Ctx, g *model.Gen, algs [2]string) (*c19World, error) {
	w := &c19World{claims: map[string]psatoken.IClaims{}, tokens: map[string][]byte{}}
	w.k[0], w.k[1] = keys.New(algs[0], 0), keys.New(algs[1], 1)
	w.other = keys.New("ES256", 2)
	mk := func(valid bool) (psatoken.IClaims, *model.Claims, error) {
		for try := 0; try < 50; try++ {
			p := 1 + g.R.Intn(2)
			var a *model.Claims
			if valid {
				a = g.Valid(p)
				if a.P == 1 && a.NoMeas != nil && g.R.Intn(2) == 0 {
					*a.NoMeas = []uint64{0, 2, 1 << 40}[g.R.Intn(3)] // any unsigned value asserts the flag
				}
			} else {
				// invalid through a claim that neither the dispatcher
				// (profile) nor the mutate op (client id) depends on
				a = g.Valid(p)
				k := g.R.Intn(8)
				if k >= 6 {
					// profile 1 with BOTH a component list and the
					// no-software-measurements flag
					p = 1
					a = g.Valid(1)
					one := uint64(1)
					a.NoMeas, a.HasComps = &one, true
					if len(a.Comps) == 0 {
						a.Comps = []model.Comp{g.ValidComp()}
					}
				}
				switch k {
				case 6, 7:
				case 0:
					a.ImplID = model.BP(g.Bytes(31))
				case 1:
					a.ImplID = nil
				case 2:
					a.InstID = model.BP(g.Bytes(33 + g.R.Intn(3)))
					(*a.InstID)[0] = 2
				case 3:
					a.Nonces = [][]byte{g.Bytes(33)}
				case 4:
					v := uint16(0x7000 + g.R.Intn(0x8fff))
					a.Lifecycle = &v
				default:
					a.VSI = model.SP("")
				}
				if a.Valid() {
					continue
				}
			}
			if valid && p == 2 && g.R.Intn(3) == 0 {
				a.Canon, a.Profile = extprof.ExtP2Name, model.SP(extprof.ExtP2Name)
			}
			x, err := obs.Build(a)
			if err != nil {
				continue
			}
			if xe, ok := x.(*extprof.ExtP2Claims); ok {
				ts := int64(g.R.Intn(3)) // 0 is a legitimate value: present, not absent
				xe.Timestamp = &ts
			}
			if _, err := psatoken.EncodeClaimsToCBOR(x); err != nil {
				continue
			}
			if valid != (x.Validate() == nil) {
				continue // C01's business
			}
			return x, a, nil
		}
		return nil, nil, errors.New("could not build claims")
	}
	var err error
	for _, n := range []string{"valid-1", "valid-2", "valid-t0", "valid-t1"} {
		if w.claims[n], _, err = mk(true); err != nil {
			return nil, err
		}
	}
	// in a third of the casts one of the valid claims-sets is LARGE (dozens of
	// software components): still valid, still encodable, so signing it succeeds
	if g.R.Intn(3) == 0 {
		if big, berr := psatoken.NewClaims(model.P2Name); berr == nil {
			a := g.Valid(2)
			a.Comps = nil
			for j := 0; j < 40+g.R.Intn(60); j++ {
				cp := g.ValidComp()
				cp.MVal, cp.Signer = model.BP(g.Bytes(64)), model.BP(g.Bytes(64))
				a.Comps = append(a.Comps, cp)
			}
			a.Canon, a.Profile = model.P2Name, model.SP(model.P2Name)
			if obs.SetterApply(big, a) == nil && big.Validate() == nil {
				w.claims["valid-2"] = big
				c.Count("casts-with-a-large-claims-set")
			}
		}
	}
	for _, n := range []string{"invalid", "invalid-t"} {
		if w.claims[n], _, err = mk(false); err != nil {
			return nil, err
		}
	}
	tok := func(x psatoken.IClaims, k keys.Pair) ([]byte, error) {
		e := &psatoken.Evidence{Claims: x}
		b, err := e.Sign(k.Signer)
		if err != nil {
			// a working signer and encodable claims: signing must succeed - and if it
			// reports failure nothing may verify afterwards
			verifies := e.Verify(k.Pub) == nil
			c.Violation("C19/sign-failed-with-working-signer/"+k.Name, fmt.Sprintf("Sign with a working %s signer and encodable claims failed: %v (Verify on that Evidence afterwards succeeds: %v)", k.Name, err, verifies), nil)
		}
		return b, err
	}
	if w.tokens["valid-by-0"], err = tok(w.claims["valid-t0"], w.k[0]); err != nil {
		return nil, err
	}
	if w.tokens["valid-by-1"], err = tok(w.claims["valid-t1"], w.k[1]); err != nil {
		return nil, err
	}
	if w.tokens["invalid-claims-by-0"], err = tok(w.claims["invalid-t"], w.k[0]); err != nil {
		return nil, err
	}
	t := append([]byte{}, w.tokens["valid-by-0"]...)
	env, perr := refcose.Parse(t)
	if perr != nil {
		return nil, perr
	}
	// flip one bit in the last payload byte
	t[len(t)-len(env.Signature)-headLen(len(env.Signature))-1] ^= 0x01
	w.tokens["tampered"] = t
	w.tokens["garbage"] = g.Bytes(1 + g.R.Intn(200))
	w.tokens["empty"] = []byte{}
	// a correctly signed envelope whose payload is a map that does not decode as claims
	bad := refcbor.Encode(refcbor.MapOf(refcbor.I(model.P2KProfile), refcbor.Tstr(model.P2Name), refcbor.I(model.P2KLifecycle), refcbor.Tstr("not-an-integer")))
	prot := refcbor.Encode(refcbor.MapOf(refcbor.I(1), refcbor.I(coseAlgID[algs[0]])))
	sg, serr := w.k[0].Signer.Sign(rand.Reader, refcose.SigStructure(prot, bad))
	if serr != nil {
		return nil, serr
	}
	w.tokens["undecodable-claims-by-0"] = sign1Bytes(prot, nil, bad, sg)
	return w, nil
}

func headLen(n int) int {
	switch {
	case n < 24:
		return 1
	case n < 256:
		return 2
	case n < 65536:
		return 3
	}
	return 5
}

func (w *c19World) signer(name string, g *model.Gen) cose.Signer {
	sigLen := func(k keys.Pair) int {
		s, _ := k.Signer.Sign(rand.Reader, []byte("x"))
		return len(s)
	}
	switch name {
	case "good-0":
		return w.k[0].Signer
	case "good-1":
		return w.k[1].Signer
	case "error", "nil", "empty":
		return faultSigner{alg: w.k[0].Alg, mode: name}
	case "error-with-bytes":
		return faultSigner{alg: w.k[0].Alg, mode: name, n: sigLen(w.k[0])}
	case "garbage":
		return faultSigner{alg: w.k[0].Alg, mode: "garbage", n: sigLen(w.k[0])}
	case "garbage-wrong-length":
		return faultSigner{alg: w.k[0].Alg, mode: "garbage", n: sigLen(w.k[0]) + 1 + g.R.Intn(8)}
	case "unsupported-alg":
		return faultSigner{alg: cose.Algorithm(-65000), mode: "delegate", inner: w.k[0].Signer}
	case "reserved-alg":
		return faultSigner{alg: cose.AlgorithmReserved, mode: "delegate", inner: w.k[0].Signer}
	}
	panic("unknown signer " + name)
}

// c19Run executes one history on a fresh Evidence and checks it step by step.
// It returns the number of operations executed.
func c19Run(c *mon.Ctx, g *model.Gen, w *c19World, ops []c19Op, tag string) int {
	e := &psatoken.Evidence{}
	attached := w.claims["valid-1"]
	e.Claims = attached
	const (
		envNone = iota
		envToken
		envUnknown
	)
	envKind := envNone
	var tok []byte
	var tokEnv *refcose.Envelope
	var lastOwn []byte
	replaced := false
	var produced [][2][]byte
	var trace []string
	executed := 0

	fail := func(key, what string, extra map[string]any) {
		d := map[string]any{"history": append([]string{}, trace...), "kind": tag, "algs": []string{w.k[0].Name, w.k[1].Name}}
		for k, v := range extra {
			d[k] = v
		}
		c.Violation("C19/"+key, what, d)
	}
	pks := []struct {
		name string
		pk   crypto.PublicKey
	}{{"key-0", w.k[0].Pub}, {"key-1", w.k[1].Pub}, {"other-key", w.other.Pub}, {"nil", nil},
		// values that are no key at all but have a key-container shape
		{"empty-key-slice", []crypto.PublicKey{}}, {"nil-key-slice", []crypto.PublicKey(nil)}, {"empty-any-slice", []any{}}, {"empty-struct", struct{}{}}}

	probe := func(after string) bool {
		order := g.R.Perm(len(pks))
		for _, i := range order {
			p := pks[i]
			verr := e.Verify(p.pk)
			c.Count("verify-probes")
			trace = append(trace, fmt.Sprintf("  Verify(%s) -> %v", p.name, verr == nil))
			switch envKind {
			case envNone:
				if verr == nil {
					fail("verified-without-envelope/"+after, "Verify succeeded although the last sign attempt failed / nothing was ever signed or decoded", map[string]any{"key": p.name})
					return false
				}
			case envToken:
				want := tokEnv != nil && tokEnv.Verify(p.pk) == nil
				if want != (verr == nil) {
					fail(fmt.Sprintf("verify-disagrees-with-token/%s/lib=%v", after, verr == nil),
						fmt.Sprintf("Evidence.Verify(%s)=%v but the independent verifier says %v for the token this Evidence last produced/consumed", p.name, verr, want),
						map[string]any{"key": p.name, "token_hex": mon.Hex(tok)})
					return false
				}
			}
			if verr == nil {
				c.Count("verify-successes")
				if replaced {
					c.Count("binding-skipped-claims-replaced")
					continue
				}
				present, prot, pay, sg, herr := hookEnvelope(e)
				if herr != nil || !present {
					fail("verified-without-message/"+after, fmt.Sprintf("Verify succeeded but the Evidence holds no readable envelope (%v)", herr), nil)
					return false
				}
				hp, perr := refcbor.DecodeAll(prot)
				var alg int64
				okAlg := false
				if perr == nil && hp.K == refcbor.Map {
					if vs := hp.MapGet(1); len(vs) == 1 {
						alg, okAlg = vs[0].Int64()
					}
				}
				if !okAlg || refcose.VerifyParts(alg, prot, pay, sg, p.pk) != nil {
					fail("verified-signature-does-not-cover-held-payload/"+after, "Verify succeeded but the held signature does not cover the held protected header + payload under that key (independent verifier)", map[string]any{"key": p.name, "payload_hex": mon.Hex(pay)})
					return false
				}
				if e.Claims != nil {
					ref, derr := psatoken.DecodeClaimsFromCBOR(pay)
					if derr != nil {
						fail("verified-claims-vs-undecodable-payload/"+after, "Verify succeeded with claims attached, but the covered payload does not decode as claims: "+derr.Error(), map[string]any{"payload_hex": mon.Hex(pay)})
						return false
					}
					g1, g2 := obs.Observe(e.Claims), obs.Observe(ref)
					if f1, ok1 := obs.NumField(e.Claims, "NoSwMeasurements"); true {
						if f2, ok2 := obs.NumField(ref, "NoSwMeasurements"); ok1 != ok2 || f1 != f2 {
							fail("verified-for-other-claims/no-sw-measurements-value/"+after, fmt.Sprintf("Verify succeeded but the no-software-measurements claim of the attached claims (%v %v) differs from the one in the covered payload (%v %v)", f1, ok1, f2, ok2), map[string]any{"payload_hex": mon.Hex(pay)})
							return false
						}
					}
					if fmt.Sprint(extOf(e.Claims)) != fmt.Sprint(extOf(ref)) {
						fail("verified-for-other-claims/extension-member/"+after, fmt.Sprintf("Verify succeeded but the extension claim of the attached claims (%v) differs from the one in the covered payload (%v)", extOf(e.Claims), extOf(ref)), map[string]any{"payload_hex": mon.Hex(pay)})
						return false
					}
					if d := model.ObsDiff(&g2, &g1); d != "" || g1.Validate != g2.Validate {
						fail("verified-for-other-claims/"+after, "Verify succeeded but the attached claims differ from the decoding of the payload the signature covers: "+d, map[string]any{"payload_hex": mon.Hex(pay), "attached": g1.String(), "covered": g2.String()})
						return false
					}
					c.Count("binding-checked")
				} else {
					c.Count("binding-nil-claims")
				}
			}
		}
		return true
	}

	for _, op := range ops {
		// signing with nil claims is outside the property: re-attach first
		if (op.kind == "sign" || op.kind == "vsign" || op.kind == "mutate") && e.Claims == nil {
			e.Claims = w.claims["valid-2"]
			attached = e.Claims
			replaced = true
			trace = append(trace, "assign(valid-2) [re-attach: claims were nil]")
		}
		if op.kind == "decode" && op.arg == "own-last" && lastOwn == nil {
			continue
		}
		executed++
		c.Count("ops:" + op.kind)
		var stepErr error
		ok := true
		if pn, pv, fr := mon.Guard(func() {
			switch op.kind {
			case "setclaims":
				x := w.claims[op.arg]
				err := e.SetClaims(x)
				stepErr = err
				trace = append(trace, fmt.Sprintf("%s -> err=%v", op, err != nil))
				valid := op.arg != "invalid"
				if valid != (err == nil) {
					fail("setclaims-outcome/"+op.arg, fmt.Sprintf("SetClaims(%s) returned %v", op.arg, err), nil)
					ok = false
					return
				}
				if err == nil {
					if e.Claims != x {
						fail("setclaims-not-attached", "SetClaims succeeded but other claims are attached", nil)
						ok = false
						return
					}
					if attached != x {
						replaced = true
					}
					attached = x
				} else if e.Claims != attached {
					fail("setclaims-failed-but-attached", "a failed SetClaims changed the attached claims", nil)
					ok = false
					return
				}
			case "assign":
				e.Claims = w.claims[op.arg]
				if attached != e.Claims {
					replaced = true
				}
				attached = e.Claims
				trace = append(trace, op.String())
			case "mutate":
				_ = e.Claims.SetClientID(int32(g.R.Intn(1000) + 1))
				replaced = true
				trace = append(trace, op.String())
			case "sign", "vsign":
				sname := op.arg
				s := w.signer(sname, g)
				calls := 0
				if fs, isF := s.(faultSigner); isF {
					fs.calls = &calls
					s = fs
				}
				var out []byte
				var err error
				_, encErr := psatoken.EncodeClaimsToCBOR(e.Claims)
				valErr := e.Claims.Validate()
				if op.kind == "sign" {
					out, err = e.Sign(s)
				} else {
					out, err = e.ValidateAndSign(s)
				}
				stepErr = err
				replaced = false
				trace = append(trace, fmt.Sprintf("%s -> err=%v token=%d bytes", op, err != nil, len(out)))
				if e.Claims != attached {
					fail("sign-replaced-claims/"+op.kind, "a sign operation changed which claims are attached", nil)
					ok = false
					return
				}
				if err != nil {
					c.Count("sign-failed:" + sname)
					if len(out) != 0 {
						fail("failed-sign-returned-token/"+sname, "a failed sign operation returned bytes", map[string]any{"token_hex": mon.Hex(out)})
						ok = false
						return
					}
					good := sname == "good-0" || sname == "good-1"
					if good && encErr == nil && (op.kind == "sign" || valErr == nil) {
						fail("good-sign-failed/"+op.kind, "signing with a working signer failed (after the recorded history): "+err.Error(), nil)
						ok = false
						return
					}
					envKind, tok, tokEnv = envNone, nil, nil
					return
				}
				c.Count("sign-ok:" + sname)
				if len(out) == 0 {
					fail("sign-ok-without-token/"+sname, "sign returned neither error nor token", nil)
					ok = false
					return
				}
				if op.kind == "vsign" && valErr != nil {
					fail("validate-and-sign-signed-invalid", "ValidateAndSign produced a token for claims that do not validate", nil)
					ok = false
					return
				}
				if sname == "error" || sname == "error-with-bytes" {
					fail("signer-error-ignored/"+sname, "the signer returned an error but the operation produced a token", map[string]any{"token_hex": mon.Hex(out)})
					ok = false
					return
				}
				envKind, tok = envToken, append([]byte{}, out...)
				tokEnv, _ = refcose.Parse(tok)
				lastOwn = tok
				produced = append(produced, [2][]byte{out, tok})
				if tokEnv != nil && tokEnv.Arr != nil {
					enc, _ := psatoken.EncodeClaimsToCBOR(attached)
					if !bytes.Equal(enc, tokEnv.Payload) {
						fail("signed-payload-not-attached-claims/"+op.kind, "the payload of the produced token is not the encoding of the attached claims", map[string]any{"token_hex": mon.Hex(out)})
						ok = false
						return
					}
				}
				if sname == "good-0" || sname == "good-1" {
					k := w.k[0]
					if sname == "good-1" {
						k = w.k[1]
					}
					if tokEnv == nil || tokEnv.Verify(k.Pub) != nil {
						fail("produced-token-invalid/"+op.kind, "a token produced with a working signer does not verify independently under the signer's key", map[string]any{"token_hex": mon.Hex(out)})
						ok = false
						return
					}
					if d, derr := psatoken.DecodeEvidenceFromCOSE(out); derr != nil || d.Verify(k.Pub) != nil {
						fail("produced-token-not-accepted/"+op.kind, fmt.Sprintf("a token produced with a working signer is not decodable+verifiable on its own (%v)", derr), map[string]any{"token_hex": mon.Hex(out)})
						ok = false
						return
					}
					c.Count("independent-tokens-verified")
				}
			case "decode":
				in := w.tokens[op.arg]
				if op.arg == "own-last" {
					in = lastOwn
				}
				before := e.Claims
				err := e.UnmarshalCOSE(append([]byte{}, in...))
				stepErr = err
				replaced = false
				trace = append(trace, fmt.Sprintf("%s -> err=%v", op, err != nil))
				if err != nil {
					c.Count("decode-failed:" + op.arg)
					envKind, tok, tokEnv = envUnknown, nil, nil
					if e.Claims != nil && e.Claims != before {
						fail("failed-decode-attached-new-claims/"+op.arg, "a failed UnmarshalCOSE attached new claims", nil)
						ok = false
						return
					}
					if op.arg == "valid-by-0" || op.arg == "valid-by-1" || op.arg == "invalid-claims-by-0" {
						fail("valid-token-rejected/"+op.arg, "UnmarshalCOSE rejected a well-formed token (after the recorded history): "+err.Error(), nil)
						ok = false
						return
					}
					attached = e.Claims
					return
				}
				c.Count("decode-ok:" + op.arg)
				envKind, tok = envToken, append([]byte{}, in...)
				tokEnv, _ = refcose.Parse(tok)
				attached = e.Claims
				if e.Claims == nil {
					fail("decode-ok-without-claims/"+op.arg, "UnmarshalCOSE succeeded but no claims are attached", nil)
					ok = false
					return
				}
				_ = before // (whether the library allocates a new claims object or refills the old one is its business; the CONTENT is checked below)
				if tokEnv != nil && tokEnv.Arr != nil {
					ref, derr := psatoken.DecodeClaimsFromCBOR(tokEnv.Payload)
					if derr != nil {
						fail("decode-ok-undecodable-payload/"+op.arg, "UnmarshalCOSE succeeded although the payload does not decode: "+derr.Error(), nil)
						ok = false
						return
					}
					g1, g2 := obs.Observe(e.Claims), obs.Observe(ref)
					enc1, _ := psatoken.EncodeClaimsToCBOR(e.Claims)
					enc2, _ := psatoken.EncodeClaimsToCBOR(ref)
					if d := model.ObsDiff(&g2, &g1); d != "" || !bytes.Equal(enc1, enc2) || fmt.Sprintf("%T", e.Claims) != fmt.Sprintf("%T", ref) {
						fail("decoded-claims-not-from-payload/"+op.arg, "claims attached by UnmarshalCOSE differ from the decoding of the token's payload: "+d, nil)
						ok = false
						return
					}
				}
			}
		}); pn {
			fail("panic/"+mon.PanicKey(fr), "panic in "+op.String(), map[string]any{"panic": pv, "frame": fr})
			return executed
		}
		_ = stepErr
		if !ok {
			return executed
		}
		if pn, pv, fr := mon.Guard(func() { ok = probe(op.kind + ":" + op.arg) }); pn {
			fail("panic/"+mon.PanicKey(fr), "panic in Verify after "+op.String(), map[string]any{"panic": pv, "frame": fr})
			return executed
		}
		if !ok {
			return executed
		}
	}
	// every token the history produced is still, byte for byte, what was returned
	for _, pt := range produced {
		if !bytes.Equal(pt[0], pt[1]) {
			fail("returned-token-changed-later", "a token returned by a sign operation was overwritten by a later operation on the same Evidence", map[string]any{"returned_then": mon.Hex(pt[1]), "same_slice_now": mon.Hex(pt[0])})
			return executed
		}
	}
	c.Add("produced-tokens-rechecked", int64(len(produced)))
	c.Count("histories-completed")
	return executed
}

func runC19(c *mon.Ctx) {
	c.Rule(fmt.Sprintf("histories on ONE Evidence (claims attached) over an alphabet of %d operations: SetClaims(valid|invalid; in a third of the casts one valid set has 40-100 software components), direct assignment of valid/invalid claims (invalid = wrong implementation id / instance id / nonce / life cycle / empty VSI, or profile 1 carrying both a component list and the no-software-measurements flag), outside mutation of the attached claims, Sign / ValidateAndSign with signers {working key 0, working key 1, returns error, returns error AND bytes, returns (nil,nil), returns empty, returns garbage of right / wrong length, reports an unsupported algorithm, reports the reserved algorithm}, UnmarshalCOSE of {valid token by key 0 / key 1, validly signed token with invalid claims, tampered token, garbage, empty input, validly signed envelope whose payload does not decode as claims, the token this Evidence produced last}; after EVERY operation Verify is probed with key 0, key 1, an unrelated key, nil and four key-container-shaped non-keys (empty / nil key slice, empty any-slice, empty struct) in random order. All histories of length <= 3 are enumerated exhaustively (fault kinds x positions), plus seeded random histories of length 4..30; algorithms rotate over ES256/384/512, EdDSA, PS256/384/512. Trace checker (model: attached claims identity, last envelope = none | token T | unknown-after-failed-decode, claims-replaced flag): a failed op returns no bytes; working signer + encodable (valid for ValidateAndSign) claims => success, also after any number of failures; every produced token verifies independently and on its own, its payload = encoding of the attached claims; after a failed sign every Verify fails; after producing/consuming token T, Evidence.Verify(pk) <=> independent verifier(T, pk); whenever Verify succeeds and claims were not replaced since the last sign/decode attempt, the held signature covers the held protected+payload under pk (hook H2 + stdlib crypto) and the attached claims are nil or equal to the decoding of that payload. distinct_nontrivial = distinct operation sequences (length<=3: all; longer: distinct op-kind sequences)", len(c19Alphabet)))
	if err := extprof.Register(extprof.ExtP2Name); err != nil {
		c.Violation("harness/register", err.Error(), nil)
		return
	}
	g := model.NewGen(c.Seed*2707 + int64(c.Shard))
	algPairs := [][2]string{{"ES256", "EdDSA"}, {"EdDSA", "ES256"}, {"ES384", "PS256"}, {"PS256", "ES256"}, {"ES512", "PS384"}, {"PS384", "EdDSA"}, {"PS512", "ES384"}, {"ES256", "ES256"}}
	newWorld := func(i int) *c19World {
		w, err := newC19World(c, g, algPairs[i%len(algPairs)])
		if err != nil {
			c.Violation("harness/c19-world", "could not build the cast of a history: "+err.Error(), nil)
			return nil
		}
		c.Count("alg:" + w.k[0].Name)
		return w
	}
	A := c19Alphabet
	nA := len(A)
	// exhaustive: all sequences of length 1..3
	w := newWorld(c.Shard)
	if w == nil {
		return
	}
	idx := 0
	total := 0
	for l := 1; l <= 3; l++ {
		count := 1
		for i := 0; i < l; i++ {
			count *= nA
		}
		for s := 0; s < count; s++ {
			idx++
			if !c.Mine(idx) {
				continue
			}
			ops := make([]c19Op, l)
			x := s
			name := ""
			for i := 0; i < l; i++ {
				ops[i] = A[x%nA]
				x /= nA
				name += ops[i].String() + ";"
			}
			c.Eval()
			total += c19Run(c, g, w, ops, "exhaustive")
			c.Sig(name)
			c.Count("exhaustive-histories")
			if idx%4000 == 0 {
				if w = newWorld(idx / 4000); w == nil {
					return
				}
			}
		}
	}
	c.Extra("exhaustive_history_lengths", "1..3 over the whole alphabet")
	c.Extra("alphabet", func() []string {
		var l []string
		for _, o := range A {
			l = append(l, o.String())
		}
		return l
	}())
	// random longer histories
	n := c.N(6000, 400000)
	for i := 0; i < n; i++ {
		if i%200 == 0 {
			if w = newWorld(i/200 + c.Shard); w == nil {
				return
			}
		}
		l := 4 + g.R.Intn(27)
		ops := make([]c19Op, l)
		kinds := ""
		for j := range ops {
			ops[j] = A[g.R.Intn(nA)]
			kinds += ops[j].kind[:2] + ops[j].arg[:1]
		}
		c.Eval()
		total += c19Run(c, g, w, ops, "random")
		c.Sig(kinds)
		c.Count("random-histories")
		if i < 1 {
			var l []string
			for _, o := range ops {
				l = append(l, o.String())
			}
			c.Sample("history", l)
		}
	}
	c.Add("operations-executed", int64(total))
	c.Floor("exhaustive-histories", int64(nA*nA*nA))
	c.Floor("verify-successes", 1000)
	c.Floor("binding-checked", 1000)
	c.Floor("binding-nil-claims", 20)
	c.Floor("sign-failed:error", 100)
	c.Floor("independent-tokens-verified", 1000)
}
