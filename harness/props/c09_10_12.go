package props

import (
	"bytes"
	"encoding/json"
	"fmt"
	"math"
	"reflect"
	"sort"
	"strings"
	"verif/harness/keys"
	"verif/harness/refcose"

	"github.com/veraison/psatoken"

	"verif/harness/extprof"
	"verif/harness/model"
	"verif/harness/mon"
	"verif/harness/obs"
	"verif/harness/refcbor"
)

func init() {
	register("C09", runC09)
	register("C10", runC10)
	register("C12", runC12)
}

// validCase yields a valid abstract set and its real object built by one of
// three routes.
type validCase struct {
	a     *model.Claims
	x     psatoken.IClaims
	route string
	sig   string
}

func genValidCase(c *mon.Ctx, g *model.Gen, allowExt bool) (vc validCase, ok bool) {
	p := 1 + g.R.Intn(2)
	var a *model.Claims
	var s model.Sig
	if g.R.Intn(2) == 0 {
		a = g.Valid(p)
	} else {
		a, s = g.ValidProduct(p)
	}
	if allowExt && g.R.Intn(4) == 0 {
		if p == 2 {
			a.Canon = extprof.ExtP2Name
			a.Profile = model.SP(a.Canon)
		} else {
			a.Canon = extprof.ExtP1Name
			if a.Profile != nil {
				a.Profile = model.SP(a.Canon)
			}
		}
	}
	vc.a = a
	var err error
	r0 := g.R.Intn(4)
	if a.P == 1 && a.NoMeas != nil && len(a.Comps) == 0 && g.R.Intn(2) == 0 {
		// the flag's VALUE is free (any unsigned integer asserts it) and must be kept
		*a.NoMeas = []uint64{0, 2, 255, 1 << 40}[g.R.Intn(4)]
	}
	if a.P == 1 && a.NoMeas != nil && len(a.Comps) == 0 && g.R.Intn(2) == 0 {
		// the flag's VALUE is free (any unsigned integer asserts it) and must be kept
		*a.NoMeas = []uint64{0, 2, 255, 1 << 40}[g.R.Intn(4)]
	}
	if (r0 == 1 || r0 == 3) && a.NoMeas != nil {
		*a.NoMeas = 1 // the setter can only assert the flag with value 1
	}
	switch r := r0; {
	case r == 0:
		vc.route = "direct"
		vc.x, err = obs.Build(a)
	case r == 1:
		vc.route = "setters"
		vc.x, err = obs.SetterBuild(a)
	case r == 3:
		// every setter called twice: first with other valid values (same
		// optional claims present), then with the final ones
		vc.route = "setters-over-other-values"
		other := g.Valid(a.P)
		other.Canon, other.Profile = a.Canon, nil
		if a.Profile != nil {
			other.Profile = model.SP(*a.Profile)
		}
		if a.BootSeed == nil {
			other.BootSeed = nil
		} else if other.BootSeed == nil {
			other.BootSeed = model.BP(g.Bytes(32))
		}
		if a.CertRef == nil {
			other.CertRef = nil
		}
		if a.VSI == nil {
			other.VSI = nil
		}
		if other.NoMeas != nil {
			*other.NoMeas = 1
		}
		if vc.x, err = obs.SetterBuild(other); err == nil {
			err = obs.SetterApply(vc.x, a)
		}
	default:
		vc.route = "decoded"
		if a.Canon == extprof.ExtP1Name {
			vc.x, err = obs.FromCBOR(a, refcbor.Encode(a.WireCBOR()))
		} else {
			vc.x, err = psatoken.DecodeClaimsFromCBOR(refcbor.Encode(a.WireCBOR()))
		}
	}
	if err != nil {
		c.Violation("harness/valid-case-unbuildable/"+vc.route, fmt.Sprintf("a valid claims-set could not be built via %s: %v", vc.route, err), map[string]any{"case": abstractSample(a)})
		return vc, false
	}
	vc.sig = fmt.Sprintf("%s|%s|%s|n%d|c%d|%s", a.Canon, vc.route, optSig(a), nonceLen(a), len(a.Comps), s)
	return vc, true
}

func optSig(a *model.Claims) string {
	var sb strings.Builder
	for _, b := range []bool{a.Profile != nil, a.BootSeed != nil, a.CertRef != nil, a.VSI != nil, a.NoMeas != nil} {
		if b {
			sb.WriteByte('1')
		} else {
			sb.WriteByte('0')
		}
	}
	for i := range a.Comps {
		sc := &a.Comps[i]
		fmt.Fprintf(&sb, ".%d%d%d", b2i(sc.MType != nil), b2i(sc.Version != nil), b2i(sc.Desc != nil))
	}
	return sb.String()
}

func b2i(b bool) int {
	if b {
		return 1
	}
	return 0
}

func nonceLen(a *model.Claims) int {
	if a.HasNonce && len(a.Nonces) > 0 {
		return len(a.Nonces[0])
	}
	return 0
}

func dispatchCBOR(a *model.Claims, b []byte) (psatoken.IClaims, error) {
	if a != nil && a.Canon == extprof.ExtP1Name {
		// not selectable by the CBOR dispatcher by design (its name lives under -75000)
		return obs.FromCBOR(a, b)
	}
	return psatoken.DecodeClaimsFromCBOR(b)
}

// returnedBytes remembers byte slices the library returned (the slice itself,
// not a copy, plus a private copy) and re-checks them after further library
// calls were made: an encoder that hands out a pooled / reused buffer passes an
// immediate round trip but corrupts what the caller still holds.
type returnedBytes struct {
	prop  string
	items []retained
}

type retained struct {
	got  []byte
	copy []byte
	what string
	sig  string
	obs  *model.Obs
}

func (r *returnedBytes) add(c *mon.Ctx, got []byte, what, sig string, o *model.Obs, decode func([]byte) (psatoken.IClaims, error)) {
	r.items = append(r.items, retained{got: got, copy: append([]byte{}, got...), what: what, sig: sig, obs: o})
	if len(r.items) <= 6 {
		return
	}
	it := r.items[0]
	r.items = r.items[1:]
	c.Count("returned-bytes-rechecked")
	if !bytes.Equal(it.got, it.copy) {
		c.Violation(r.prop+"/returned-bytes-changed-later/"+it.what, "bytes returned by "+it.what+" changed after further calls into the library (the caller's copy of an encoding is not stable)",
			map[string]any{"sig": it.sig, "returned_then": mon.Hex(it.copy), "same_slice_now": mon.Hex(it.got)})
		return
	}
	if decode != nil && it.obs != nil {
		y, err := decode(it.got)
		if err != nil {
			c.Violation(r.prop+"/returned-bytes-undecodable-later/"+it.what, "an encoding decoded fine right away but not after further encodes: "+err.Error(), map[string]any{"sig": it.sig})
			return
		}
		gy := obs.Observe(y)
		if d := model.ObsDiff(it.obs, &gy); d != "" {
			c.Violation(r.prop+"/returned-bytes-decode-differently-later/"+it.what, "an encoding held by the caller decodes to other claims after further encodes: "+d, map[string]any{"sig": it.sig})
		}
	}
}

// ---- C09 ----------------------------------------------------------------------------

func runC09(c *mon.Ctx) {
	c.Rule("(a) valid claims-sets of both profiles, of two registered extension profiles and of a registered extension that brings its own software-component type (stock component + one field, no hand-written codecs; built with NewClaims + setters, the field must survive the round trip) and of registered extensions with unusual struct layouts (P2Claims reached through an embedded struct of unexported type; a mixin struct embedded before P2Claims; a WIDE extension with twenty optional claims, 17..30 map entries) (all optional-claim subsets, hash sizes 32/48/64, 1-4 components, flag or list, with/without explicit P1 profile), built directly / through setters / by decoding: encode -> decode must give the same dynamic type and identical results for Validate and every getter, and encoding again must give identical bytes; returned encodings are kept and re-checked / re-decoded after six further encodes; (b) decodable-but-invalid and open-encoding tokens from the C04 generator, and tokens of the registered extension profile with the profile key repeated under another registered name, mandatory claims set to null, wire edits and extension-claim variants: decode -> encode either fails or yields bytes that decode to the same observation. distinct_nontrivial = distinct (profile, route, optional-subset, nonce size, component count, value-class) signatures")
	if err := extprof.Register(extprof.ExtP2Name, extprof.ExtP1Name); err != nil {
		c.Violation("harness/register", err.Error(), nil)
		return
	}
	g := model.NewGen(c.Seed*9001 + int64(c.Shard))
	held09 := &returnedBytes{prop: "C09"}
	n := c.N(150000, 4000000)
	for i := 0; i < n; i++ {
		vc, ok := genValidCase(c, g, true)
		if !ok {
			continue
		}
		a, x := vc.a, vc.x
		det := func() map[string]any {
			return map[string]any{"sig": vc.sig, "route": vc.route, "case": abstractSample(a), "wire_hex": mon.Hex(refcbor.Encode(a.WireCBOR()))}
		}
		if pn, pv, fr := mon.Guard(func() {
			enc1, err := psatoken.EncodeClaimsToCBOR(x)
			c.Eval()
			if err != nil {
				c.Violation("C09/valid-encode-failed/"+a.Canon, "encoding a valid claims-set failed: "+err.Error(), det())
				return
			}
			y, err := dispatchCBOR(a, enc1)
			if err != nil {
				d := det()
				d["encoded_hex"] = mon.Hex(enc1)
				c.Violation("C09/valid-decode-failed/"+a.Canon, "decoding the encoding of a valid claims-set failed: "+err.Error(), d)
				return
			}
			gx, gy := obs.Observe(x), obs.Observe(y)
			if fmt.Sprintf("%T", x) != fmt.Sprintf("%T", y) {
				c.Violation("C09/type-changed/"+a.Canon, fmt.Sprintf("round trip changed the implementation type %T -> %T", x, y), det())
				return
			}
			if d := model.ObsDiff(&gx, &gy); d != "" || gx.Validate != gy.Validate {
				dd := det()
				dd["encoded_hex"] = mon.Hex(enc1)
				c.Violation("C09/observation-changed/"+a.Canon+"/"+obsKey(&gx, &gy), "decode(encode(x)) differs from x: "+d, dd)
				return
			}
			enc2, err := psatoken.EncodeClaimsToCBOR(y)
			if err != nil || !bytes.Equal(enc1, enc2) {
				dd := det()
				dd["enc1"], dd["enc2"] = mon.Hex(enc1), mon.Hex(enc2)
				c.Violation("C09/bytes-unstable/"+a.Canon, fmt.Sprintf("encode(decode(encode(x))) != encode(x) (err=%v)", err), dd)
				return
			}
			c.Count("valid-roundtrips")
			c.Count("route:" + vc.route)
			c.Count("profile:" + a.Canon)
			if a.Canon != extprof.ExtP1Name {
				held09.add(c, enc1, "EncodeClaimsToCBOR", vc.sig, &gx, psatoken.DecodeClaimsFromCBOR)
			}
		}); pn {
			d := det()
			d["panic"], d["frame"] = pv, fr
			c.Violation("C09/panic/"+mon.PanicKey(fr), "panic during CBOR round trip", d)
		}
		c.Sig(vc.sig)
		if i < 2 {
			c.Sample("valid-roundtrip", map[string]any{"sig": vc.sig, "diag": a.WireCBOR().Diag()})
		}
	}
	// (a'') the registered extension with its own component type
	ownerExtRoundTrips(c, g, "C09", "cbor", c.N(400, 20000))
	layoutExtRoundTrips(c, g, "C09", "cbor", c.N(400, 20000))
	// (a') valid sets with many software components
	counts := []int{15, 16, 17, 23, 24, 25, 63, 64, 65, 255, 256, 257, 1000}
	if !c.Quick() {
		counts = append(counts, 4096, 65535, 65536, 65537)
	}
	for ci, nc := range counts {
		for p := 1; p <= 2; p++ {
			if !c.Mine(ci*2 + p) {
				continue
			}
			a := g.Valid(p)
			a.HasComps, a.NoMeas, a.Comps = true, nil, nil
			for j := 0; j < nc; j++ {
				a.Comps = append(a.Comps, g.ValidComp())
			}
			x, err := obs.Build(a)
			if err != nil {
				c.Violation("C09/many-components-unbuildable/"+a.Canon, fmt.Sprintf("a valid set with %d components could not be built: %v", nc, err), nil)
				continue
			}
			sig := fmt.Sprintf("component-count|P%d|%d", p, nc)
			c.Sig(sig)
			if pn, pv, fr := mon.Guard(func() {
				c.Eval()
				enc1, err := psatoken.EncodeClaimsToCBOR(x)
				if err != nil {
					c.Violation("C09/valid-encode-failed/"+a.Canon, fmt.Sprintf("encoding a valid set with %d components failed: %v", nc, err), map[string]any{"sig": sig})
					return
				}
				y, err := psatoken.DecodeClaimsFromCBOR(enc1)
				if err != nil {
					c.Violation(fmt.Sprintf("C09/valid-decode-failed/%s/components=%d", a.Canon, nc), fmt.Sprintf("the library cannot decode its own encoding of a valid set with %d components: %v", nc, err), map[string]any{"sig": sig})
					return
				}
				gx, gy := obs.Observe(x), obs.Observe(y)
				if d := model.ObsDiff(&gx, &gy); d != "" {
					c.Violation(fmt.Sprintf("C09/observation-changed/%s/components=%d", a.Canon, nc), "round trip of a set with many components changed it: "+trunc(d, 300), map[string]any{"sig": sig})
					return
				}
				if enc2, err := psatoken.EncodeClaimsToCBOR(y); err != nil || !bytes.Equal(enc1, enc2) {
					c.Violation(fmt.Sprintf("C09/bytes-unstable/%s/components=%d", a.Canon, nc), "second encoding differs", map[string]any{"sig": sig})
					return
				}
				c.Count("many-component-roundtrips")
			}); pn {
				c.Violation("C09/panic/"+mon.PanicKey(fr), "panic during round trip of a set with many components", map[string]any{"panic": pv, "frame": fr, "sig": sig})
			}
		}
	}
	// (b) decodable but invalid / open tokens
	m := c.N(150000, 4000000)
	// systematic part: every byte-string position := tag(null) / tag(undefined) / null-like forms
	var sys []*refcbor.Node
	var sysSig []string
	if c.Shard == 0 {
		for p := 1; p <= 2; p++ {
			for _, claim := range []string{"impl-id", "boot-seed", "nonce", "inst-id"} {
				for _, tg := range []uint64{2, 24, 1000} {
					for _, inner := range []*refcbor.Node{refcbor.Null(), refcbor.Undef()} {
						a := g.Valid(p)
						w := a.WireCBOR()
						for j := 0; j+1 < len(w.Items); j += 2 {
							if k, _ := w.Items[j].Int64(); k == model.KeyOf(p, claim) {
								w.Items[j+1] = refcbor.Tagged(tg, inner)
							}
						}
						sys = append(sys, w)
						sysSig = append(sysSig, fmt.Sprintf("sys|P%d|%s=tag%d(%s)", p, claim, tg, inner.Diag()))
					}
				}
			}
			for _, f := range []int64{2, 5} {
				for _, inner := range []*refcbor.Node{refcbor.Null(), refcbor.Undef()} {
					a := g.Valid(p)
					a.HasComps, a.Comps, a.NoMeas = true, []model.Comp{g.ValidComp(), g.ValidComp()}, nil
					w := a.WireCBOR()
					for j := 0; j+1 < len(w.Items); j += 2 {
						if k, _ := w.Items[j].Int64(); k == model.KeyOf(p, "sw-components") {
							cm := w.Items[j+1].Items[1]
							for q := 0; q+1 < len(cm.Items); q += 2 {
								if ck, _ := cm.Items[q].Int64(); ck == f {
									cm.Items[q+1] = refcbor.Tagged(1000, inner)
								}
							}
						}
					}
					sys = append(sys, w)
					sysSig = append(sysSig, fmt.Sprintf("sys|P%d|component.%d=tag1000(%s)", p, f, inner.Diag()))
				}
			}
		}
	}
	for i := 0; i < m+len(sys); i++ {
		var p int
		var w *refcbor.Node
		var sig string
		if i < len(sys) {
			w, sig = sys[i], sysSig[i]
			p = int(sig[5] - '0')
			c.Count("systematic-tagged-null-tokens")
		} else if i%5 == 4 {
			// decodable-but-invalid tokens of the registered P2-based EXTENSION profile
			// (decoded by the embedding-aware codec)
			p = 2
			a := g.Valid(2)
			if g.R.Intn(2) == 0 {
				a, _ = g.Mutated(2, 1)
			}
			a.Canon, a.Profile = extprof.ExtP2Name, model.SP(extprof.ExtP2Name)
			w = a.WireCBOR()
			edit := ""
			switch g.R.Intn(6) {
			case 0: // the profile key twice, another registered name second / first
				w.Items = append(w.Items, refcbor.I(model.P2KProfile), refcbor.Tstr(model.P2Name))
				edit = "dup-265:ext-then-p2"
			case 1:
				w.Items = append([]*refcbor.Node{refcbor.I(model.P2KProfile), refcbor.Tstr(model.P2Name)}, w.Items...)
				edit = "dup-265:p2-then-ext"
			case 2: // a mandatory claim := null
				k := []int64{model.P2KClientID, model.P2KLifecycle, model.P2KImplID, model.P2KNonce, model.P2KInstID, model.P2KComps}[g.R.Intn(6)]
				for q := 0; q+1 < len(w.Items); q += 2 {
					if kk, _ := w.Items[q].Int64(); kk == k {
						w.Items[q+1] = refcbor.Null()
					}
				}
				edit = fmt.Sprintf("mandatory-null:%d", k)
			case 3:
				edit = "edit:" + g.WireEdit(2, w)
			case 4:
				w.Items = append(w.Items, refcbor.I(-75100), []*refcbor.Node{refcbor.I(0), refcbor.I(-5), refcbor.Null(), refcbor.Tstr("x"), refcbor.U(1 << 40)}[g.R.Intn(5)])
				edit = "extension-claim-variant"
			default:
				edit = "plain"
			}
			sig = "wire|ExtP2|" + edit
			c.Count("extension-wire-tokens")
		} else {
			var s model.Sig
			p, _, w, s = g.WireCase()
			sig = fmt.Sprintf("wire|P%d|%s", p, s)
		}
		wire := refcbor.Encode(w)
		if pn, pv, fr := mon.Guard(func() {
			y, err := psatoken.DecodeClaimsFromCBOR(wire)
			c.Eval()
			if err != nil {
				c.Count("wire-undecodable")
				return
			}
			gy := obs.Observe(y)
			if gy.Validate == model.OK {
				c.Count("wire-decoded-valid")
			} else {
				c.Count("wire-decoded-invalid")
			}
			enc, err := psatoken.EncodeClaimsToCBOR(y)
			if err != nil {
				c.Count("invalid-encode-refused")
				return
			}
			det := map[string]any{"sig": sig, "wire_hex": mon.Hex(wire), "diag": w.Diag(), "reencoded_hex": mon.Hex(enc)}
			z, err := psatoken.DecodeClaimsFromCBOR(enc)
			if err != nil {
				c.Violation("C09/reencoded-undecodable/P"+fmt.Sprint(p), "a decoded (invalid) claims-set re-encoded to bytes that no longer decode: "+err.Error(), det)
				return
			}
			gz := obs.Observe(z)
			if fmt.Sprintf("%T", y) != fmt.Sprintf("%T", z) || model.ObsDiff(&gy, &gz) != "" || gy.Validate != gz.Validate {
				det["before"], det["after"] = gy.String(), gz.String()
				parts := strings.Split(obsKey(&gy, &gz), ",")
				if fmt.Sprintf("%T", y) != fmt.Sprintf("%T", z) {
					parts = []string{"type-changed"}
				}
				for _, part := range parts {
					c.Violation("C09/reencoded-differs/P"+fmt.Sprint(p)+"/"+part, "a decoded claims-set re-encoded to bytes that decode to something else: "+model.ObsDiff(&gy, &gz), det)
				}
				return
			}
			enc2, err := psatoken.EncodeClaimsToCBOR(z)
			if err != nil || !bytes.Equal(enc, enc2) {
				c.Violation("C09/reencoded-bytes-unstable/P"+fmt.Sprint(p), "second re-encoding differs from the first", det)
			}
			c.Count("wire-roundtrips")
		}); pn {
			c.Violation("C09/panic/"+mon.PanicKey(fr), "panic during round trip of a wire token", map[string]any{"panic": pv, "frame": fr, "wire_hex": mon.Hex(wire), "diag": w.Diag()})
		}
		c.Sig(sig)
	}
	c.Floor("many-component-roundtrips", 20)
	c.Floor("extension-wire-tokens", 1000)
	c.Floor("valid-roundtrips", 1000)
	c.Floor("wire-decoded-invalid", 1000)
	c.Floor("profile:"+extprof.ExtP2Name, 100)
	c.Floor("profile:"+extprof.ExtP1Name, 100)
}

// ---- C10 ----------------------------------------------------------------------------

// wireFormatProblems compares emitted bytes with the expected wire of the
// abstract set, using the independent reader.
func wireFormatProblems(a *model.Claims, enc []byte) []string {
	var probs []string
	ast, rest, err := refcbor.Decode(enc)
	if err != nil {
		return []string{"not well-formed CBOR: " + err.Error()}
	}
	if len(rest) != 0 {
		probs = append(probs, fmt.Sprintf("trailing-bytes:%d", len(rest)))
	}
	if ast.K != refcbor.Map {
		return append(probs, "not-a-map")
	}
	var indef func(n *refcbor.Node) bool
	indef = func(n *refcbor.Node) bool {
		if n.Indef {
			return true
		}
		for _, it := range n.Items {
			if indef(it) {
				return true
			}
		}
		return false
	}
	if indef(ast) {
		probs = append(probs, "indefinite-length")
	}
	want := map[int64]*refcbor.Node{}
	ew := a.WireCBOR()
	for i := 0; i+1 < len(ew.Items); i += 2 {
		k, _ := ew.Items[i].Int64()
		want[k] = ew.Items[i+1]
	}
	// profile 1: an empty list is never emitted (flag only)
	if a.P == 1 && len(a.Comps) == 0 {
		delete(want, model.P1KComps)
	}
	seen := map[int64]bool{}
	for i := 0; i+1 < len(ast.Items); i += 2 {
		k, ok := ast.Items[i].Int64()
		if !ok {
			probs = append(probs, "non-integer-key")
			continue
		}
		if seen[k] {
			probs = append(probs, fmt.Sprintf("duplicate-key:%d", k))
			continue
		}
		seen[k] = true
		v := ast.Items[i+1]
		w, ok := want[k]
		if !ok {
			if v.IsNull() {
				probs = append(probs, fmt.Sprintf("null-for-absent:%d", k))
			} else {
				probs = append(probs, fmt.Sprintf("unexpected-key:%d", k))
			}
			continue
		}
		if k == model.P1KNoMeas && a.P == 1 && a.NoMeas != nil && *a.NoMeas != 1 && v.K == refcbor.Uint {
			continue // open: flag value other than 1 (set obtained by decoding)
		}
		if !refcbor.Equal(v, w) {
			if v.K != w.K {
				probs = append(probs, fmt.Sprintf("wrong-type:%d", k))
			} else {
				probs = append(probs, fmt.Sprintf("wrong-value:%d", k))
			}
		}
	}
	for k := range want {
		if !seen[k] {
			probs = append(probs, fmt.Sprintf("missing-key:%d", k))
		}
	}
	if a.P == 1 && seen[model.P1KComps] && seen[model.P1KNoMeas] {
		probs = append(probs, "list-and-flag")
	}
	sort.Strings(probs)
	return probs
}

var c10Key = keys.New("ES256", 0)

func runC10(c *mon.Ctx) {
	c.Rule("valid claims-sets of both profiles (all optional subsets, hash sizes, 1-4 components with optional text incl. non-ASCII/control characters, P1 flag or list, P1 with/without explicit profile), built directly, through setters (components through the component's own setters), or obtained by decoding conformant wire tokens (incl. permuted key order and unknown extra keys); for wire tokens that are NOT conformant but that the validating decoder accepts all the same (C04's business), whatever ValidateAndEncodeClaimsToCBOR then emits must itself be conformant wire for the independent reader; also sets with 22..26 and 254..257 (thorough: 65535..65537) components (array-header boundaries); every returned encoding is kept and re-checked after six further encodes; the bytes of ValidateAndEncodeClaimsToCBOR are parsed by the independent reader and compared, as an order-insensitive map, with the expected wire of the abstract set: one definite map, no trailing bytes, no duplicate / foreign / missing keys, no null, right type and exact value, single nonce as bare bstr, never list+flag, component keys within {1,2,4,5,6}. Every 16th case also goes through ValidateAndSign twice on one Evidence with a setter call in between: both payloads are held to the wire format of the claims as they then are. distinct_nontrivial = distinct (profile, route, optional-subset, nonce size, component count) signatures")
	g := model.NewGen(c.Seed*1201 + int64(c.Shard))
	held10 := &returnedBytes{prop: "C10"}
	// registered extensions with unusual struct layouts: what they emit must hold
	// the base profile's claims (checked through the decode + observation there)
	layoutExtRoundTrips(c, g, "C10", "cbor", c.N(300, 10000))
	// component lists at the CBOR array-header boundaries
	counts := []int{22, 23, 24, 25, 26, 254, 255, 256, 257}
	if !c.Quick() {
		counts = append(counts, 65535, 65536, 65537)
	}
	for ci, n := range counts {
		for p := 1; p <= 2; p++ {
			if !c.Mine(ci*2 + p) {
				continue
			}
			a := g.Valid(p)
			a.HasComps, a.NoMeas, a.Comps = true, nil, nil
			for j := 0; j < n; j++ {
				a.Comps = append(a.Comps, g.ValidComp())
			}
			for _, route := range []string{"direct", "setters", "decoded"} {
				var x psatoken.IClaims
				var err error
				switch route {
				case "direct":
					x, err = obs.Build(a)
				case "setters":
					x, err = obs.SetterBuild(a)
				default:
					x, err = psatoken.DecodeClaimsFromCBOR(refcbor.Encode(a.WireCBOR()))
				}
				sig := fmt.Sprintf("component-count|P%d|%d|%s", p, n, route)
				c.Sig(sig)
				if err != nil {
					c.Violation(fmt.Sprintf("C10/P%d/many-components-unbuildable", p), fmt.Sprintf("a valid claims-set with %d components could not be obtained via %s: %v", n, route, err), map[string]any{"sig": sig})
					continue
				}
				var enc []byte
				if pn, pv, fr := mon.Guard(func() { enc, err = psatoken.ValidateAndEncodeClaimsToCBOR(x) }); pn {
					c.Violation("C10/panic/"+mon.PanicKey(fr), "panic while encoding", map[string]any{"panic": pv, "frame": fr, "sig": sig})
					continue
				}
				c.Eval()
				if err != nil {
					c.Violation(fmt.Sprintf("C10/P%d/encode-failed", p), fmt.Sprintf("encoding a valid set with %d components failed: %v", n, err), map[string]any{"sig": sig})
					continue
				}
				if probs := wireFormatProblems(a, enc); len(probs) > 0 {
					c.Violation(fmt.Sprintf("C10/P%d/components=%d/%s", p, n, probs[0]), fmt.Sprintf("emitted CBOR of a set with %d components deviates from the wire format: %v", n, probs), map[string]any{"sig": sig, "emitted_hex_prefix": mon.Hex(enc[:min(len(enc), 200)])})
					continue
				}
				// and it must come back
				if y, derr := psatoken.DecodeAndValidateClaimsFromCBOR(enc); derr != nil {
					c.Violation(fmt.Sprintf("C10/P%d/components=%d/not-decodable", p, n), "own encoding of a valid set does not decode+validate: "+derr.Error(), map[string]any{"sig": sig})
				} else if scs, gerr := y.GetSoftwareComponents(); gerr != nil || len(scs) != n {
					c.Violation(fmt.Sprintf("C10/P%d/components=%d/count-changed", p, n), fmt.Sprintf("%d components came back (%v)", len(scs), gerr), map[string]any{"sig": sig})
				}
				c.Count("component-count-boundary-cases")
			}
		}
	}
	n := c.N(250000, 6000000)
	for i := 0; i < n; i++ {
		var a *model.Claims
		var x psatoken.IClaims
		var sig string
		if i%3 == 2 {
			// obtained by decoding a conformant token
			p, _, w, s := g.WireCase()
			wire := refcbor.Encode(w)
			ast, err := refcbor.DecodeAll(wire)
			if err != nil {
				continue
			}
			wi := model.ReadWire(ast, nil)
			if wi.Verdict != model.Accept {
				// not (clearly) conformant: whether the library accepts it is C04's
				// business - but IF it does, and the validating encoder then emits
				// something, that output must be conformant wire by the independent
				// reader's judgement (whatever the input looked like)
				c.Count("wire-not-conformant")
				var out []byte
				var eerr error
				if pn, pv, fr := mon.Guard(func() {
					var y psatoken.IClaims
					if y, eerr = psatoken.DecodeAndValidateClaimsFromCBOR(wire); eerr == nil {
						out, eerr = psatoken.ValidateAndEncodeClaimsToCBOR(y)
					}
				}); pn {
					c.Violation("C10/panic/"+mon.PanicKey(fr), "panic while decoding / encoding", map[string]any{"panic": pv, "frame": fr, "wire_hex": mon.Hex(wire)})
					continue
				}
				c.Eval()
				if eerr != nil {
					continue
				}
				c.Count("emitted-after-accepting-nonconformant-input")
				if oast, oerr := refcbor.DecodeAll(out); oerr != nil {
					c.Violation(fmt.Sprintf("C10/P%d/emitted-unreadable", p), "the validating encoder emitted bytes the independent reader cannot parse: "+oerr.Error(), map[string]any{"emitted_hex": mon.Hex(out), "input_hex": mon.Hex(wire)})
				} else if owi := model.ReadWire(oast, nil); owi.Verdict == model.Reject {
					c.Violation(fmt.Sprintf("C10/P%d/emitted-nonconformant/%s/%d", p, owi.WrongKind, owi.WrongKey), "the validating encoder emitted a token that is not conformant wire ("+owi.Why+"): "+trunc(oast.Diag(), 300),
						map[string]any{"emitted_hex": mon.Hex(out), "input_hex": mon.Hex(wire), "sig": s.String()})
				}
				continue
			}
			y, err := psatoken.DecodeAndValidateClaimsFromCBOR(wire)
			if err != nil {
				c.Count("wire-rejected-by-library") // C04's business
				continue
			}
			a, x = wi.Claims, y
			sig = fmt.Sprintf("decoded-wire|P%d|%s", p, s)
			c.Count("route:decoded-wire")
		} else {
			vc, ok := genValidCase(c, g, false)
			if !ok {
				continue
			}
			a, x, sig = vc.a, vc.x, vc.sig
			c.Count("route:" + vc.route)
		}
		var enc []byte
		var err error
		if pn, pv, fr := mon.Guard(func() { enc, err = psatoken.ValidateAndEncodeClaimsToCBOR(x) }); pn {
			c.Violation("C10/panic/"+mon.PanicKey(fr), "panic while encoding", map[string]any{"panic": pv, "frame": fr, "sig": sig})
			continue
		}
		c.Eval()
		if err != nil {
			c.Violation(fmt.Sprintf("C10/P%d/encode-failed", a.P), "ValidateAndEncodeClaimsToCBOR failed on a valid claims-set: "+err.Error(), map[string]any{"sig": sig, "case": abstractSample(a)})
			continue
		}
		c.Sig(sig)
		c.Count(fmt.Sprintf("emitted:P%d", a.P))
		if probs := wireFormatProblems(a, enc); len(probs) > 0 {
			c.Violation(fmt.Sprintf("C10/P%d/%s", a.P, probs[0]), fmt.Sprintf("emitted CBOR deviates from the profile's wire format: %v", probs),
				map[string]any{"sig": sig, "emitted_hex": mon.Hex(enc), "expected_diag": a.WireCBOR().Diag(), "problems": probs})
		}
		held10.add(c, enc, "ValidateAndEncodeClaimsToCBOR", sig, nil, nil)
		if i < 2 {
			c.Sample("emitted", map[string]any{"sig": sig, "hex": mon.Hex(enc)})
		}
		if i%16 == 5 {
			// the payload ValidateAndSign emits is held to the same wire format - also
			// on the SECOND signing of one Evidence after a setter changed a claim
			// (seeded fault C10-v: the payload of the message already held is handed
			// out again)
			if pn, pv, fr := mon.Guard(func() {
				ev := &psatoken.Evidence{}
				if ev.SetClaims(x) != nil {
					return
				}
				for round := 0; round < 2; round++ {
					tok, serr := ev.ValidateAndSign(c10Key.Signer)
					c.Eval()
					if serr != nil {
						c.Violation(fmt.Sprintf("C10/P%d/validate-and-sign-failed", a.P), "ValidateAndSign failed on a valid claims-set: "+serr.Error(), map[string]any{"sig": sig, "round": round})
						return
					}
					env, perr := refcose.Parse(tok)
					if perr != nil {
						c.Violation(fmt.Sprintf("C10/P%d/signed-token-unreadable", a.P), "independent reader cannot parse the signed token: "+perr.Error(), map[string]any{"sig": sig})
						return
					}
					if probs := wireFormatProblems(a, env.Payload); len(probs) > 0 {
						c.Violation(fmt.Sprintf("C10/P%d/signed-payload/round-%d/%s", a.P, round, probs[0]), fmt.Sprintf("payload of ValidateAndSign (signing #%d on this Evidence) deviates from the wire format of the claims as they are: %v", round+1, probs),
							map[string]any{"sig": sig, "payload_hex": mon.Hex(env.Payload), "expected_diag": a.WireCBOR().Diag()})
						return
					}
					c.Count("signed-payloads-checked")
					cid := int32(g.R.Uint32())
					if x.SetClientID(cid) != nil {
						return
					}
					a.ClientID = &cid
				}
			}); pn {
				c.Violation("C10/panic/"+mon.PanicKey(fr), "panic while signing", map[string]any{"panic": pv, "frame": fr, "sig": sig})
			}
		}
	}
	c.Floor("component-count-boundary-cases", 30)
	c.Floor("emitted:P1", 1000)
	c.Floor("emitted:P2", 1000)
	c.Floor("route:decoded-wire", 500)
}

// ---- C12 ----------------------------------------------------------------------------

// jsonProblems compares an emitted JSON document with the expected members.
func jsonProblems(a *model.Claims, doc []byte, extra map[string]bool) []string {
	var probs []string
	var raw map[string]json.RawMessage
	if err := json.Unmarshal(doc, &raw); err != nil {
		return []string{"not-json-object"}
	}
	// duplicate member names are invisible to map decoding: scan tokens
	dec := json.NewDecoder(bytes.NewReader(doc))
	depth := 0
	names := map[string]int{}
	expectKey := false
	for {
		t, err := dec.Token()
		if err != nil {
			break
		}
		switch v := t.(type) {
		case json.Delim:
			switch v {
			case '{':
				depth++
				expectKey = depth == 1
			case '[':
				depth++
			case '}', ']':
				depth--
				expectKey = depth == 1
			}
		case string:
			if depth == 1 && expectKey {
				names[v]++
				expectKey = false
				continue
			}
			expectKey = depth == 1
		default:
			expectKey = depth == 1
		}
	}
	for n, k := range names {
		if k > 1 {
			probs = append(probs, "duplicate-member:"+n)
		}
	}
	want := map[string]string{}
	for _, m := range a.JSONMembers() {
		want[m.Name] = m.Value
	}
	if a.P == 1 && len(a.Comps) == 0 {
		delete(want, model.JSONName(1, "sw-components"))
	}
	for name, rv := range raw {
		wv, ok := want[name]
		if !ok {
			if extra[name] {
				continue
			}
			if string(rv) == "null" {
				probs = append(probs, "null-for-absent:"+name)
			} else if model.JSONNames(a.P)[name] {
				probs = append(probs, "absent-claim-present:"+name)
			} else {
				probs = append(probs, "undocumented-member:"+name)
			}
			continue
		}
		var x, y any
		if json.Unmarshal(rv, &x) != nil || json.Unmarshal([]byte(wv), &y) != nil || !reflect.DeepEqual(x, y) {
			probs = append(probs, "wrong-value:"+name)
		}
	}
	for name := range want {
		if _, ok := raw[name]; !ok {
			probs = append(probs, "missing-member:"+name)
		}
	}
	sort.Strings(probs)
	return probs
}

func runC12(c *mon.Ctx) {
	c.Rule("valid claims-sets of both profiles, a registered profile-2 extension (its integer claim over the whole int64 range) and a registered extension that brings its own software-component type (stock component + one field, codecs left to the JSON library; the field must survive the round trip) and of registered extensions with unusual struct layouts (P2Claims reached through an embedded struct of unexported type; a mixin struct embedded before P2Claims; a WIDE extension with twenty optional claims, 17..30 map entries) ; sets with 15..2500 (thorough: ..20000) software components, i.e. JSON documents up to several MB (text claims drawn from non-ASCII / control / quote / HTML / U+2028 strings, negative client ids, P1 with and without explicit profile claim), built directly / by setters / by decoding: (1) EncodeClaimsToJSON -> each of the four dispatching JSON decoders in turn (DecodeClaimsFromJSON, DecodeAndValidateClaimsFromJSON and the deprecated DecodeUnvalidatedJSONClaims / DecodeJSONClaims) gives identical Validate + getter results and type; (2) CBOR -> claims -> JSON -> claims -> CBOR reproduces the CBOR bytes; (3) every returned JSON document is also kept by the monitor and re-checked / re-decoded after six further encodes (a caller encodes several tokens before sending them); (4) the JSON document, parsed generically, has exactly the documented member names of the claims that are set, standard base64 for byte strings, no member for an absent optional claim (incl. null), no duplicate members; also through Evidence.MarshalJSON - on one Evidence: encode, edit the attached claims in place, encode (must show the edit), edit back, encode (must equal the first). distinct_nontrivial = distinct (profile, route, optional-subset, nonce size, component count, text-class) signatures")
	if err := extprof.Register(extprof.ExtP2Name); err != nil {
		c.Violation("harness/register", err.Error(), nil)
		return
	}
	g := model.NewGen(c.Seed*5003 + int64(c.Shard))
	held12 := &returnedBytes{prop: "C12"}
	ownerExtRoundTrips(c, g, "C12", "json", c.N(400, 20000))
	layoutExtRoundTrips(c, g, "C12", "json", c.N(400, 20000))
	// valid sets with many software components (large documents)
	{
		counts := []int{15, 64, 255, 256, 400, 1000, 2500}
		if !c.Quick() {
			counts = append(counts, 4096, 20000)
		}
		for ci, nc := range counts {
			for p := 1; p <= 2; p++ {
				if !c.Mine(ci*2 + p) {
					continue
				}
				a := g.Valid(p)
				a.HasComps, a.NoMeas, a.Comps = true, nil, nil
				for j := 0; j < nc; j++ {
					cp := g.ValidComp()
					if j%3 == 0 {
						cp.MVal, cp.Signer = model.BP(g.Bytes(64)), model.BP(g.Bytes(64))
					}
					a.Comps = append(a.Comps, cp)
				}
				sig := fmt.Sprintf("component-count|P%d|%d", p, nc)
				c.Sig(sig)
				if pn, pv, fr := mon.Guard(func() {
					c.Eval()
					x, err := obs.Build(a)
					if err != nil {
						c.Violation("C12/many-components-unbuildable/"+a.Canon, err.Error(), nil)
						return
					}
					cb1, err := psatoken.ValidateAndEncodeClaimsToCBOR(x)
					if err != nil {
						c.Violation(fmt.Sprintf("C12/valid-encode-failed/%s/components=%d", a.Canon, nc), "CBOR encoding of a valid set failed: "+err.Error(), map[string]any{"sig": sig})
						return
					}
					doc, err := psatoken.ValidateAndEncodeClaimsToJSON(x)
					if err != nil {
						c.Violation(fmt.Sprintf("C12/valid-encode-failed/%s/components=%d", a.Canon, nc), "JSON encoding of a valid set failed: "+err.Error(), map[string]any{"sig": sig})
						return
					}
					y, err := psatoken.DecodeAndValidateClaimsFromJSON(doc)
					if err != nil {
						c.Violation(fmt.Sprintf("C12/own-json-rejected/%s/components=%d", a.Canon, nc), fmt.Sprintf("the dispatching decoder refuses the library's own JSON encoding (%d bytes) of a valid set with %d components: %v", len(doc), nc, err), map[string]any{"sig": sig, "json_bytes": len(doc), "cbor_bytes": len(cb1)})
						return
					}
					gx, gy := obs.Observe(x), obs.Observe(y)
					if d := model.ObsDiff(&gx, &gy); d != "" {
						c.Violation(fmt.Sprintf("C12/observation-changed/%s/components=%d", a.Canon, nc), "JSON round trip of a set with many components changed it: "+trunc(d, 300), map[string]any{"sig": sig})
						return
					}
					cb2, err := psatoken.ValidateAndEncodeClaimsToCBOR(y)
					if err != nil || !bytes.Equal(cb1, cb2) {
						c.Violation(fmt.Sprintf("C12/cross-format-bytes-differ/%s/components=%d", a.Canon, nc), fmt.Sprintf("CBOR -> claims -> JSON -> claims -> CBOR does not reproduce the bytes (%v)", err), map[string]any{"sig": sig})
						return
					}
					c.Count("many-component-json-roundtrips")
				}); pn {
					c.Violation("C12/panic/"+mon.PanicKey(fr), "panic during JSON round trip of a set with many components", map[string]any{"panic": pv, "frame": fr, "sig": sig})
				}
			}
		}
	}
	n := c.N(150000, 4000000)
	for i := 0; i < n; i++ {
		vc, ok := genValidCase(c, g, false)
		if !ok {
			continue
		}
		a, x := vc.a, vc.x
		if a.P == 2 && g.R.Intn(5) == 0 && vc.route != "decoded" {
			a.Canon = extprof.ExtP2Name
			a.Profile = model.SP(a.Canon)
			var err error
			if x, err = obs.Build(a); err != nil {
				continue
			}
			vc.sig = "ext|" + vc.sig
			// the extension's integer claim over the whole int64 range (JSON numbers
			// above 2^53 do not survive a detour through float64)
			if xe, ok := x.(*extprof.ExtP2Claims); ok && g.R.Intn(3) != 0 {
				ts := []int64{0, 1, 1<<53 - 1, 1<<53 + 1, 1721138454123456789, 1<<62 + 1, math.MaxInt64 - 1, math.MaxInt64}[g.R.Intn(8)]
				xe.Timestamp = &ts
				c.Count("extension-int64-claims")
			}
		}
		det := func() map[string]any {
			return map[string]any{"sig": vc.sig, "route": vc.route, "case": abstractSample(a), "wire_hex": mon.Hex(refcbor.Encode(a.WireCBOR()))}
		}
		// every dispatching JSON decoder in turn (the two current ones and the two deprecated aliases)
		jsonDecoders := []struct {
			name string
			fn   func([]byte) (psatoken.IClaims, error)
		}{{"DecodeClaimsFromJSON", psatoken.DecodeClaimsFromJSON}, {"DecodeAndValidateClaimsFromJSON", psatoken.DecodeAndValidateClaimsFromJSON},
			{"DecodeUnvalidatedJSONClaims", psatoken.DecodeUnvalidatedJSONClaims}, {"DecodeJSONClaims", psatoken.DecodeJSONClaims}}
		jd := jsonDecoders[(i/4)%4]
		c.Count("json-decoder:" + jd.name)
		profTag := fmt.Sprintf("P%d", a.P)
		if a.P == 1 && a.Profile == nil {
			profTag = "P1-no-profile-claim"
		}
		if pn, pv, fr := mon.Guard(func() {
			var doc []byte
			var err error
			if i%4 == 0 {
				// through Evidence.MarshalJSON, on ONE Evidence: encode, edit the attached
				// claims in place (client id), encode again, edit back, encode a third
				// time (seeded fault C12-u: a JSON cache keyed on the claims pointer)
				ev := &psatoken.Evidence{Claims: x}
				cid0, _ := x.GetClientID()
				first, err1 := ev.MarshalJSON()
				other := cid0 ^ 0x5a5a
				_ = x.SetClientID(other)
				second, err2 := ev.MarshalJSON()
				_ = x.SetClientID(cid0)
				doc, err = ev.MarshalJSON()
				c.Count("evidence-marshaljson-after-in-place-edit")
				if err1 == nil && err2 == nil && err == nil {
					if y2, derr := psatoken.DecodeClaimsFromJSON(second); derr != nil {
						c.Violation("C12/"+profTag+"/evidence-json-after-edit/decode-failed", "Evidence.MarshalJSON after an in-place edit of the attached claims is not decodable: "+derr.Error(), det())
					} else if got, gerr := y2.GetClientID(); gerr != nil || got != other {
						d := det()
						d["first"], d["second"] = string(first), string(second)
						c.Violation("C12/"+profTag+"/evidence-json-stale-after-edit", fmt.Sprintf("Evidence.MarshalJSON after SetClientID(%d) on the attached claims still encodes client id %d (%v)", other, got, gerr), d)
					}
					if !bytes.Equal(first, doc) {
						c.Violation("C12/"+profTag+"/evidence-json-differs-after-edit-back", "Evidence.MarshalJSON differs after the claims were edited and edited back", det())
					}
				}
			} else {
				doc, err = psatoken.EncodeClaimsToJSON(x)
			}
			c.Eval()
			if err != nil {
				c.Violation("C12/"+profTag+"/encode-failed", "JSON encoding of a valid claims-set failed: "+err.Error(), det())
				return
			}
			c.Count("json-documents:" + profTag)
			var extraMembers map[string]bool
			if xe, ok := x.(*extprof.ExtP2Claims); ok && xe.Timestamp != nil {
				extraMembers = map[string]bool{"timestamp": true}
			}
			if probs := jsonProblems(a, doc, extraMembers); len(probs) > 0 {
				d := det()
				d["json"], d["problems"] = string(doc), probs
				c.Violation("C12/"+profTag+"/format/"+probs[0], fmt.Sprintf("emitted JSON deviates from the documented form: %v", probs), d)
			}
			y, err := jd.fn(doc)
			if err != nil {
				d := det()
				d["json"], d["decoder"] = string(doc), jd.name
				k := "C12/" + profTag + "/decode-failed"
				if jd.name != "DecodeClaimsFromJSON" {
					k += "/" + jd.name
				}
				c.Violation(k, "the dispatching JSON decoder "+jd.name+" rejected the JSON encoding of a valid claims-set: "+err.Error(), d)
				return
			}
			gx, gy := obs.Observe(x), obs.Observe(y)
			if fmt.Sprintf("%T", x) != fmt.Sprintf("%T", y) || model.ObsDiff(&gx, &gy) != "" || gx.Validate != gy.Validate {
				d := det()
				d["json"], d["before"], d["after"] = string(doc), gx.String(), gy.String()
				c.Violation("C12/"+profTag+"/observation-changed/"+obsKey(&gx, &gy), fmt.Sprintf("JSON round trip changed the claims (%T -> %T): %s", x, y, model.ObsDiff(&gx, &gy)), d)
				return
			}
			c.Count("json-roundtrips")
			held12.add(c, doc, "EncodeClaimsToJSON", vc.sig, &gx, psatoken.DecodeClaimsFromJSON)
			// CBOR -> claims -> JSON -> claims -> CBOR
			c1, err := psatoken.EncodeClaimsToCBOR(x)
			if err != nil {
				return // C09's business
			}
			x2, err := psatoken.DecodeClaimsFromCBOR(c1)
			if err != nil {
				return
			}
			j2, err := psatoken.EncodeClaimsToJSON(x2)
			if err != nil {
				c.Violation("C12/"+profTag+"/encode-failed", "JSON encoding of CBOR-decoded claims failed: "+err.Error(), det())
				return
			}
			y2, err := jd.fn(j2)
			if err != nil {
				d := det()
				d["json"], d["decoder"] = string(j2), jd.name
				c.Violation("C12/"+profTag+"/decode-failed", "CBOR->claims->JSON->claims: JSON decoding ("+jd.name+") failed: "+err.Error(), d)
				return
			}
			c2, err := psatoken.EncodeClaimsToCBOR(y2)
			if err != nil || !bytes.Equal(c1, c2) {
				d := det()
				d["cbor1"], d["cbor2"], d["json"] = mon.Hex(c1), mon.Hex(c2), string(j2)
				c.Violation("C12/"+profTag+"/cbor-json-cbor-differs", fmt.Sprintf("CBOR -> claims -> JSON -> claims -> CBOR does not reproduce the bytes (err=%v)", err), d)
				return
			}
			c.Count("cbor-json-cbor")
		}); pn {
			d := det()
			d["panic"], d["frame"] = pv, fr
			c.Violation("C12/panic/"+mon.PanicKey(fr), "panic during JSON round trip", d)
		}
		c.Sig(vc.sig + "|" + textSig(a))
		if i < 2 {
			c.Sample("json", map[string]any{"sig": vc.sig, "json": string(a.WireJSON())})
		}
	}
	c.Floor("returned-bytes-rechecked", 1000)
	c.Floor("many-component-json-roundtrips", 10)
	c.Floor("json-documents:P1", 500)
	c.Floor("extension-int64-claims", 100)
	c.Floor("json-decoder:DecodeJSONClaims", 1000)
	c.Floor("json-documents:P2", 500)
	c.Floor("json-documents:P1-no-profile-claim", 200)
}

func textSig(a *model.Claims) string {
	cls := func(s *string) string {
		if s == nil {
			return "-"
		}
		for _, r := range *s {
			switch {
			case r < 0x20:
				return "ctl"
			case r == '"' || r == '\\':
				return "quote"
			case r == '<' || r == '&':
				return "html"
			case r > 0x7f:
				return "nonascii"
			}
		}
		return "ascii"
	}
	out := cls(a.VSI)
	for i := range a.Comps {
		out += cls(a.Comps[i].MType) + cls(a.Comps[i].Version) + cls(a.Comps[i].Desc)
	}
	return out
}

// ownerExtRoundTrips: valid claims-sets of the registered extension profile
// that brings its own software-component type (stock component + "owner"
// field, codecs left to the CBOR / JSON libraries) are built with NewClaims +
// setters, encoded, decoded through the dispatching decoder, and compared:
// same implementation and component type, same getter results, same owner per
// component, byte-identical second encoding.
func ownerExtRoundTrips(c *mon.Ctx, g *model.Gen, prop, format string, n int) {
	if err := extprof.Register(extprof.ExtOwnerName); err != nil {
		c.Violation("harness/register", err.Error(), nil)
		return
	}
	enc, dec := psatoken.ValidateAndEncodeClaimsToCBOR, psatoken.DecodeAndValidateClaimsFromCBOR
	if format == "json" {
		enc, dec = psatoken.ValidateAndEncodeClaimsToJSON, psatoken.DecodeAndValidateClaimsFromJSON
	}
	for i := 0; i < n; i++ {
		a := g.Valid(2)
		a.Canon, a.Profile = extprof.ExtOwnerName, model.SP(extprof.ExtOwnerName)
		var owners []*string
		sig := fmt.Sprintf("owner-ext|%s|comps=%d", format, len(a.Comps))
		pn, pv, fr := mon.Guard(func() {
			c.Eval()
			b := a.Clone()
			b.Comps = nil
			x, err := obs.SetterBuild(b) // NewClaims(extension name) + setters, components follow
			if err != nil {
				c.Violation(prop+"/owner-ext/setters-refused", "NewClaims / setters refused a valid value: "+err.Error(), map[string]any{"sig": sig})
				return
			}
			var scs []psatoken.ISwComponent
			for j := range a.Comps {
				oc := &extprof.OwnerComponent{SwComponent: *obs.RealComp(&a.Comps[j])}
				if g.R.Intn(4) != 0 {
					oc.Owner = model.SP(g.NonEmptyText())
				}
				owners = append(owners, oc.Owner)
				scs = append(scs, oc)
			}
			if err := x.SetSoftwareComponents(scs); err != nil {
				c.Violation(prop+"/owner-ext/setters-refused", "SetSoftwareComponents refused valid components of the extension's type: "+err.Error(), map[string]any{"sig": sig})
				return
			}
			want := a.Expect()
			if got := obs.Observe(x); model.ObsDiff(&want, &got) != "" {
				c.Violation(prop+"/owner-ext/built-object-differs", "object built with setters differs from the model: "+trunc(model.ObsDiff(&want, &got), 300), map[string]any{"sig": sig})
				return
			}
			e1, err := enc(x)
			if err != nil {
				c.Violation(prop+"/owner-ext/valid-encode-failed/"+format, "encoding a valid set failed: "+err.Error(), map[string]any{"sig": sig})
				return
			}
			y, err := dec(e1)
			if err != nil {
				c.Violation(prop+"/owner-ext/valid-decode-failed/"+format, "the library cannot decode its own encoding: "+err.Error(), map[string]any{"sig": sig, "encoding": mon.Hex(e1)})
				return
			}
			if _, ok := y.(*extprof.ExtOwnerClaims); !ok {
				c.Violation(prop+"/owner-ext/other-implementation/"+format, fmt.Sprintf("decoded into %T", y), map[string]any{"sig": sig})
				return
			}
			if got := obs.Observe(y); model.ObsDiff(&want, &got) != "" {
				c.Violation(prop+"/owner-ext/observation-changed/"+format, "round trip changed the claims: "+trunc(model.ObsDiff(&want, &got), 300), map[string]any{"sig": sig, "encoding": mon.Hex(e1)})
				return
			}
			comps, err := y.GetSoftwareComponents()
			if err != nil || len(comps) != len(owners) {
				c.Violation(prop+"/owner-ext/components-changed/"+format, fmt.Sprintf("components after the round trip: %d (%v), want %d", len(comps), err, len(owners)), map[string]any{"sig": sig})
				return
			}
			for j, sc := range comps {
				oc, ok := sc.(*extprof.OwnerComponent)
				if !ok {
					c.Violation(prop+"/owner-ext/component-type-changed/"+format, fmt.Sprintf("component %d came back as %T", j, sc), map[string]any{"sig": sig})
					return
				}
				if (oc.Owner == nil) != (owners[j] == nil) || (oc.Owner != nil && *oc.Owner != *owners[j]) {
					c.Violation(prop+"/owner-ext/component-field-lost/"+format, fmt.Sprintf("component %d: the extension's own field changed in the round trip (want %v, got %v)", j, strp(owners[j]), strp(oc.Owner)), map[string]any{"sig": sig, "encoding": mon.Hex(e1)})
					return
				}
			}
			e2, err := enc(y)
			if err != nil || !bytes.Equal(e1, e2) {
				c.Violation(prop+"/owner-ext/bytes-unstable/"+format, fmt.Sprintf("second encoding differs (%v)", err), map[string]any{"sig": sig, "first": mon.Hex(e1), "second": mon.Hex(e2)})
				return
			}
			c.Count("owner-extension-roundtrips")
		})
		if pn {
			c.Violation(prop+"/panic/"+mon.PanicKey(fr), "panic during round trip of the own-component-type extension", map[string]any{"panic": pv, "frame": fr, "sig": sig})
		}
		c.Sig(sig)
	}
	c.Floor("owner-extension-roundtrips", 50)
}

func strp(p *string) string {
	if p == nil {
		return "<nil>"
	}
	return fmt.Sprintf("%q", *p)
}

// layoutExtRoundTrips: valid claims-sets of registered extension profiles with
// unusual struct layouts - P2Claims reached through an embedded struct of
// UNEXPORTED type (three levels; with a '-' bookkeeping field that is not last, a
// claim whose tag lists omitempty before keyasint, a CBOR-only and a JSON-only
// claim), and a mixin struct embedded BEFORE P2Claims -
// built with NewClaims + setters, extension claims set, encoded, decoded through
// the dispatching decoder, compared (implementation, getters, extension claims),
// encoded again (byte-identical). The emitted map must contain the profile
// claim and the extension claims (independent reader / generic JSON parse).
func layoutExtRoundTrips(c *mon.Ctx, g *model.Gen, prop, format string, n int) {
	if err := extprof.Register(extprof.ExtNestedName, extprof.MixinName, extprof.ExtWideName); err != nil {
		c.Violation("harness/register", err.Error(), nil)
		return
	}
	enc, dec := psatoken.ValidateAndEncodeClaimsToCBOR, psatoken.DecodeAndValidateClaimsFromCBOR
	if format == "json" {
		enc, dec = psatoken.ValidateAndEncodeClaimsToJSON, psatoken.DecodeAndValidateClaimsFromJSON
	}
	extOf := func(x psatoken.IClaims) []string {
		var ps []*string
		switch t := x.(type) {
		case *extprof.ExtNestedClaims:
			v, p := t.NestedFields()
			ps = []*string{*v, *p, t.VSI}
			if format == "json" {
				ps = append(ps, t.Comment) // the JSON-only claim
			} else {
				ps = append(ps, t.Internal) // the CBOR-only claim
			}
		case *extprof.MixinClaims:
			ps = []*string{t.Mixin}
		case *extprof.ExtWideClaims:
			for _, w := range t.Wide() {
				ps = append(ps, *w)
			}
		}
		var out []string
		for _, p := range ps {
			out = append(out, strp(p))
		}
		return out
	}
	for i := 0; i < n; i++ {
		a := g.Valid(2)
		layout, name := "nested-unexported-base", extprof.ExtNestedName
		if i%2 == 1 {
			layout, name = "mixin-first", extprof.MixinName
		}
		if i%4 == 2 {
			layout, name = "wide", extprof.ExtWideName
		}
		a.Canon, a.Profile = name, model.SP(name)
		sig := fmt.Sprintf("layout-ext|%s|%s|comps=%d", layout, format, len(a.Comps))
		pn, pv, fr := mon.Guard(func() {
			c.Eval()
			x, err := obs.SetterBuild(a)
			if err != nil {
				c.Violation(prop+"/layout-ext/setters-refused/"+layout, "NewClaims / setters refused a valid value: "+err.Error(), map[string]any{"sig": sig})
				return
			}
			switch t := x.(type) {
			case *extprof.ExtNestedClaims:
				v, p := t.NestedFields()
				if g.R.Intn(4) != 0 {
					*v = model.SP(g.NonEmptyText())
				}
				if g.R.Intn(4) != 0 {
					*p = model.SP(g.NonEmptyText())
				}
				if g.R.Intn(3) != 0 {
					t.Internal, t.Comment = model.SP(g.NonEmptyText()), model.SP(g.NonEmptyText())
				}
				if g.R.Intn(2) == 0 {
					t.VSI = model.SP("vendor " + g.NonEmptyText()) // the extension's own claim in a field NAMED like the base's VSI
				}
				t.Cache = "bookkeeping"
			case *extprof.MixinClaims:
				if g.R.Intn(4) != 0 {
					t.Mixin = model.SP(g.NonEmptyText())
				}
			case *extprof.ExtWideClaims:
				// 10 .. 20 of the twenty extension claims: with profile 2's 7 .. 10 own
				// claims the merged map has 17 .. 30 entries (i.e. around 23 / 24)
				ws := t.Wide()
				nw := 10 + (i/4)%11
				for _, wi := range g.R.Perm(len(ws))[:nw] {
					*ws[wi] = model.SP(g.NonEmptyText())
				}
			default:
				c.Violation(prop+"/layout-ext/other-implementation/"+layout, fmt.Sprintf("NewClaims(%q) returned %T", name, x), nil)
				return
			}
			want, wantExt := a.Expect(), extOf(x)
			if got := obs.Observe(x); model.ObsDiff(&want, &got) != "" {
				c.Violation(prop+"/layout-ext/built-object-differs/"+layout, "object built with setters differs from the model: "+trunc(model.ObsDiff(&want, &got), 300), map[string]any{"sig": sig})
				return
			}
			e1, err := enc(x)
			if err != nil {
				c.Violation(prop+"/layout-ext/valid-encode-failed/"+layout+"/"+format, "encoding a valid set failed: "+err.Error(), map[string]any{"sig": sig})
				return
			}
			y, err := dec(e1)
			if err != nil {
				c.Violation(prop+"/layout-ext/valid-decode-failed/"+layout+"/"+format, "the library cannot decode its own encoding: "+err.Error(), map[string]any{"sig": sig, "encoding": mon.Hex(e1)})
				return
			}
			if fmt.Sprintf("%T", y) != fmt.Sprintf("%T", x) {
				c.Violation(prop+"/layout-ext/other-implementation/"+layout+"/"+format, fmt.Sprintf("%T decoded into %T", x, y), map[string]any{"sig": sig, "encoding": mon.Hex(e1)})
				return
			}
			if got := obs.Observe(y); model.ObsDiff(&want, &got) != "" {
				c.Violation(prop+"/layout-ext/observation-changed/"+layout+"/"+format, "round trip changed the claims: "+trunc(model.ObsDiff(&want, &got), 300), map[string]any{"sig": sig, "encoding": mon.Hex(e1)})
				return
			}
			if gotExt := extOf(y); fmt.Sprint(gotExt) != fmt.Sprint(wantExt) {
				c.Violation(prop+"/layout-ext/extension-claims-changed/"+layout+"/"+format, fmt.Sprintf("the extension's own claims changed in the round trip: want %v, got %v", wantExt, gotExt), map[string]any{"sig": sig, "encoding": mon.Hex(e1)})
				return
			}
			// wire form (seeded fault C10-u: an absent optional extension claim emitted
			// as null because its tag lists omitempty before keyasint): one definite map /
			// one object, no duplicate keys, no null for an absent claim
			if format == "cbor" {
				root, perr := refcbor.DecodeAll(e1)
				switch {
				case perr != nil || root.K != refcbor.Map || root.Indef:
					c.Violation(prop+"/layout-ext/wire/not-a-definite-map/"+layout, "emitted CBOR is not a single definite map", map[string]any{"sig": sig, "encoding": mon.Hex(e1)})
					return
				default:
					seen := map[string]bool{}
					for i := 0; i+1 < len(root.Items); i += 2 {
						k := root.Items[i].Diag()
						if seen[k] {
							c.Violation(prop+"/layout-ext/wire/duplicate-key/"+layout, "emitted CBOR repeats key "+k, map[string]any{"sig": sig, "encoding": mon.Hex(e1)})
							return
						}
						seen[k] = true
						if v := root.Items[i+1]; v.IsNull() || v.IsUndef() {
							c.Violation(prop+"/layout-ext/wire/null-for-absent/"+layout, "emitted CBOR carries null under key "+k+" (absent optional claims are omitted)", map[string]any{"sig": sig, "encoding": mon.Hex(e1)})
							return
						}
					}
				}
			} else {
				var m map[string]json.RawMessage
				if json.Unmarshal(e1, &m) != nil {
					c.Violation(prop+"/layout-ext/wire/not-an-object/"+layout, "emitted JSON is not an object", map[string]any{"sig": sig, "encoding": string(e1)})
					return
				}
				for k, v := range m {
					if string(v) == "null" {
						c.Violation(prop+"/layout-ext/wire/null-for-absent/"+layout+"/json", "emitted JSON carries null under "+k, map[string]any{"sig": sig, "encoding": string(e1)})
						return
					}
				}
			}
			e2, err := enc(y)
			if err != nil || !bytes.Equal(e1, e2) {
				c.Violation(prop+"/layout-ext/bytes-unstable/"+layout+"/"+format, fmt.Sprintf("second encoding differs (%v)", err), map[string]any{"sig": sig, "first": mon.Hex(e1), "second": mon.Hex(e2)})
				return
			}
			c.Count("layout-extension-roundtrips:" + layout)
		})
		if pn {
			c.Violation(prop+"/panic/"+mon.PanicKey(fr), "panic during round trip of a layout extension", map[string]any{"panic": pv, "frame": fr, "sig": sig})
		}
		c.Sig(sig)
	}
	c.Floor("layout-extension-roundtrips:nested-unexported-base", 50)
	c.Floor("layout-extension-roundtrips:mixin-first", 50)
	c.Floor("layout-extension-roundtrips:wide", 50)
}
