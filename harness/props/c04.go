package props

import (
	"fmt"
	"strings"

	"github.com/veraison/psatoken"

	"verif/harness/model"
	"verif/harness/mon"
	"verif/harness/obs"
	"verif/harness/refcbor"
)

func init() { register("C04", runC04) }

// fidelity compares, for an accepted token, every getter whose wire value was
// read unambiguously by the independent reader with that wire value.
func fidelity(wi *model.WireInfo, got *model.Obs) []string {
	want := wi.Claims.Expect()
	w, g := want.Getters(), got.Getters()
	var bad []string
	for i, name := range model.GetterNames {
		st := wi.Status[name]
		if name == "sw-components" && wi.P == 1 {
			// list and flag are read through the same getter
			if s2 := wi.Status["no-meas"]; s2 == model.KOpen || s2 == model.KWrong {
				st = s2
			}
		}
		if st != model.KClean && st != model.KAbsent {
			continue
		}
		if w[i].C != g[i].C || (w[i].C == model.OK && w[i].V != g[i].V) {
			bad = append(bad, fmt.Sprintf("%s: wire %s, getter %s", name, w[i], g[i]))
		}
	}
	return bad
}

func errClassText(err error) string {
	if err == nil {
		return "nil"
	}
	s := err.Error()
	if i := strings.Index(s, ":"); i > 0 && i < 60 {
		s = s[:i]
	}
	if len(s) > 60 {
		s = s[:60]
	}
	return s
}

var c04seq int

func checkWireToken(c *mon.Ctx, g *model.Gen, w *refcbor.Node, sig string) {
	wire := refcbor.Encode(w)
	ast, err := refcbor.DecodeAll(wire)
	if err != nil {
		c.Count("generator-produced-malformed") // cannot happen with the edits used
		return
	}
	wi := model.ReadWire(ast, nil)
	var cl psatoken.IClaims
	var derr error
	var got model.Obs
	if pn, pv, fr := mon.Guard(func() {
		cl, derr = psatoken.DecodeAndValidateClaimsFromCBOR(wire)
		if derr == nil {
			got = obs.Observe(cl)
		}
	}); pn {
		c.Violation("C04/panic/"+mon.PanicKey(fr), "panic in decode-and-validate (or in reading its result)", map[string]any{"panic": pv, "frame": fr, "wire_hex": mon.Hex(wire), "diag": ast.Diag(), "sig": sig})
		return
	}
	c.Eval()
	c.Count("verdict:" + wi.Verdict.String())
	det := func() map[string]any {
		return map[string]any{"wire_hex": mon.Hex(wire), "diag": ast.Diag(), "sig": sig, "model_verdict": wi.Verdict.String(), "why": wi.Why, "library_error": fmt.Sprint(derr)}
	}
	if derr == nil {
		c.Count("library-accepted")
		if wi.Verdict == model.Reject {
			key := fmt.Sprintf("C04/accepted-nonconformant/P%d/%s/%d", wi.P, wi.WrongKind, wi.WrongKey)
			if wi.WrongKind == "rule" {
				want := wi.Claims.Expect()
				key = fmt.Sprintf("C04/accepted-rule-violation/P%d/%s", wi.P, obsKey(&want, &got))
			}
			c.Violation(key, fmt.Sprintf("decode-and-validate accepted a token that is not conformant (%s): %s", wi.Why, ast.Diag()), det())
		}
		if wi.Claims != nil && wi.P != 0 {
			if bad := fidelity(wi, &got); len(bad) > 0 {
				first := bad[0]
				name := first[:strings.Index(first, ":")]
				c.Violation(fmt.Sprintf("C04/fidelity/P%d/%s", wi.P, name), "accepted token, but a getter does not return the wire value: "+strings.Join(bad, "; "), det())
			}
			c.Count("fidelity-checked")
		}
		if wi.Verdict == model.NoVerdict {
			c.Count("no-verdict-accepted")
		}
		// successive tokens of one device carry byte-identical component arrays: the
		// caller edits the components of the FIRST result, then the same bytes are
		// decoded again from a fresh buffer - the second result must again equal the
		// wire (seeded fault C04-v: a memo of decoded component lists handing out
		// shallow copies)
		if c04seq++; c04seq%4 == 0 {
			if pn, pv, fr := mon.Guard(func() {
				scs, gerr := cl.GetSoftwareComponents()
				if gerr != nil || len(scs) == 0 {
					return
				}
				for _, sc := range scs {
					if p, ok := sc.(*psatoken.SwComponent); ok && p != nil {
						v, mv := "9.9.9-edited", make([]byte, 48)
						p.Version, p.SignerID, p.MeasurementValue = &v, nil, &mv
					}
				}
				cl2, derr2 := psatoken.DecodeAndValidateClaimsFromCBOR(append([]byte{}, wire...))
				c.Eval()
				c.Count("second-decode-after-editing-first-result")
				if derr2 != nil {
					c.Violation(fmt.Sprintf("C04/second-decode-after-editing-first-result/rejected/P%d", wi.P), "a token that was accepted is rejected when decoded again after the caller edited the components of the first result: "+derr2.Error(), det())
					return
				}
				got2 := obs.Observe(cl2)
				if d := model.ObsDiff(&got, &got2); d != "" {
					c.Violation(fmt.Sprintf("C04/second-decode-after-editing-first-result/fidelity/P%d", wi.P), "decoding the same bytes again after the caller edited the components of the first result gives other values than the wire carries: "+d, det())
				}
			}); pn {
				c.Violation("C04/panic/"+mon.PanicKey(fr), "panic in the second decode", map[string]any{"panic": pv, "frame": fr, "wire_hex": mon.Hex(wire), "sig": sig})
			}
		}
	} else {
		c.Count("library-rejected")
		if wi.Verdict == model.Accept {
			c.Violation(fmt.Sprintf("C04/rejected-conformant/P%d/%s", wi.P, errClassText(derr)),
				fmt.Sprintf("decode-and-validate rejected a conformant token (%v): %s", derr, ast.Diag()), det())
		}
		if wi.Verdict == model.NoVerdict {
			c.Count("no-verdict-rejected")
		}
	}
}

func runC04(c *mon.Ctx) {
	c.Rule("tokens are assembled by the harness's own CBOR encoder: a valid / rule-breaking abstract claims-set of either profile, then 0-3 wire-level edits (known key := null / undefined / bool / ints at every width boundary / floats / bstr / tstr / array of small ints / array / map / tag; key deleted; unknown int and text keys with nested junk; key order permuted; duplicate key; tagged value; non-minimal and indefinite encodings; keys of the other profile; profile selector unknown / P1 name / OID; one-element nonce array; flag != 1; component := null / wrong type / unknown field / field of wrong type). The independent reader gives ACCEPT / REJECT / NO-VERDICT; the library must agree on ACCEPT and REJECT, and for every accepted token every getter whose wire value is unambiguous must return exactly that value. Also every (known key x special value) single edit exhaustively, and conformant tokens with 5..1000 (thorough: ..65537) software components. Every fourth accepted token: the caller edits the software components of the result (version, signer id, measurement value), then the same bytes are decoded again from a fresh buffer - the second result must equal the first observation. distinct_nontrivial = distinct edit-class signatures")
	g := model.NewGen(c.Seed*4049 + int64(c.Shard))
	// exhaustive singles: every known key x a pool of special values
	idx := 0
	for p := 1; p <= 2; p++ {
		keys := model.P1Keys
		if p == 2 {
			keys = model.P2Keys
		}
		for _, k := range keys {
			for rep := 0; rep < 120; rep++ {
				idx++
				if !c.Mine(idx) {
					continue
				}
				a := g.Valid(p)
				w := a.WireCBOR()
				v, cls := g.SpecialNode()
				found := false
				for i := 0; i+1 < len(w.Items); i += 2 {
					if kv, _ := w.Items[i].Int64(); kv == k {
						w.Items[i+1] = v
						found = true
					}
				}
				if !found {
					w.Items = append(w.Items, refcbor.I(k), v)
				}
				sig := fmt.Sprintf("P%d|single|%d=%s", p, k, cls)
				c.Sig(sig)
				c.Count("single-edit-cases")
				checkWireToken(c, g, w, sig)
			}
		}
	}
	// conformant tokens with many software components (array-header and
	// library-limit boundaries): must be accepted with every getter faithful
	counts := []int{5, 15, 16, 17, 22, 23, 24, 25, 31, 32, 33, 63, 64, 65, 127, 128, 129, 254, 255, 256, 257, 1000}
	if !c.Quick() {
		counts = append(counts, 4095, 4096, 4097, 65535, 65536, 65537)
	}
	for ci, nc := range counts {
		for p := 1; p <= 2; p++ {
			idx++
			if !c.Mine(idx) {
				continue
			}
			a := g.Valid(p)
			a.HasComps, a.NoMeas, a.Comps = true, nil, nil
			for j := 0; j < nc; j++ {
				a.Comps = append(a.Comps, g.ValidComp())
			}
			sig := fmt.Sprintf("P%d|component-count|%d", p, nc)
			c.Sig(sig)
			c.Count("many-component-tokens")
			checkWireToken(c, g, a.WireCBOR(), sig)
			_ = ci
		}
	}
	n := c.N(300000, 8000000)
	for i := 0; i < n; i++ {
		p, _, w, s := g.WireCase()
		sig := fmt.Sprintf("P%d|%s", p, s)
		c.Sig(sig)
		checkWireToken(c, g, w, sig)
		if i < 3 {
			c.Sample("token", map[string]any{"sig": sig, "diag": w.Diag()})
		}
	}
	c.Floor("verdict:ACCEPT", 1000)
	c.Floor("verdict:REJECT", 1000)
	c.Floor("verdict:NO-VERDICT", 500)
	c.Floor("library-accepted", 1000)
}
