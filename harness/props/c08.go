package props

import (
	"bytes"
	"crypto/rand"
	"fmt"

	"github.com/veraison/psatoken"

	"verif/harness/extprof"
	"verif/harness/keys"
	"verif/harness/model"
	"verif/harness/mon"
	"verif/harness/obs"
	"verif/harness/refcbor"
	"verif/harness/refcose"
)

func init() { register("C08", runC08) }

func typeOf(x any) string { return fmt.Sprintf("%T", x) }

// sameClaims compares two decoded claims objects at API level.
func sameClaims(x, y psatoken.IClaims) string {
	if (x == nil) != (y == nil) {
		return "one result is nil"
	}
	if x == nil {
		return ""
	}
	if typeOf(x) != typeOf(y) {
		return fmt.Sprintf("type %T vs %T", x, y)
	}
	gx, gy := obs.Observe(x), obs.Observe(y)
	if gx.Validate != gy.Validate {
		return fmt.Sprintf("validate %s vs %s", gx.Validate, gy.Validate)
	}
	return model.ObsDiff(&gx, &gy)
}

func isNilClaims(c psatoken.IClaims) bool { return c == nil }

// c08Object drives the object-side gates with one claims object.
func c08Object(c *mon.Ctx, x psatoken.IClaims, k keys.Pair, sig string, det map[string]any) {
	verr := x.Validate()
	valid := verr == nil
	cls := "invalid"
	if valid {
		cls = "valid"
	}
	c.Count("objects:" + cls)
	bad := func(gate, what string) {
		d := map[string]any{"sig": sig, "gate": gate, "validate_error": fmt.Sprint(verr)}
		for k, v := range det {
			d[k] = v
		}
		c.Violation("C08/"+gate+"/"+cls, what, d)
	}
	// --- SetClaims
	prev := psatoken.IClaims(&psatoken.P1Claims{})
	e := &psatoken.Evidence{Claims: prev}
	err := e.SetClaims(x)
	c.Eval()
	switch {
	case !valid && err == nil:
		bad("SetClaims/let-invalid-through", "SetClaims accepted a claims-set whose Validate() fails")
	case !valid && e.Claims != prev:
		bad("SetClaims/attached-on-failure", "SetClaims failed but changed Evidence.Claims")
	case valid && err != nil:
		bad("SetClaims/refused-valid", "SetClaims refused a claims-set whose Validate() succeeds: "+err.Error())
	case valid && e.Claims != x:
		bad("SetClaims/not-attached", "SetClaims succeeded but did not attach the claims")
	}
	// --- the gates must validate the claims AS THEY ARE NOW: attach a valid
	// set, make the very same object invalid in place, then ask the gates again
	if valid && c08Invalidate != nil {
		inv := c08Invalidate
		e3 := &psatoken.Evidence{}
		if e3.SetClaims(x) == nil {
			_, _ = psatoken.ValidateAndEncodeClaimsToCBOR(x)
			how := inv(x)
			if how != "" && x.Validate() != nil {
				c.Count("invalidated-after-attach")
				if k.Signer != nil {
					calls := 0
					tok, serr := e3.ValidateAndSign(faultSigner{alg: k.Alg, mode: "delegate", inner: k.Signer, calls: &calls})
					if serr == nil || len(tok) != 0 || calls != 0 {
						cls = "invalidated-after-attach"
						bad("ValidateAndSign/let-invalid-through", fmt.Sprintf("claims were attached while valid, then made invalid in place (%s): ValidateAndSign returned err=%v, %d bytes, signer calls=%d", how, serr, len(tok), calls))
					}
				}
				if b, err := psatoken.ValidateAndEncodeClaimsToCBOR(x); err == nil || len(b) != 0 {
					cls = "invalidated-after-attach"
					bad("ValidateAndEncodeClaimsToCBOR/let-invalid-through", "claims were valid, were encoded once, then made invalid in place ("+how+"): the validating encoder still accepts them")
				}
				if b, err := psatoken.ValidateAndEncodeClaimsToJSON(x); err == nil || len(b) != 0 {
					cls = "invalidated-after-attach"
					bad("ValidateAndEncodeClaimsToJSON/let-invalid-through", "claims were valid, then made invalid in place ("+how+"): the validating JSON encoder still accepts them")
				}
				if err := (&psatoken.Evidence{}).SetClaims(x); err == nil {
					cls = "invalidated-after-attach"
					bad("SetClaims/let-invalid-through", "claims were valid, then made invalid in place ("+how+"): SetClaims still accepts them")
				}
				return // x is no longer the case's object
			}
		}
	}
	// --- ValidateAndEncodeClaimsToCBOR
	vb, verr2 := psatoken.ValidateAndEncodeClaimsToCBOR(x)
	nb, nerr := psatoken.EncodeClaimsToCBOR(x)
	c.Eval()
	switch {
	case !valid && (verr2 == nil || len(vb) != 0):
		bad("ValidateAndEncodeClaimsToCBOR/let-invalid-through", fmt.Sprintf("returned err=%v and %d bytes for a claims-set whose Validate() fails", verr2, len(vb)))
	case valid && ((verr2 == nil) != (nerr == nil) || !bytes.Equal(vb, nb)):
		bad("ValidateAndEncodeClaimsToCBOR/differs-from-sibling", fmt.Sprintf("valid set: validating encoder (err=%v, %x) differs from EncodeClaimsToCBOR (err=%v, %x)", verr2, vb, nerr, nb))
	case valid && verr2 == nil:
		// "behaves exactly like its non-validating counterpart": the bytes handed out stay the caller's
		held08cbor.add(c, vb, "ValidateAndEncodeClaimsToCBOR", sig, nil, nil)
	}
	// --- ValidateAndEncodeClaimsToJSON
	vj, verr3 := psatoken.ValidateAndEncodeClaimsToJSON(x)
	nj, nerr3 := psatoken.EncodeClaimsToJSON(x)
	c.Eval()
	switch {
	case !valid && (verr3 == nil || len(vj) != 0):
		bad("ValidateAndEncodeClaimsToJSON/let-invalid-through", fmt.Sprintf("returned err=%v and %d bytes for a claims-set whose Validate() fails", verr3, len(vj)))
	case valid && ((verr3 == nil) != (nerr3 == nil) || !bytes.Equal(vj, nj)):
		bad("ValidateAndEncodeClaimsToJSON/differs-from-sibling", fmt.Sprintf("valid set: validating encoder (err=%v) differs from EncodeClaimsToJSON (err=%v): %s vs %s", verr3, nerr3, vj, nj))
	case valid && verr3 == nil:
		held08json.add(c, vj, "ValidateAndEncodeClaimsToJSON", sig, nil, nil)
	}
	// --- ValidateAndSign vs Sign
	if k.Signer != nil {
		calls := 0
		fs := faultSigner{alg: k.Alg, mode: "delegate", inner: k.Signer, calls: &calls}
		e1 := &psatoken.Evidence{Claims: x}
		vt, verr4 := e1.ValidateAndSign(fs)
		c.Eval()
		switch {
		case !valid && (verr4 == nil || len(vt) != 0):
			bad("ValidateAndSign/let-invalid-through", fmt.Sprintf("returned err=%v and %d bytes for a claims-set whose Validate() fails", verr4, len(vt)))
		case !valid && calls != 0:
			bad("ValidateAndSign/signed-before-refusing", "the signer was invoked although validation fails (a signature over invalid claims was produced)")
		case !valid:
			if e1.Verify(k.Pub) == nil {
				bad("ValidateAndSign/verifiable-after-refusal", "after a refused ValidateAndSign the Evidence verifies")
			}
		default:
			e2 := &psatoken.Evidence{Claims: x}
			nt, nerr4 := e2.Sign(k.Signer)
			if (verr4 == nil) != (nerr4 == nil) {
				bad("ValidateAndSign/differs-from-sibling", fmt.Sprintf("valid set: ValidateAndSign err=%v, Sign err=%v", verr4, nerr4))
				break
			}
			if verr4 != nil {
				break
			}
			ve, e1p := refcose.Parse(vt)
			ne, e2p := refcose.Parse(nt)
			if e1p != nil || e2p != nil || !bytes.Equal(ve.Payload, ne.Payload) || !bytes.Equal(ve.ProtectedBS, ne.ProtectedBS) || !bytes.Equal(ve.Payload, nb) {
				bad("ValidateAndSign/differs-from-sibling", "valid set: the tokens of ValidateAndSign and Sign differ in payload / protected header (or payload is not the CBOR encoding)")
				break
			}
			if ve.Verify(k.Pub) != nil || e1.Verify(k.Pub) != nil {
				bad("ValidateAndSign/not-verifiable", "valid set: the token of ValidateAndSign does not verify")
				break
			}
			// SetClaims on an Evidence that HOLDS an envelope behaves like the plain
			// assignment of the same (valid, other) claims object: the envelope stays
			if y, derr := psatoken.DecodeClaimsFromCBOR(nb); derr == nil && y.Validate() == nil {
				if d1, err1 := psatoken.DecodeEvidenceFromCOSE(vt); err1 == nil {
					d2, _ := psatoken.DecodeEvidenceFromCOSE(vt)
					serr := d1.SetClaims(y)
					d2.Claims = y
					v1, v2 := d1.Verify(k.Pub), d2.Verify(k.Pub)
					c.Count("setclaims-on-evidence-holding-an-envelope")
					if serr != nil || (v1 == nil) != (v2 == nil) {
						bad("SetClaims/differs-from-assignment", fmt.Sprintf("decoded Evidence: SetClaims(valid claims) returned %v, Verify afterwards %v; with plain assignment of the same claims Verify gives %v", serr, v1, v2))
						break
					}
				}
				serr := e1.SetClaims(y)
				e2.Claims = y
				if v1, v2 := e1.Verify(k.Pub), e2.Verify(k.Pub); serr != nil || (v1 == nil) != (v2 == nil) {
					bad("SetClaims/differs-from-assignment", fmt.Sprintf("signing Evidence: SetClaims(valid claims) returned %v, Verify afterwards %v; with plain assignment Verify gives %v", serr, v1, v2))
					break
				}
				_ = e1.SetClaims(x)
				e2.Claims = x
			}
			// the Evidence signed by the validating gate keeps verifying while the library is used for other objects
			held08ev = append(held08ev, c08HeldEv{e1, k.Pub, sig})
			if len(held08ev) > 6 {
				h := held08ev[0]
				held08ev = held08ev[1:]
				c.Count("held-evidence-rechecked")
				if h.ev.Verify(h.pk) != nil {
					c.Violation("C08/ValidateAndSign/evidence-no-longer-verifies-later", "an Evidence signed with ValidateAndSign verified at once but no longer does after further validating encodes / signs of OTHER objects (Sign's does)", map[string]any{"sig": h.sig})
				}
			}
		}
	}
}

// c08NeverThrough drives every object gate with a claims object whose
// Validate() does not return nil - it returns an error or PANICS (typed nil
// claims, a careless extension validator). A gate may return an error or let
// the panic propagate; it must not report success, hand out bytes, invoke the
// signer or attach the claims.
func c08NeverThrough(c *mon.Ctx, x psatoken.IClaims, k keys.Pair, cls, sig string) {
	vstate := "error"
	if pn, _, _ := mon.Guard(func() {
		if x.Validate() == nil {
			vstate = "nil"
		}
	}); pn {
		vstate = "panics"
	}
	if vstate == "nil" {
		c.Violation("harness/never-through-fixture", "fixture validates: "+cls, nil)
		return
	}
	c.Count("objects:validate-" + vstate + ":" + cls)
	bad := func(gate, what string) {
		c.Violation("C08/"+gate+"/let-invalid-through:validate-"+vstate, what+" (Validate() "+vstate+"; "+cls+")", map[string]any{"sig": sig, "class": cls})
	}
	outcome := func(name string, fn func() bool) {
		through := false
		pn, _, _ := mon.Guard(func() { through = fn() })
		c.Eval()
		switch {
		case pn:
			c.Count("gate-propagated-panic:" + name)
		case through:
			bad(name, name+" reported success")
		default:
			c.Count("gate-refused:" + name)
		}
	}
	outcome("SetClaims", func() bool {
		prev := psatoken.IClaims(&psatoken.P1Claims{})
		e := &psatoken.Evidence{Claims: prev}
		err := e.SetClaims(x)
		return err == nil || e.Claims != prev
	})
	outcome("ValidateAndEncodeClaimsToCBOR", func() bool {
		b, err := psatoken.ValidateAndEncodeClaimsToCBOR(x)
		return err == nil || len(b) != 0
	})
	outcome("ValidateAndEncodeClaimsToJSON", func() bool {
		b, err := psatoken.ValidateAndEncodeClaimsToJSON(x)
		return err == nil || len(b) != 0
	})
	calls := 0
	outcome("ValidateAndSign", func() bool {
		e := &psatoken.Evidence{Claims: x}
		tok, err := e.ValidateAndSign(faultSigner{alg: k.Alg, mode: "delegate", inner: k.Signer, calls: &calls})
		return err == nil || len(tok) != 0
	})
	if calls != 0 {
		bad("ValidateAndSign", "the signer was invoked")
	}
}

// c08DecodeCBOR drives the CBOR decode gates with one byte string.
// c08DecodeCBOR drives the CBOR decode gates with one byte string: twice in a row
// (seeded fault C08-u: a memo of the previous input that is trusted on a hit), and
// every fourth claims map also behind one / two CBOR tags (seeded fault C08-v: a
// pre-check in the gate that its non-validating sibling does not make).
func c08DecodeCBOR(c *mon.Ctx, wire []byte, sig string) (outcome string) {
	outcome = c08DecodeCBOROnce(c, wire, sig, "")
	c08DecodeCBOROnce(c, append([]byte{}, wire...), sig, "/on-repeat")
	if len(wire) > 0 && wire[0]>>5 == 5 && (len(wire)+int(wire[len(wire)-1]))%4 == 0 {
		for ti, pre := range [][]byte{{0xd9, 0x02, 0x59}, {0xd8, 0x3d}, {0xd9, 0xd9, 0xf7, 0xd9, 0x02, 0x59}, {0xda, 0x00, 0x01, 0x00, 0x00}} {
			tagged := append(append([]byte{}, pre...), wire...)
			c.Count("cbor-tagged:" + c08DecodeCBOROnce(c, tagged, sig, fmt.Sprintf("/tagged-%d", ti)))
		}
	}
	return outcome
}

func c08DecodeCBOROnce(c *mon.Ctx, wire []byte, sig, rep string) (outcome string) {
	nx, nerr := psatoken.DecodeClaimsFromCBOR(wire)
	vx, verr := psatoken.DecodeAndValidateClaimsFromCBOR(wire)
	c.Eval()
	det := map[string]any{"sig": sig, "wire_hex": mon.Hex(wire), "nonvalidating_err": fmt.Sprint(nerr), "validating_err": fmt.Sprint(verr)}
	gate := "DecodeAndValidateClaimsFromCBOR" + rep
	if nerr != nil {
		if verr == nil {
			c.Violation("C08/"+gate+"/accepted-undecodable", "validating decoder accepted bytes the non-validating decoder rejects", det)
		}
		if !isNilClaims(vx) && verr != nil {
			c.Violation("C08/"+gate+"/object-with-error", "validating decoder returned an object together with an error", det)
		}
		return "undecodable"
	}
	if e := nx.Validate(); e != nil {
		det["validate_error"] = e.Error()
		if verr == nil {
			c.Violation("C08/"+gate+"/let-invalid-through", "validating decoder accepted a token whose decoded claims fail Validate()", det)
		} else if !isNilClaims(vx) {
			c.Violation("C08/"+gate+"/object-with-error", "validating decoder returned an object together with an error", det)
		}
		return "decoded-invalid"
	}
	if verr != nil {
		c.Violation("C08/"+gate+"/refused-valid", "validating decoder refused a token whose decoded claims validate: "+verr.Error(), det)
		return "decoded-valid"
	}
	if d := sameClaims(nx, vx); d != "" {
		c.Violation("C08/"+gate+"/differs-from-sibling", "validating and non-validating decoders return different claims: "+d, det)
	}
	return "decoded-valid"
}

func c08DecodeJSON(c *mon.Ctx, doc []byte, sig string) (outcome string) {
	outcome = c08DecodeJSONOnce(c, doc, sig, "")
	c08DecodeJSONOnce(c, append([]byte{}, doc...), sig, "/on-repeat")
	return outcome
}

func c08DecodeJSONOnce(c *mon.Ctx, doc []byte, sig, rep string) (outcome string) {
	nx, nerr := psatoken.DecodeClaimsFromJSON(doc)
	ux, uerr := psatoken.DecodeUnvalidatedJSONClaims(doc)
	c.Eval()
	det := map[string]any{"sig": sig, "json": string(doc), "nonvalidating_err": fmt.Sprint(nerr)}
	if (nerr == nil) != (uerr == nil) || (nerr == nil && sameClaims(nx, ux) != "") {
		c.Violation("C08/DecodeUnvalidatedJSONClaims/differs-from-DecodeClaimsFromJSON", "the deprecated non-validating alias behaves differently", det)
	}
	for _, gt := range []struct {
		name string
		fn   func([]byte) (psatoken.IClaims, error)
	}{{"DecodeAndValidateClaimsFromJSON" + rep, psatoken.DecodeAndValidateClaimsFromJSON}, {"DecodeJSONClaims" + rep, psatoken.DecodeJSONClaims}} {
		vx, verr := gt.fn(doc)
		c.Eval()
		det["validating_err"] = fmt.Sprint(verr)
		switch {
		case nerr != nil:
			outcome = "undecodable"
			if verr == nil {
				c.Violation("C08/"+gt.name+"/accepted-undecodable", "validating decoder accepted a document the non-validating decoder rejects", det)
			}
		case nx.Validate() != nil:
			outcome = "decoded-invalid"
			det["validate_error"] = nx.Validate().Error()
			if verr == nil {
				c.Violation("C08/"+gt.name+"/let-invalid-through", "validating JSON decoder accepted a document whose decoded claims fail Validate()", det)
			} else if !isNilClaims(vx) {
				c.Violation("C08/"+gt.name+"/object-with-error", "validating decoder returned an object together with an error", det)
			}
		default:
			outcome = "decoded-valid"
			if verr != nil {
				c.Violation("C08/"+gt.name+"/refused-valid", "validating JSON decoder refused a document whose decoded claims validate: "+verr.Error(), det)
			} else if d := sameClaims(nx, vx); d != "" {
				c.Violation("C08/"+gt.name+"/differs-from-sibling", "validating and non-validating decoders return different claims: "+d, det)
			}
		}
	}
	return
}

func c08DecodeCOSE(c *mon.Ctx, tok []byte, pk any, sig string) (outcome string) {
	outcome = c08DecodeCOSEOnce(c, tok, pk, sig, "")
	c08DecodeCOSEOnce(c, append([]byte{}, tok...), pk, sig, "/on-repeat")
	return outcome
}

func c08DecodeCOSEOnce(c *mon.Ctx, tok []byte, pk any, sig, rep string) (outcome string) {
	ne, nerr := psatoken.DecodeEvidenceFromCOSE(tok)
	ve, verr := psatoken.DecodeAndValidateEvidenceFromCOSE(tok)
	c.Eval()
	det := map[string]any{"sig": sig, "token_hex": mon.Hex(tok), "nonvalidating_err": fmt.Sprint(nerr), "validating_err": fmt.Sprint(verr)}
	gate := "DecodeAndValidateEvidenceFromCOSE" + rep
	switch {
	case nerr != nil:
		if verr == nil {
			c.Violation("C08/"+gate+"/accepted-undecodable", "validating decoder accepted a token the non-validating decoder rejects", det)
		}
		return "undecodable"
	case ne == nil || isNilClaims(ne.Claims):
		// "decoded" without any claims-set: there is nothing that could have been validated
		if verr == nil {
			c.Violation("C08/"+gate+"/let-invalid-through:no-claims", "validating evidence decoder returned success for a token that yields no claims-set at all", det)
		}
		return "decoded-without-claims"
	case ne.Claims.Validate() != nil:
		if verr == nil {
			c.Violation("C08/"+gate+"/let-invalid-through", "validating evidence decoder accepted a token whose claims fail Validate()", det)
		} else if ve != nil {
			c.Violation("C08/"+gate+"/object-with-error", "validating evidence decoder returned an Evidence together with an error", det)
		}
		return "decoded-invalid"
	}
	if verr != nil {
		c.Violation("C08/"+gate+"/refused-valid", "validating evidence decoder refused a token whose claims validate: "+verr.Error(), det)
		return "decoded-valid"
	}
	if d := sameClaims(ne.Claims, ve.Claims); d != "" {
		c.Violation("C08/"+gate+"/differs-from-sibling", "validating and non-validating evidence decoders return different claims: "+d, det)
	}
	if pk != nil && (ne.Verify(pk) == nil) != (ve.Verify(pk) == nil) {
		c.Violation("C08/"+gate+"/differs-from-sibling", "validating and non-validating evidence decoders differ in Verify()", det)
	}
	return "decoded-valid"
}

type c08HeldEv struct {
	ev  *psatoken.Evidence
	pk  any
	sig string
}

var held08ev []c08HeldEv

var held08cbor = &returnedBytes{prop: "C08"}
var held08json = &returnedBytes{prop: "C08"}

// c08Invalidate, when set, makes c08Object run the attach-then-invalidate case.
var c08Invalidate func(psatoken.IClaims) string

// invalidateInPlace makes a (valid) claims object invalid the way a caller
// can: through a setter that clears, or by overwriting an exported field /
// editing a component it holds a pointer to.
func invalidateInPlace(g *model.Gen, y psatoken.IClaims) string {
	p1, p2 := obs.P1Of(y), obs.P2Of(y)
	switch g.R.Intn(6) {
	case 0:
		if p2 != nil {
			_ = y.SetSoftwareComponents([]psatoken.ISwComponent{})
			return "SetSoftwareComponents(empty) on profile 2"
		}
		p1.Nonce = nil
		return "Nonce = nil"
	case 1:
		if p1 != nil {
			p1.ImplID = nil
		} else {
			p2.ImplID = nil
		}
		return "ImplID = nil"
	case 2:
		b := g.Bytes(31)
		if p1 != nil {
			p1.ImplID = &b
		} else {
			p2.ImplID = &b
		}
		return "ImplID = 31 bytes"
	case 3:
		obs.SetNumField(y, "SecurityLifeCycle", 0x7000)
		return "SecurityLifeCycle = 0x7000"
	case 4:
		if scs, err := y.GetSoftwareComponents(); err == nil && len(scs) > 0 {
			if sc, ok := scs[g.R.Intn(len(scs))].(*psatoken.SwComponent); ok {
				five := g.Bytes(5)
				sc.SignerID = &five
				return "retained component pointer: SignerID = 5 bytes"
			}
		}
		return ""
	default:
		if p2 != nil {
			p2.Nonce = nil
			return "Nonce = nil"
		}
		s := ""
		p1.VSI = &s
		return "VSI = empty string"
	}
}

func runC08(c *mon.Ctx) {
	c.Rule("every claims-set class of C01 (valid, each single / double / triple rule violation, random products; both profiles; a registered P2-based extension with its own extra rule (negative timestamp) so that a gate that runs only the generic rules is visible) built by direct field assignment, plus objects whose only defect is a profile claim that does not match the implementing type (canonical name unset / foreign; an extension object carrying its base profile's name - not expressible on the wire), plus a second, stricter registered extension whose own rules are reported with the library's ignorable sentinels (mandatory boot seed -> missing-optional, forbidden VSI -> not-in-profile); pushed through the object-side gates (also: attached/encoded while valid, then made invalid IN PLACE through a clearing setter, an exported field or a retained component pointer, and pushed through the gates again) SetClaims, ValidateAndEncodeClaimsToCBOR, ValidateAndEncodeClaimsToJSON, ValidateAndSign (7 algorithms, signer wrapped to count invocations); extension-profile tokens (CBOR, JSON, COSE) that break only the extension's own rule; the wire tokens of C04 (valid / rule-breaking / type-breaking / open encodings), JSON documents of valid and rule-breaking sets, and COSE envelopes (tokens signed with the non-validating Sign, and C04 wire tokens wrapped + signed by the harness) pushed through DecodeAndValidateClaimsFromCBOR, DecodeAndValidateClaimsFromJSON, the deprecated DecodeJSONClaims, DecodeAndValidateEvidenceFromCOSE. Oracle: the library's own Validate() on the same object / on the non-validating sibling's result: Validate fails => the gate returns an error, no bytes, no object, attaches nothing (and never invokes the signer); Validate succeeds => the gate's result equals the non-validating sibling's (bytes, payload+protected header, claims observation, Verify). CBOR / COSE / JSON tokens of a registered P1-derived extension (in CBOR the dispatcher decodes them as plain profile 1, whose validation refuses the foreign name: the gate must refuse as well). Envelopes whose payload is null / undefined / empty / bstr(null) (no claims-set at all) must not pass the validating COSE decoder; valid objects of an extension that makes the client id optional and drops the instance id from the profile pass every object gate. SetClaims(valid) on an Evidence that already holds an envelope (decoded / has signed) must leave Verify as the plain assignment does. Also claims whose Validate() PANICS (typed nil *P1Claims / *P2Claims; a registered extension with a careless validator, as object and as CBOR / JSON / COSE token lacking the extension claim; positive control with the claim): a gate may return an error or let the panic propagate but must never report success, hand out bytes, invoke the signer or attach; and VALID claims of an extension profile that was never registered go through every object gate exactly like through the non-validating sibling. Every decode gate is driven TWICE in a row with the same bytes (sibling, gate, sibling, gate: the second verdict is judged like the first), and every fourth CBOR claims map is also sent behind one or two CBOR tags (601, 61, 55799+601, a 4-byte tag) - whatever the sibling makes of it, the gate must agree. distinct_nontrivial = distinct (gate family, profile, violated-claim classes) signatures")
	if err := extprof.Register(extprof.ExtP2Name, extprof.ExtP1Name, extprof.ExtStrictName); err != nil {
		c.Violation("harness/register", err.Error(), nil)
		return
	}
	g := model.NewGen(c.Seed*8123 + int64(c.Shard))
	var ks []keys.Pair
	for i, a := range keys.AlgNames {
		ks = append(ks, keys.New(a, i%3))
	}
	guard := func(what string, det map[string]any, fn func()) {
		if pn, pv, fr := mon.Guard(fn); pn {
			d := map[string]any{"panic": pv, "frame": fr, "during": what}
			for k, v := range det {
				d[k] = v
			}
			c.Violation("C08/panic/"+mon.PanicKey(fr), "panic in a validating entry point ("+what+")", d)
		}
	}
	// ---- object-side gates
	n := c.N(120000, 3000000)
	for i := 0; i < n; i++ {
		p := 1 + g.R.Intn(2)
		var a *model.Claims
		var s model.Sig
		switch i % 6 {
		case 0:
			a = g.Valid(p)
			s = model.Sig{"valid"}
		case 1:
			a, s = g.ValidProduct(p)
		case 2, 3:
			a, s = g.Mutated(p, 1)
		case 4:
			a, s = g.Mutated(p, 2+g.R.Intn(2))
		default:
			a, s = g.RandomProduct(p)
		}
		ext := ""
		if p == 2 && a.Profile != nil && *a.Profile == model.P2Name && g.R.Intn(4) == 0 {
			a.Canon = extprof.ExtP2Name
			a.Profile = model.SP(a.Canon)
			ext = "ext"
		}
		x, err := obs.Build(a)
		if err != nil {
			c.Count("unbuildable")
			continue
		}
		if xe, ok := x.(*extprof.ExtP2Claims); ok {
			switch g.R.Intn(3) {
			case 0:
				ts := int64(-1 - g.R.Intn(1000))
				xe.Timestamp = &ts
				ext = "ext-negative-timestamp"
			case 1:
				ts := int64(g.R.Intn(1 << 30))
				xe.Timestamp = &ts
				ext = "ext-timestamp"
			}
		}
		sig := fmt.Sprintf("object|P%d|%s|%s", p, ext, s)
		c.Sig(sig)
		var k keys.Pair
		if i%4 == 0 {
			k = ks[(i/4)%7]
		}
		det := map[string]any{"case": abstractSample(a), "ext": ext}
		c08Invalidate = nil
		if i%5 == 0 {
			c08Invalidate = func(y psatoken.IClaims) string { return invalidateInPlace(g, y) }
		}
		guard("object gates", det, func() { c08Object(c, x, k, sig, det) })
		if ext == "ext-negative-timestamp" {
			c.Count("extension-rule-only-invalid")
		}
		if i < 2 {
			c.Sample("object", map[string]any{"sig": sig, "valid": x.Validate() == nil, "case": abstractSample(a)})
		}
	}
	// ---- CBOR decode gates
	m := c.N(120000, 3000000)
	for i := 0; i < m; i++ {
		p, _, w, s := g.WireCase()
		wire := refcbor.Encode(w)
		sig := fmt.Sprintf("cbor|P%d|%s", p, s)
		c.Sig(sig)
		guard("cbor decode gates", map[string]any{"wire_hex": mon.Hex(wire)}, func() { c.Count("cbor:" + c08DecodeCBOR(c, wire, sig)) })
		// the same token inside a correctly signed envelope
		if i%6 == 0 {
			k := ks[(i/6)%7]
			prot := refcbor.Encode(refcbor.MapOf(refcbor.I(1), refcbor.I(coseAlgID[k.Name])))
			sg, err := k.Signer.Sign(rand.Reader, refcose.SigStructure(prot, wire))
			if err == nil {
				tok := sign1Bytes(prot, nil, wire, sg)
				guard("cose decode gates", map[string]any{"token_hex": mon.Hex(tok)}, func() { c.Count("cose:" + c08DecodeCOSE(c, tok, k.Pub, "cose|"+sig)) })
			}
		}
	}
	// ---- objects whose only defect cannot be expressed on the wire: the profile
	// claim does not match the implementing type (canonical name unset / foreign,
	// an extension carrying its base profile's name). The encoded payload decodes
	// into a perfectly valid claims-set of another type, so a gate that validates
	// what it has encoded instead of what it was given lets them through.
	for i := 0; i < c.N(8000, 200000); i++ {
		p := 1 + g.R.Intn(2)
		a := g.Valid(p)
		x, err := obs.Build(a)
		if err != nil {
			continue
		}
		how := ""
		switch g.R.Intn(3) {
		case 0:
			if q := obs.P1Of(x); q != nil {
				q.CanonicalProfile = ""
				if q.Profile == nil {
					pn := model.P1Name
					q.Profile = &pn
				}
			} else {
				obs.P2Of(x).CanonicalProfile = ""
			}
			how = "canonical-name-unset"
		case 1:
			if q := obs.P1Of(x); q != nil {
				q.CanonicalProfile = "SOME_OTHER_PROFILE"
				if q.Profile == nil {
					pn := model.P1Name
					q.Profile = &pn
				}
			} else {
				obs.P2Of(x).CanonicalProfile = "http://example.com/some-other-profile"
			}
			how = "canonical-name-foreign"
		default:
			// an extension object whose profile claim still says "base profile"
			if q := obs.P2Of(x); q != nil {
				x = &extprof.ExtP2Claims{P2Claims: *q}
				x.(*extprof.ExtP2Claims).CanonicalProfile = extprof.ExtP2Name
			} else {
				q := obs.P1Of(x)
				if q.Profile == nil {
					pn := model.P1Name
					q.Profile = &pn
				}
				x = &extprof.ExtP1Claims{P1Claims: *q}
				x.(*extprof.ExtP1Claims).CanonicalProfile = extprof.ExtP1Name
			}
			how = "extension-carrying-base-profile-name"
		}
		if x.Validate() == nil {
			c.Count("profile-mismatch-object-unexpectedly-valid")
			continue
		}
		sig := fmt.Sprintf("object|P%d|profile-mismatch:%s", p, how)
		c.Sig(sig)
		c.Count("objects:profile-mismatch")
		c08Invalidate = nil
		det := map[string]any{"case": abstractSample(a), "how": how}
		k := ks[i%7]
		guard("object gates (profile mismatch)", det, func() { c08Object(c, x, k, sig, det) })
	}
	// ---- a stricter extension whose own rules are reported with the "ignorable"
	// sentinels (missing-optional / not-in-profile): only its Validate() knows
	for i := 0; i < c.N(8000, 200000); i++ {
		a := g.Valid(2)
		a.Canon, a.Profile = extprof.ExtStrictName, model.SP(extprof.ExtStrictName)
		cls := "strict-valid"
		switch i % 3 {
		case 0:
			a.BootSeed, a.VSI = nil, nil
			cls = "strict-invalid:no-boot-seed"
		case 1:
			a.BootSeed, a.VSI = model.BP(g.Bytes(8+g.R.Intn(25))), model.SP("https://example.com/vsi")
			cls = "strict-invalid:vsi-present"
		default:
			a.BootSeed, a.VSI = model.BP(g.Bytes(8+g.R.Intn(25))), nil
		}
		x, err := obs.Build(a)
		if err != nil {
			continue
		}
		if (x.Validate() == nil) != (cls == "strict-valid") {
			c.Violation("harness/strict-extension", "the harness's strict extension does not behave as designed", map[string]any{"cls": cls})
			continue
		}
		sig := "object|ExtStrict|" + cls
		c.Sig(sig)
		c.Count("objects:" + cls)
		c08Invalidate = nil
		det := map[string]any{"case": abstractSample(a), "cls": cls}
		k := ks[i%7]
		guard("object gates (strict extension)", det, func() { c08Object(c, x, k, sig, det) })
		wire := refcbor.Encode(a.WireCBOR())
		guard("cbor decode gates (strict extension)", map[string]any{"wire_hex": mon.Hex(wire)}, func() { c.Count("cbor-" + cls + ":" + c08DecodeCBOR(c, wire, "cbor|ExtStrict|"+cls)) })
		doc := a.WireJSON()
		guard("json decode gates (strict extension)", map[string]any{"json": string(doc)}, func() { c.Count("json-" + cls + ":" + c08DecodeJSON(c, doc, "json|ExtStrict|"+cls)) })
		if i%2 == 0 {
			prot := refcbor.Encode(refcbor.MapOf(refcbor.I(1), refcbor.I(coseAlgID[k.Name])))
			if sg, err := k.Signer.Sign(rand.Reader, refcose.SigStructure(prot, wire)); err == nil {
				tok := sign1Bytes(prot, nil, wire, sg)
				guard("cose decode gates (strict extension)", map[string]any{"token_hex": mon.Hex(tok)}, func() { c.Count("cose-" + cls + ":" + c08DecodeCOSE(c, tok, k.Pub, "cose|ExtStrict|"+cls)) })
			}
		}
	}
	// ---- extension-profile tokens that break ONLY the extension's own rule
	for i := 0; i < c.N(8000, 200000); i++ {
		a := g.Valid(2)
		a.Canon, a.Profile = extprof.ExtP2Name, model.SP(extprof.ExtP2Name)
		ts := int64(g.R.Intn(1 << 30))
		cls := "ext-valid"
		if i%2 == 0 {
			ts = -1 - int64(g.R.Intn(1000))
			cls = "ext-rule-only-invalid"
		}
		w := a.WireCBOR()
		w.Items = append(w.Items, refcbor.I(-75100), refcbor.I(ts))
		wire := refcbor.Encode(w)
		sig := "cbor|ExtP2|" + cls
		c.Sig(sig)
		guard("cbor decode gates (extension)", map[string]any{"wire_hex": mon.Hex(wire)}, func() { c.Count("cbor-" + cls + ":" + c08DecodeCBOR(c, wire, sig)) })
		ms := append(a.JSONMembers(), model.Member{Name: "timestamp", Value: fmt.Sprint(ts)})
		doc := model.MembersJSON(ms)
		guard("json decode gates (extension)", map[string]any{"json": string(doc)}, func() { c.Count("json-" + cls + ":" + c08DecodeJSON(c, doc, "json|ExtP2|"+cls)) })
		if i%4 < 2 {
			k := ks[(i/4)%7]
			prot := refcbor.Encode(refcbor.MapOf(refcbor.I(1), refcbor.I(coseAlgID[k.Name])))
			if sg, err := k.Signer.Sign(rand.Reader, refcose.SigStructure(prot, wire)); err == nil {
				tok := sign1Bytes(prot, nil, wire, sg)
				guard("cose decode gates (extension)", map[string]any{"token_hex": mon.Hex(tok)}, func() { c.Count("cose-" + cls + ":" + c08DecodeCOSE(c, tok, k.Pub, "cose|ExtP2|"+cls)) })
			}
		}
	}
	// ---- claims whose Validate() PANICS (typed nil pointers; a registered
	// extension with a careless validator fed a token lacking its claim) and
	// valid claims of an extension that was never registered (signing side only)
	if err := extprof.Register(extprof.ExtFragileName); err != nil {
		c.Violation("harness/register", err.Error(), nil)
		return
	}
	for i := 0; i < c.N(3000, 60000); i++ {
		k := ks[i%7]
		switch i % 4 {
		case 0:
			var x psatoken.IClaims = (*psatoken.P2Claims)(nil)
			if i%8 == 0 {
				x = (*psatoken.P1Claims)(nil)
			}
			c08NeverThrough(c, x, k, "typed-nil-claims", "object|typed-nil")
			c.Sig("object|typed-nil")
		case 1, 2:
			a := g.Valid(2)
			a.Canon, a.Profile = extprof.ExtFragileName, model.SP(extprof.ExtFragileName)
			withSerial := i%4 == 2
			cls := "fragile-extension-claim-absent"
			x := extprof.NewExtFragileClaims()
			if err := obs.SetterApply(x, a); err != nil {
				c.Violation("harness/fragile-fixture", err.Error(), nil)
				continue
			}
			w := a.WireCBOR()
			ms := a.JSONMembers()
			if withSerial {
				cls = "fragile-extension-valid"
				x.(*extprof.ExtFragileClaims).Serial = model.SP("SN-1")
				w.Items = append(w.Items, refcbor.I(-75400), refcbor.Tstr("SN-1"))
				ms = append(ms, model.Member{Name: "x-serial", Value: `"SN-1"`})
			}
			c.Sig("object|" + cls)
			if withSerial {
				// positive control: with its claim present this profile passes every gate
				c08Invalidate = nil
				guard("object gates (fragile extension, valid)", nil, func() { c08Object(c, x, k, "object|"+cls, map[string]any{"cls": cls}) })
				wire := refcbor.Encode(w)
				guard("cbor decode gates (fragile extension, valid)", map[string]any{"wire_hex": mon.Hex(wire)}, func() { c.Count("cbor-" + cls + ":" + c08DecodeCBOR(c, wire, "cbor|"+cls)) })
				continue
			}
			c08NeverThrough(c, x, k, cls, "object|"+cls)
			wire, doc := refcbor.Encode(w), model.MembersJSON(ms)
			for _, gate := range []string{"DecodeAndValidateClaimsFromCBOR", "DecodeAndValidateClaimsFromJSON", "DecodeAndValidateEvidenceFromCOSE"} {
				through := false
				pn, _, _ := mon.Guard(func() {
					switch gate {
					case "DecodeAndValidateClaimsFromCBOR":
						y, err := psatoken.DecodeAndValidateClaimsFromCBOR(wire)
						through = err == nil || !isNilClaims(y)
					case "DecodeAndValidateClaimsFromJSON":
						y, err := psatoken.DecodeAndValidateClaimsFromJSON(doc)
						through = err == nil || !isNilClaims(y)
					default:
						prot := refcbor.Encode(refcbor.MapOf(refcbor.I(1), refcbor.I(coseAlgID[k.Name])))
						sg, serr := k.Signer.Sign(rand.Reader, refcose.SigStructure(prot, wire))
						if serr != nil {
							return
						}
						ev, err := psatoken.DecodeAndValidateEvidenceFromCOSE(sign1Bytes(prot, nil, wire, sg))
						through = err == nil || ev != nil
					}
				})
				c.Eval()
				switch {
				case pn:
					c.Count("gate-propagated-panic:" + gate)
				case through:
					c.Violation("C08/"+gate+"/let-invalid-through:validate-panics", gate+" reported success for a token whose claims' Validate() panics ("+cls+")", map[string]any{"wire_hex": mon.Hex(wire), "json": string(doc)})
				default:
					c.Count("gate-refused:" + gate)
				}
			}
		default:
			name := fmt.Sprintf("http://example.com/signing-side-only/%d", i%3)
			a := g.Valid(2)
			a.Canon, a.Profile = name, model.SP(name)
			x := extprof.NumberedProfile{Name: name, Base: 2}.GetClaims() // never registered
			if err := obs.SetterApply(x, a); err != nil {
				c.Violation("harness/unregistered-fixture", err.Error(), nil)
				continue
			}
			if x.Validate() != nil {
				c.Violation("harness/unregistered-fixture", "does not validate", nil)
				continue
			}
			c.Count("objects:valid-unregistered-extension")
			c.Sig("object|valid-unregistered-extension")
			c08Invalidate = nil
			guard("object gates (unregistered extension)", nil, func() {
				c08Object(c, x, k, "object|valid-unregistered-extension", map[string]any{"profile": name, "registered": false})
			})
		}
	}
	// ---- tokens of a registered P1-DERIVED extension: in CBOR such a token names its
	// profile under -75000 only, so the dispatcher decodes it as plain profile 1, whose
	// validation refuses the foreign name - the validating gates must refuse it too
	// (JSON: the member names the extension, which is selected and validates)
	if err := extprof.Register(extprof.ExtP1Name); err != nil {
		c.Violation("harness/register", err.Error(), nil)
		return
	}
	for i := 0; i < c.N(1500, 30000); i++ {
		a := g.Valid(1)
		a.Canon, a.Profile = extprof.ExtP1Name, model.SP(extprof.ExtP1Name)
		wire := refcbor.Encode(a.WireCBOR())
		sig := "cbor|ExtP1|valid-under-the-extension"
		c.Sig(sig)
		guard("cbor decode gates (P1-derived extension)", map[string]any{"wire_hex": mon.Hex(wire)}, func() { c.Count("cbor-extp1:" + c08DecodeCBOR(c, wire, sig)) })
		doc := a.WireJSON()
		guard("json decode gates (P1-derived extension)", map[string]any{"json": string(doc)}, func() { c.Count("json-extp1:" + c08DecodeJSON(c, doc, "json|ExtP1|valid")) })
		if i%3 == 0 {
			k := ks[i%7]
			prot := refcbor.Encode(refcbor.MapOf(refcbor.I(1), refcbor.I(coseAlgID[k.Name])))
			if sg, err := k.Signer.Sign(rand.Reader, refcose.SigStructure(prot, wire)); err == nil {
				tok := sign1Bytes(prot, nil, wire, sg)
				guard("cose decode gates (P1-derived extension)", map[string]any{"token_hex": mon.Hex(tok)}, func() { c.Count("cose-extp1:" + c08DecodeCOSE(c, tok, k.Pub, "cose|ExtP1|valid-under-the-extension")) })
			}
		}
	}
	c.Floor("cbor-extp1:decoded-invalid", 500)
	// ---- envelopes that carry NO claims-set (payload null / undefined / empty /
	// a byte string holding null) and relaxed extensions' valid objects
	for i := 0; i < c.N(800, 20000); i++ {
		k := ks[i%7]
		prot := refcbor.Encode(refcbor.MapOf(refcbor.I(1), refcbor.I(coseAlgID[k.Name])))
		pl := []*refcbor.Node{refcbor.Null(), refcbor.Undef(), refcbor.Bstr(nil), refcbor.Bstr([]byte{0xf6}), refcbor.Bstr([]byte{0xa0})}[i%5]
		name := []string{"null", "undefined", "empty-bstr", "bstr(null)", "bstr(empty-map)"}[i%5]
		sg := g.Bytes(64)
		if i%2 == 0 && pl.K == refcbor.Bytes {
			if s2, err := k.Signer.Sign(rand.Reader, refcose.SigStructure(prot, pl.B)); err == nil {
				sg = s2
			}
		}
		tok := envelopeBytes(18, refcbor.Bstr(prot), refcbor.MapOf(), pl, refcbor.Bstr(sg))
		sig := "cose|payload-without-claims|" + name
		c.Sig(sig)
		guard("cose decode gates (no claims-set)", map[string]any{"token_hex": mon.Hex(tok)}, func() { c.Count("cose-no-claims:" + name + ":" + c08DecodeCOSE(c, tok, k.Pub, sig)) })
		// a relaxed extension (client id optional, instance id not in the profile):
		// valid objects without those claims pass every object gate
		a := g.Valid(2)
		x, err := obs.Build(a)
		if err != nil {
			continue
		}
		lx := extprof.NewExtLaxClaims()
		prof := lx.Profile
		lx.P2Claims = *obs.P2Of(x)
		lx.Profile, lx.CanonicalProfile = prof, extprof.ExtLaxName
		if i%2 == 0 {
			lx.InstID = nil
		}
		if i%3 == 0 {
			lx.ClientID = nil
		}
		if lx.Validate() != nil {
			c.Violation("harness/lax-fixture", "relaxed extension fixture does not validate", nil)
			continue
		}
		c.Count("objects:valid-relaxed-extension")
		c08Invalidate = nil
		guard("object gates (relaxed extension)", nil, func() {
			c08Object(c, lx, k, "object|valid-relaxed-extension", map[string]any{"inst_id_present": lx.InstID != nil, "client_id_present": lx.ClientID != nil})
		})
	}
	// ---- JSON decode gates
	j := c.N(60000, 1500000)
	for i := 0; i < j; i++ {
		p := 1 + g.R.Intn(2)
		var a *model.Claims
		var s model.Sig
		switch i % 4 {
		case 0:
			a, s = g.ValidProduct(p)
		case 1, 2:
			a, s = g.Mutated(p, 1)
		default:
			a, s = g.Mutated(p, 2)
		}
		ms := a.JSONMembers()
		edit := ""
		switch g.R.Intn(8) {
		case 0:
			if len(ms) > 0 {
				k := g.R.Intn(len(ms))
				ms = append(ms[:k], ms[k+1:]...)
				edit = "member-dropped"
			}
		case 1:
			ms = append(ms, model.Member{Name: "x-unknown", Value: `[1,{"a":null}]`})
			edit = "unknown-member"
		case 2:
			if len(ms) > 0 {
				k := g.R.Intn(len(ms))
				ms[k].Value = []string{"null", "true", "12", `"text"`, "[]", "{}", `"!!notbase64"`}[g.R.Intn(7)]
				edit = "member-retyped"
			}
		}
		doc := model.MembersJSON(ms)
		sig := fmt.Sprintf("json|P%d|%s|%s", p, edit, s)
		c.Sig(sig)
		guard("json decode gates", map[string]any{"json": string(doc)}, func() { c.Count("json:" + c08DecodeJSON(c, doc, sig)) })
	}
	// ---- COSE: tokens signed with the non-validating Sign
	q := c.N(8000, 200000)
	for i := 0; i < q; i++ {
		p := 1 + g.R.Intn(2)
		var a *model.Claims
		var s model.Sig
		if i%3 == 0 {
			a, s = g.ValidProduct(p)
		} else {
			a, s = g.Mutated(p, 1+g.R.Intn(2))
		}
		x, err := obs.Build(a)
		if err != nil {
			continue
		}
		k := ks[i%7]
		var tok []byte
		guard("Sign", nil, func() { tok, err = (&psatoken.Evidence{Claims: x}).Sign(k.Signer) })
		if err != nil || tok == nil {
			c.Count("cose:unsignable")
			continue
		}
		sig := fmt.Sprintf("cose-signed|P%d|%s|%s", p, k.Name, s)
		c.Sig(sig)
		guard("cose decode gates", map[string]any{"token_hex": mon.Hex(tok)}, func() { c.Count("cose:" + c08DecodeCOSE(c, tok, k.Pub, sig)) })
	}
	c.Floor("objects:valid", 1000)
	c.Floor("objects:valid-relaxed-extension", 200)
	c.Floor("setclaims-on-evidence-holding-an-envelope", 500)
	c.Floor("objects:validate-panics:typed-nil-claims", 100)
	c.Floor("objects:validate-panics:fragile-extension-claim-absent", 100)
	c.Floor("objects:valid-unregistered-extension", 100)
	c.Floor("objects:invalid", 1000)
	c.Floor("extension-rule-only-invalid", 50)
	c.Floor("invalidated-after-attach", 500)
	c.Floor("objects:profile-mismatch", 500)
	c.Floor("objects:strict-invalid:no-boot-seed", 200)
	c.Floor("objects:strict-invalid:vsi-present", 200)
	c.Floor("json-strict-invalid:no-boot-seed:decoded-invalid", 100)
	c.Floor("json-strict-invalid:vsi-present:decoded-invalid", 100)
	c.Floor("cbor-strict-valid:decoded-valid", 100)
	for _, fam := range []string{"cbor", "json", "cose"} {
		c.Floor(fam+"-ext-rule-only-invalid:decoded-invalid", 100)
		c.Floor(fam+"-ext-valid:decoded-valid", 100)
	}
	for _, fam := range []string{"cbor", "json", "cose"} {
		c.Floor(fam+":decoded-valid", 200)
		c.Floor(fam+":decoded-invalid", 200)
	}
	c.Floor("cbor:undecodable", 200)
}
