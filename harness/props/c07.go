package props

import (
	"fmt"
	"sort"
	"strings"

	"github.com/veraison/psatoken"

	"verif/harness/extprof"
	"verif/harness/model"
	"verif/harness/mon"
	"verif/harness/obs"
	"verif/harness/refcbor"
)

func init() { register("C07", runC07) }

// c07Registry describes what the worker process registered (one registry
// configuration per process; the register cannot be reset).
type c07Registry struct {
	name  string
	types map[string]string // registered profile name -> dynamic type of its claims
	base  map[string]int    // registered profile name -> base profile (1 / 2)
}

// c07Reused is the one Evidence that decodes every envelope of the process.
var c07Reused = &psatoken.Evidence{}

// c07OIDName names a P2-derived profile by an OID (legal for eat_profile).
const c07OIDName = "1.3.6.1.4.1.4128.77.6"

func c07Setup(cfg int) (*c07Registry, error) {
	r := &c07Registry{types: map[string]string{model.P1Name: "*psatoken.P1Claims", model.P2Name: "*psatoken.P2Claims"},
		base: map[string]int{model.P1Name: 1, model.P2Name: 2}}
	reg := func(name string, base int) error {
		if err := psatoken.RegisterProfile(extprof.NumberedProfile{Name: name, Base: base}); err != nil {
			return err
		}
		r.base[name] = base
		if base == 1 {
			r.types[name] = "*extprof.ExtP1Claims"
		} else {
			r.types[name] = "*extprof.ExtP2Claims"
		}
		return nil
	}
	ext := func(names ...string) error {
		if err := extprof.Register(names...); err != nil {
			return err
		}
		for _, n := range names {
			if n == extprof.ExtP2Name {
				r.types[n], r.base[n] = "*extprof.ExtP2Claims", 2
			} else {
				r.types[n], r.base[n] = "*extprof.ExtP1Claims", 1
			}
		}
		return nil
	}
	var err error
	switch cfg {
	case 0:
		r.name = "base-profiles-only"
	case 1:
		r.name = "plus-P2-extension"
		err = ext(extprof.ExtP2Name)
	case 2:
		r.name = "plus-P2-and-P1-extensions"
		err = ext(extprof.ExtP2Name, extprof.ExtP1Name)
	case 3:
		r.name = "plus-8-P2-based-profiles-sharing-the-JSON-member"
		if err = ext(extprof.ExtP2Name); err == nil {
			for i := 0; i < 8 && err == nil; i++ {
				err = reg(fmt.Sprintf("http://example.com/numbered/%d", i), 2)
			}
			if err == nil {
				// eat.Profile lets a profile be named by an OID as well
				err = reg(c07OIDName, 2)
			}
		}
	default:
		r.name = "plus-4-P2-based-4-P1-based-and-both-extensions"
		if err = ext(extprof.ExtP2Name, extprof.ExtP1Name); err == nil {
			for i := 0; i < 4 && err == nil; i++ {
				if err = reg(fmt.Sprintf("http://example.com/numbered/%d", i), 2); err == nil {
					err = reg(fmt.Sprintf("PSA_IOT_PROFILE_1_N%d", i), 1)
				}
			}
		}
	}
	return r, err
}

func (r *c07Registry) names(base int) []string {
	var l []string
	for n, b := range r.base {
		if b == base {
			l = append(l, n)
		}
	}
	sort.Strings(l)
	return l
}

func canonicalOf(x psatoken.IClaims) string {
	switch t := x.(type) {
	case *psatoken.P1Claims:
		return t.CanonicalProfile
	case *psatoken.P2Claims:
		return t.CanonicalProfile
	case *extprof.ExtP1Claims:
		return t.CanonicalProfile
	case *extprof.ExtP2Claims:
		return t.CanonicalProfile
	case *extprof.MixinClaims:
		return t.CanonicalProfile
	case *extprof.ExtOwnerClaims:
		return t.CanonicalProfile
	case *extprof.ExtGroupClaims:
		return t.CanonicalProfile
	case *extprof.ExtNestedClaims:
		return t.CanonicalProfile
	}
	return "?"
}

// expectation for one token
type c07Exp struct {
	verdict string // "type", "error", "open"
	name    string // registered name expected (verdict == "type")
	why     string
	// declared: the single textual profile declaration of the token ("" if
	// none or ambiguous); an accepted token must report exactly this.
	declared string
}

func runC07(c *mon.Ctx) {
	cfg := c.Shard % 5
	reg, err := c07Setup(cfg)
	if err != nil {
		c.Violation("harness/register", "registry configuration could not be set up: "+err.Error(), nil)
		return
	}
	c.SetAdd("registry_configurations", reg.name)
	c.Count("config:" + reg.name)
	c.Rule("one worker process per registry configuration (base profiles only; + P2-based extension; + P2- and P1-based extensions; + 8 further P2-based profiles sharing the JSON profile member and one P2-based profile named by an OID (JSON determinate, CBOR NO-VERDICT); + 4 P2-based and 4 P1-based further profiles). Before the tokens, four claims types without usable profile field (none at all, no JSON tag, a field merely named Profile, a claim whose key merely starts with the profile key's digits) are offered (must be refused and leave nothing behind); the register (hook H1) must hold exactly the entries this configuration made, each handing out claims that report its name; an impostor profile is offered under every taken name (must be refused; all later lookups see the original implementation). Tokens = valid and rule-breaking claims-sets of every registered profile, serialised to CBOR and to JSON by the harness, with the profile claim: a registered name / absent / an unregistered name / the name of a profile not registered in this configuration / another base profile's name / a non-text value / present under both profiles' keys / null; plus sets that are valid only under the *other* base profile's rules (P2 with EAN-13 reference, P1 with short or no boot seed). Oracle (determinate cases): the dynamic type and canonical profile of the result of DecodeClaimsFromCBOR/JSON must be those registered under the declared name, P1 when nothing is declared, an error for an unregistered value; the validating decoders accept iff the set is valid under the declared profile's rules and an accepted token's GetProfile() returns the declared name (P1's when none); CBOR and JSON must agree; tokens of the base profiles are also decoded with the type's own unmarshaller into an object from NewClaims (profile pre-set) and compared with the model; NewClaims(p) returns the registered type, reports p, and fails for unregistered names. In CBOR the profile claim is key 265, so a token carrying BOTH 265 and P1's -75000 is judged by 265 (P2 name -> P2 implementation, unregistered -> error); in JSON a quarter of the profile strings are spelled with escape sequences (same value); in a quarter of the CBOR tokens the integer keys are in a longer-than-necessary form. A registered P1-derived profile named under key 265 of a P1-keyed token selects that implementation (valid iff the set is and -75000 is absent); a JSON null profile member on a profile-1 document declares nothing (profile 1 assumed). NO-VERDICT (counted; only 'never accepted under another profile' is asserted): null profile in CBOR / on a P2 document, P1 name under key 265, JSON documents carrying both members with one unregistered, both members present with one unknown, a P1-derived extension in CBOR (not selectable by design: its name lives under -75000). Every CBOR token is also sent as the payload of a COSE_Sign1 envelope to a fresh Evidence and to ONE Evidence reused for all tokens of the process: outcome, implementation, canonical profile and content must equal those of the bare claims-set. distinct_nontrivial = distinct (configuration, format, base, declaration class, validity class) signatures")
	g := model.NewGen(c.Seed*4421 + int64(c.Shard))
	// claims types without identifiable profile field / without JSON tag on it are
	// refused - and leave nothing behind (the register check below sees any residue)
	for di, dp := range []psatoken.IProfile{extprof.NoProfileFieldProfile{Name: "http://example.com/c07/defective/0"}, extprof.NoJSONTagProfile{Name: "http://example.com/c07/defective/1"}, extprof.DeviceProfileProfile{Name: "http://example.com/c07/defective/2"}, extprof.PrefixKeyProfile{Name: "http://example.com/c07/defective/3"}} {
		err := psatoken.RegisterProfile(dp)
		c.Eval()
		c.Count("defective-registrations-refused")
		if err == nil {
			c.Violation("C07/defective-profile-registered", fmt.Sprintf("RegisterProfile accepted a claims type without usable profile field (%d)", di), nil)
		}
		if x, nerr := psatoken.NewClaims(dp.GetName()); nerr == nil {
			c.Violation("C07/refused-profile-constructible", fmt.Sprintf("NewClaims(%q) succeeds (%T) although the registration of that profile was refused (%v)", dp.GetName(), x, err), nil)
		}
	}
	// the register as the library (plus this configuration) made it: every entry
	// hands out claims that report the name they are registered under, and both
	// dispatchers know the name
	for name, v := range psatoken.VerifProfileRegister() {
		c.Eval()
		c.Count("register-entries-checked")
		if _, ok := reg.types[name]; !ok && name != "" {
			c.Violation("C07/register/unexpected-entry", fmt.Sprintf("the register holds an entry %q (%v) that nobody registered", name, v), nil)
			continue
		}
		want := name
		if name == "" {
			want = model.P1Name
		}
		x, err := psatoken.NewClaims(name)
		if err != nil {
			c.Violation("C07/register/entry-not-constructible", fmt.Sprintf("NewClaims(%q): %v", name, err), nil)
			continue
		}
		if p, perr := x.GetProfile(); perr != nil || p != want {
			c.Violation("C07/register/entry-reports-other-profile", fmt.Sprintf("the claims of register entry %q report profile %q (%v)", name, p, perr), nil)
		}
	}
	// a name that is taken stays with its profile: registering an impostor under it
	// (another implementation, the other base) must fail - the lookups below then
	// see the original implementations
	{
		var taken []string
		for name := range reg.types {
			taken = append(taken, name)
		}
		sort.Strings(taken)
		for _, name := range taken {
			for _, base := range []int{1, 2, 3} {
				if base != 1 && !strings.Contains(name, ":") && !strings.Contains(name, ".") {
					continue // a P2-based claims type cannot carry a name that is neither URI nor OID
				}
				err := psatoken.RegisterProfile(extprof.NumberedProfile{Name: name, Base: base})
				c.Eval()
				c.Count("impostor-registrations-refused")
				if err == nil {
					c.Violation("C07/impostor-registered", fmt.Sprintf("RegisterProfile accepted a second profile (base %d) under the taken name %q", base, name), map[string]any{"config": reg.name})
				}
			}
		}
	}

	// ---- NewClaims
	for name, typ := range reg.types {
		var x psatoken.IClaims
		var nerr error
		if pn, pv, fr := mon.Guard(func() { x, nerr = psatoken.NewClaims(name) }); pn {
			c.Violation("C07/panic/"+mon.PanicKey(fr), "panic in NewClaims", map[string]any{"panic": pv, "frame": fr, "name": name})
			continue
		}
		c.Eval()
		c.Count("newclaims-registered")
		if nerr != nil {
			c.Violation("C07/NewClaims/registered-name-refused", fmt.Sprintf("NewClaims(%q) failed: %v", name, nerr), map[string]any{"config": reg.name})
			continue
		}
		if typeOf(x) != typ {
			c.Violation("C07/NewClaims/wrong-type", fmt.Sprintf("NewClaims(%q) returned %T, registered %s", name, x, typ), map[string]any{"config": reg.name})
		}
		if p, perr := x.GetProfile(); perr != nil || p != name {
			c.Violation("C07/NewClaims/reports-other-profile", fmt.Sprintf("NewClaims(%q).GetProfile() = %q, %v", name, p, perr), map[string]any{"config": reg.name})
		}
		// an instance handed out earlier is re-labelled in place by its owner;
		// NewClaims(p) must still report p afterwards
		if p2 := obs.P2Of(x); p2 != nil && p2.Profile != nil {
			_ = p2.Profile.Set("http://example.com/relabelled/by-owner")
		} else if p1 := obs.P1Of(x); p1 != nil && p1.Profile != nil {
			*p1.Profile = "RELABELLED_BY_OWNER"
		}
		if y, yerr := psatoken.NewClaims(name); yerr != nil {
			c.Violation("C07/NewClaims/registered-name-refused", fmt.Sprintf("NewClaims(%q) failed after an earlier instance was re-labelled: %v", name, yerr), map[string]any{"config": reg.name})
		} else if p, perr := y.GetProfile(); perr != nil || p != name {
			c.Violation("C07/NewClaims/reports-other-profile-after-relabel", fmt.Sprintf("after the owner of an earlier instance re-labelled it in place, NewClaims(%q).GetProfile() = %q, %v", name, p, perr), map[string]any{"config": reg.name})
		}
		c.Count("newclaims-after-relabel")
	}
	for _, name := range []string{"http://example.com/unregistered/1", "PSA_IOT_PROFILE_9", "psa_iot_profile_1", model.P2Name + "/", " " + model.P1Name, extprof.ExtP2Name, extprof.ExtP1Name, "http://example.com/numbered/7"} {
		if _, ok := reg.types[name]; ok {
			continue
		}
		x, nerr := psatoken.NewClaims(name)
		c.Eval()
		c.Count("newclaims-unregistered")
		if nerr == nil {
			c.Violation("C07/NewClaims/unregistered-name-accepted", fmt.Sprintf("NewClaims(%q) returned %T although nothing is registered under that name", name, x), map[string]any{"config": reg.name})
		}
	}

	unreg := func(base int) string {
		if base == 2 && g.R.Intn(3) == 0 {
			// near misses of registered names (normalising comparisons must not equate them)
			l := append([]string{}, model.NearMissProfileNames...)
			if _, ok := reg.types[extprof.ExtP2Name]; ok {
				l = append(l, "HTTP://example.com/psa-ext/2.0.0", "http://example.com/psa-ext/2.0.0#", "http://EXAMPLE.com/psa-ext/2.0.0")
			}
			return l[g.R.Intn(len(l))]
		}
		if base == 1 && g.R.Intn(4) == 0 {
			return []string{"PSA_IOT_PROFILE_1 ", " PSA_IOT_PROFILE_1", "PSA_IOT_PROFILE_01", "PSA_IOT_PROFILE_1\x00", "PSA-IOT-PROFILE-1", "Psa_Iot_Profile_1"}[g.R.Intn(6)]
		}
		if base == 1 && g.R.Intn(8) == 0 {
			return "" // the empty string is not a profile name either
		}
		cands := []string{"http://example.com/unregistered/1", "http://arm.com/psa/3.0.0", "PSA_IOT_PROFILE_9", "psa_iot_profile_1", extprof.ExtP2Name, extprof.ExtP1Name, "http://example.com/numbered/9", "PSA_IOT_PROFILE_1_N7", "x", "http://example.com/" + strings.Repeat("ü", 40), strings.Repeat("é", 33)}
		for {
			s := cands[g.R.Intn(len(cands))]
			if _, ok := reg.types[s]; !ok {
				if base == 2 && !strings.Contains(s, ":") && g.R.Intn(2) == 0 {
					continue
				}
				return s
			}
		}
	}

	n := c.N(160000, 4000000)
	for i := 0; i < n; i++ {
		base := 1 + g.R.Intn(2)
		// the claims content
		var a *model.Claims
		valClass := "valid"
		switch g.R.Intn(10) {
		case 0, 1:
			var s model.Sig
			a, s = g.Mutated(base, 1)
			// keep the profile claim for the declaration step below
			valClass = "rule:" + strings.SplitN(s.String(), "=", 2)[0]
		case 2:
			a = g.Valid(base)
			if base == 2 {
				a.CertRef = model.SP(g.Digits(13))
				valClass = "valid-only-under-P1-rules:ean13"
			} else if g.R.Intn(2) == 0 {
				a.BootSeed = model.BP(g.Bytes(8 + g.R.Intn(24)))
				valClass = "valid-only-under-P2-rules:short-boot-seed"
			} else {
				a.BootSeed = nil
				valClass = "valid-only-under-P2-rules:no-boot-seed"
			}
		default:
			a = g.Valid(base)
		}
		// the declaration
		exp := c07Exp{}
		decl := ""
		both := false
		nullProfile := false
		key265onP1 := false
		nontext := false
		names := reg.names(base)
		switch d := g.R.Intn(12); {
		case d <= 3: // a registered profile of this base
			nm := names[g.R.Intn(len(names))]
			a.Canon, a.Profile = nm, model.SP(nm)
			exp = c07Exp{"type", nm, "registered name declared", ""}
			decl = "registered"
			if nm == model.P1Name || nm == model.P2Name {
				decl = "registered-base"
			}
		case d == 4: // absent
			a.Profile = nil
			a.Canon = model.P1Name
			exp = c07Exp{"type", model.P1Name, "no profile claim: profile 1 assumed", ""}
			decl = "absent"
		case d == 5 || d == 6: // unregistered
			u := unreg(base)
			a.Profile = model.SP(u)
			exp = c07Exp{"error", "", "unregistered profile value " + u, ""}
			decl = "unregistered"
		case d == 7: // the other base profile's name under this base's key
			if base == 2 {
				a.Profile = model.SP(model.P1Name)
				exp = c07Exp{"open", "", "P1 name under key 265 (open encoding)", ""}
				decl = "p1-name-under-p2-key"
			} else {
				a.Profile = model.SP(model.P2Name)
				// P1-keyed token, profile claim says P2: CBOR has no key 265 -> decodes as P1 (then fails the profile rule);
				// JSON: psa-profile = P2 name matches no registered (name, tag) pair
				exp = c07Exp{"open", "", "P2 name under P1's key", ""}
				decl = "p2-name-under-p1-key"
			}
		case d == 8:
			both = true
			// this base's own profile claim is intact; the other profile's member is added below
			a.Canon = map[int]string{1: model.P1Name, 2: model.P2Name}[base]
			a.Profile = model.SP(a.Canon)
			exp = c07Exp{"open", "", "profile declared under both profiles' keys", ""}
			decl = "both-keys"
		case d == 9:
			nullProfile = true
			a.Profile = nil
			exp = c07Exp{"open", "", "null profile claim", ""}
			decl = "null"
		case d == 10:
			if base == 1 {
				key265onP1 = true
				exp = c07Exp{"open", "", "key 265 on a P1-keyed token", ""}
				decl = "key265-on-p1"
			} else {
				nontext = true
				a.Profile = nil
				exp = c07Exp{"error", "", "profile claim of a non-text type", ""}
				decl = "non-text"
			}
		default:
			nm := names[g.R.Intn(len(names))]
			a.Canon, a.Profile = nm, model.SP(nm)
			exp = c07Exp{"type", nm, "registered name declared", ""}
			decl = "registered"
		}
		// validity under the declared profile's rules (reference model)
		modelValid := false
		if exp.verdict == "type" {
			a.Canon = exp.name
			if reg.base[exp.name] != base {
				// e.g. a P2-keyed token without profile claim dispatches to P1: nothing of it is understood
				modelValid = false
			} else {
				modelValid = a.Valid()
			}
		}
		if a.Profile != nil && !both && !key265onP1 && !nontext && !nullProfile {
			exp.declared = *a.Profile
		}
		for _, format := range []string{"cbor", "json"} {
			e := exp
			var amOverride *model.Claims
			mvOverride := -1    // -1: none; 0/1: the set is invalid/valid under the profile made determinate below
			cborBothValid := -1 // -1: not a both-keys case; 0: content not understood by the selected profile; 1: content valid iff the set is
			var input []byte
			if format == "cbor" {
				w := a.WireCBOR()
				switch {
				case both:
					// in CBOR the token's profile claim is key 265 (P1's own -75000 is just another
					// claim of the P1 implementation), so these are determinate
					if base == 1 {
						w.Items = append(w.Items, refcbor.I(model.P2KProfile), refcbor.Tstr(model.P2Name))
						e = c07Exp{"type", model.P2Name, "key 265 names profile 2 (on a P1-keyed token)", model.P2Name}
						cborBothValid = 0
					} else {
						w.Items = append(w.Items, refcbor.I(model.P1KProfile), refcbor.Tstr(model.P1Name))
						e = c07Exp{"type", model.P2Name, "key 265 names profile 2 (P1's -75000 is an unknown key to it)", model.P2Name}
						cborBothValid = 1
					}
				case nullProfile:
					w.Items = append(w.Items, refcbor.I(model.KeyOf(base, "profile")), refcbor.Null())
				case key265onP1:
					cand265 := []string{model.P1Name, model.P2Name, "http://example.com/unregistered/1"}
					for _, nm := range reg.names(1) {
						if nm != model.P1Name {
							// a registered P1-derived profile named under key 265: the one way
							// to select such a profile in CBOR
							cand265 = append(cand265, nm, nm)
						}
					}
					v265 := cand265[g.R.Intn(len(cand265))]
					w.Items = append(w.Items, refcbor.I(model.P2KProfile), refcbor.Tstr(v265))
					switch v265 {
					case model.P1Name, model.P2Name, "http://example.com/unregistered/1":
					default:
						e = c07Exp{"type", v265, "key 265 names a registered P1-derived profile (on a P1-keyed token)", v265}
						// that implementation reads P1's keys; its own profile claim (-75000) is absent or
						// says PSA_IOT_PROFILE_1, which is not this profile's name
						amOverride = a.Clone()
						amOverride.Canon = v265
						mvOverride = 0
						if a.Profile == nil && amOverride.Valid() {
							mvOverride = 1
						}
						c.Count("p1-derived-selected-by-key-265")
					}
					switch v265 {
					case model.P2Name:
						e = c07Exp{"type", model.P2Name, "key 265 names profile 2 (on a P1-keyed token)", model.P2Name}
						cborBothValid = 0
					case model.P1Name:
						// open encoding (profile-1 name under key 265)
					case "http://example.com/unregistered/1":
						e = c07Exp{"error", "", "key 265 carries an unregistered profile value (on a P1-keyed token)", v265}
					}
				case nontext:
					w.Items = append(w.Items, refcbor.I(model.P2KProfile), []*refcbor.Node{refcbor.U(2), refcbor.Arr(refcbor.Tstr(model.P2Name)), refcbor.Bool(true), refcbor.MapOf()}[g.R.Intn(4)])
				}
				if g.R.Intn(3) == 0 {
					// key order must not matter
					for x := len(w.Items)/2 - 1; x > 0; x-- {
						y := g.R.Intn(x + 1)
						w.Items[2*x], w.Items[2*y] = w.Items[2*y], w.Items[2*x]
						w.Items[2*x+1], w.Items[2*y+1] = w.Items[2*y+1], w.Items[2*x+1]
					}
				}
				if g.R.Intn(4) == 0 {
					// the integer keys in a longer-than-necessary (still well-formed) form
					for x := 0; x+1 < len(w.Items); x += 2 {
						if g.R.Intn(2) == 0 {
							wd := []int{2, 4, 8}[g.R.Intn(3)]
							if wd < 8 && w.Items[x].U>>(8*uint(wd)) != 0 {
								wd = 8 // the argument must still fit
							}
							w.Items[x] = w.Items[x].WithArgW(wd)
						}
					}
					c.Count("cbor-keys-in-non-shortest-form")
				}
				input = refcbor.Encode(w)
				if e.verdict == "type" && reg.base[e.name] == 1 && e.name != model.P1Name && a.Profile != nil {
					e = c07Exp{"open", "", "P1-derived extension is not selectable in CBOR by design", exp.declared}
				}
				if a.Profile != nil && *a.Profile == c07OIDName {
					// the CBOR form of an OID-valued profile claim is not a text string; the
					// text form used here is outside what the library emits
					e = c07Exp{"open", "", "OID-named profile in CBOR", exp.declared}
				}
				if base == 1 && (decl == "p2-name-under-p1-key" || decl == "unregistered") {
					// the CBOR selector only reads key 265, so a name under -75000 cannot be looked up
					// there; what is determinate is that such a token is never *accepted* (as P1)
					e = c07Exp{"open", "", "name under -75000 is not visible to the CBOR selector", exp.declared}
				}
			} else {
				ms := a.JSONMembers()
				switch {
				case both:
					if base == 1 {
						ms = append(ms, model.Member{Name: "eat-profile", Value: `"` + model.P2Name + `"`})
					} else {
						ms = append(ms, model.Member{Name: "psa-profile", Value: `"` + model.P1Name + `"`})
					}
				case nullProfile:
					ms = append(ms, model.Member{Name: model.JSONName(base, "profile"), Value: "null"})
					if base == 1 {
						// a null profile member declares nothing (JSON null = no value; the
						// dispatcher documents "no registered profile member carries a
						// non-null value" as the profile-1 fallback)
						e = c07Exp{"type", model.P1Name, "JSON null profile member: profile 1 assumed", ""}
						mvOverride = 0
						if a.Valid() {
							mvOverride = 1
						}
						c.Count("json-null-profile-member-on-p1")
					}
				case key265onP1:
					ms = append(ms, model.Member{Name: "eat-profile", Value: `"http://example.com/unregistered/1"`})
				case nontext:
					ms = append(ms, model.Member{Name: "eat-profile", Value: []string{"2", `["` + model.P2Name + `"]`, "true", "{}"}[g.R.Intn(4)]})
				}
				if g.R.Intn(8) == 0 {
					// a member with the EMPTY name is an unknown member like any other
					ms = append(ms, model.Member{Name: "", Value: []string{`1`, `"PSA_IOT_PROFILE_1"`, `"http://arm.com/psa/2.0.0"`, `null`}[g.R.Intn(4)]})
					c.Count("json-documents-with-empty-named-member")
				}
				if g.R.Intn(3) == 0 {
					g.R.Shuffle(len(ms), func(x, y int) { ms[x], ms[y] = ms[y], ms[x] })
				}
				if g.R.Intn(4) == 0 {
					// the same string VALUE spelled with JSON escapes
					for mi := range ms {
						if ms[mi].Name == "eat-profile" || ms[mi].Name == "psa-profile" {
							v := ms[mi].Value
							if len(v) > 2 && v[0] == '"' {
								v = strings.ReplaceAll(v, "/", `\/`)
								v = strings.Replace(v, "_", `\u005f`, 1)
								v = strings.Replace(v, "a", `\u0061`, 1)
								ms[mi].Value = v
							}
						}
					}
					c.Count("json-profile-spelled-with-escapes")
				}
				input = model.MembersJSON(ms)
				if decl == "p2-name-under-p1-key" || decl == "p1-name-under-p2-key" {
					e = c07Exp{"error", "", "no registered profile has this (member, value) pair", exp.declared}
				}
				if both && a.Profile != nil && reg.types[*a.Profile] != "" {
					e = c07Exp{"error", "", "two registered profiles declared at once", ""}
				}
			}
			sig := fmt.Sprintf("%s|%s|base%d|%s|%s", reg.name, format, base, decl, valClass)
			c.Sig(sig)
			mv, am, skipValidity := modelValid && e.verdict == "type" && e.name == exp.name && exp.verdict == "type", a, false
			if format == "cbor" && cborBothValid >= 0 {
				// both-keys cases made determinate above
				mv = cborBothValid == 1 && a.Valid()
				if cborBothValid == 1 && !(a.Profile != nil && *a.Profile == model.P2Name) {
					skipValidity = true
				}
			}
			if mvOverride >= 0 {
				mv, skipValidity = mvOverride == 1, false
			}
			if amOverride != nil {
				am = amOverride
			}
			if format == "json" && base == 2 && decl == "absent" {
				// P1 and P2 share most JSON member names: without profile member this
				// document simply IS a profile-1 document (minus the members P1 does not know)
				am = a.Clone()
				am.P, am.Canon, am.Profile, am.CertRef = 1, model.P1Name, nil, nil
				if a.HasNonce && len(a.Nonces) == 1 {
					mv = am.Valid()
				} else {
					skipValidity = true
				}
			}
			c07Check(c, reg, format, input, am, e, mv, skipValidity, sig)
			// the per-type decoders, into an object made by the profile's constructor
			// (profile claim pre-set): what the token lacks stays lacking, what it carries wins
			if (decl == "absent" || decl == "registered-base") && !both && !key265onP1 && !nullProfile {
				baseName := map[int]string{1: model.P1Name, 2: model.P2Name}[base]
				pn, pv, fr := mon.Guard(func() {
					y, nerr := psatoken.NewClaims(baseName)
					if nerr != nil {
						return
					}
					var derr error
					if format == "cbor" {
						derr = y.(interface{ UnmarshalCBOR([]byte) error }).UnmarshalCBOR(input)
					} else {
						derr = y.(interface{ UnmarshalJSON([]byte) error }).UnmarshalJSON(input)
					}
					c.Eval()
					if derr != nil {
						c.Count("per-type-decode-refused")
						return
					}
					b := a.Clone()
					b.Canon = baseName
					want, got := b.Expect(), obs.Observe(y)
					c.Count("per-type-decodes-into-constructor-made-object")
					if d := model.ObsDiff(&want, &got); d != "" {
						c.Violation("C07/"+format+"/per-type-decode-differs/"+obsKey(&want, &got), fmt.Sprintf("decoding with the %s type's own unmarshaller into an object from NewClaims gives other claims than the token carries: %s", baseName, d), map[string]any{"sig": sig, "input_hex": mon.Hex(input)})
					}
				})
				if pn {
					c.Violation("C07/panic/"+mon.PanicKey(fr), "panic in a per-type decoder", map[string]any{"panic": pv, "frame": fr, "sig": sig})
				}
			}
			if i < 2 && format == "json" {
				c.Sample("token", map[string]any{"sig": sig, "json": string(input), "expect": e.verdict + ":" + e.name})
			}
		}
	}
	c.Floor("determinate:type", 1000)
	c.Floor("determinate:error", 1000)
	c.Floor("no-verdict", 500)
	c.Floor("json-null-profile-member-on-p1", 100)
	c.Floor("accepted-by-validating-decoder", 1000)
	c.Floor("rejected-valid-only-under-other-profile", 100)
}

func c07Check(c *mon.Ctx, reg *c07Registry, format string, input []byte, a *model.Claims, e c07Exp, modelValid, skipValidity bool, sig string) {
	dec, decV := psatoken.DecodeClaimsFromCBOR, psatoken.DecodeAndValidateClaimsFromCBOR
	if format == "json" {
		dec, decV = psatoken.DecodeClaimsFromJSON, psatoken.DecodeAndValidateClaimsFromJSON
	}
	var x, xv psatoken.IClaims
	var err, errV error
	if pn, pv, fr := mon.Guard(func() {
		x, err = dec(input)
		xv, errV = decV(input)
	}); pn {
		c.Violation("C07/panic/"+mon.PanicKey(fr), "panic while decoding", map[string]any{"panic": pv, "frame": fr, "sig": sig})
		return
	}
	c.Eval()
	// COSE route (seeded fault C07-u: UnmarshalCOSE decoding into the claims object
	// the Evidence already holds, bypassing the register): the same claims bytes as
	// payload of an envelope, decoded by a fresh Evidence and by ONE Evidence reused
	// for every token of this process, must be dispatched exactly like the bare
	// claims-set (same outcome, implementation, canonical profile, content).
	if format == "cbor" {
		tok := sign1Bytes([]byte{0xa1, 0x01, 0x26}, nil, input, []byte("not-verified-here-64-bytes-of-signature-are-not-needed-to-decode"))
		for ri, ev := range []*psatoken.Evidence{{}, c07Reused} {
			var cerr error
			if pn, pv, fr := mon.Guard(func() { cerr = ev.UnmarshalCOSE(tok) }); pn {
				c.Violation("C07/panic/"+mon.PanicKey(fr), "panic while decoding an envelope", map[string]any{"panic": pv, "frame": fr, "sig": sig})
				break
			}
			c.Eval()
			route := []string{"fresh-evidence", "reused-evidence"}[ri]
			c.Count("cose-route:" + route)
			d := map[string]any{"sig": sig, "config": reg.name, "payload_hex": mon.Hex(input), "bare_decode_err": fmt.Sprint(err), "cose_decode_err": fmt.Sprint(cerr), "route": route}
			switch {
			case (err == nil) != (cerr == nil):
				c.Violation("C07/cose/outcome-differs-from-bare-claims/"+route, "the envelope's payload is dispatched differently from the same bytes given to DecodeClaimsFromCBOR", d)
			case err == nil && (typeOf(ev.Claims) != typeOf(x) || canonicalOf(ev.Claims) != canonicalOf(x)):
				c.Violation("C07/cose/dispatched-to-other-profile/"+route, fmt.Sprintf("payload decoded by %T/%q inside the envelope, by %T/%q bare", ev.Claims, canonicalOf(ev.Claims), x, canonicalOf(x)), d)
			case err == nil:
				want, got := obs.Observe(x), obs.Observe(ev.Claims)
				if df := model.ObsDiff(&want, &got); df != "" {
					c.Violation("C07/cose/content-differs-from-bare-claims/"+route, "claims decoded from the envelope differ from the same payload decoded bare: "+df, d)
				}
			}
		}
	}
	det := func() map[string]any {
		d := map[string]any{"sig": sig, "config": reg.name, "format": format, "expected": e.verdict + ":" + e.name, "why": e.why, "decode_err": fmt.Sprint(err), "validating_err": fmt.Sprint(errV)}
		if format == "json" {
			d["json"] = string(input)
		} else {
			d["wire_hex"] = mon.Hex(input)
		}
		if x != nil {
			d["result_type"], d["result_canonical"] = typeOf(x), canonicalOf(x)
		}
		return d
	}
	key := func(s string) string { return "C07/" + format + "/" + s }
	// an accepted token reports the profile of the implementation that validated it
	if errV == nil {
		c.Count("accepted-by-validating-decoder")
		p, perr := xv.GetProfile()
		if perr != nil || p != canonicalOf(xv) || reg.types[p] != typeOf(xv) {
			c.Violation(key("accepted-profile-mismatch"), fmt.Sprintf("accepted token: GetProfile()=%q (%v), implementation %T registered for %q", p, perr, xv, canonicalOf(xv)), det())
		} else if e.declared != "" && p != e.declared {
			c.Violation(key("accepted-under-other-profile"), fmt.Sprintf("a token declaring profile %q was accepted as %q", e.declared, p), det())
		} else if e.declared == "" && e.verdict != "open" && p != model.P1Name {
			c.Violation(key("accepted-under-other-profile"), fmt.Sprintf("a token declaring no profile was accepted as %q", p), det())
		}
	}
	switch e.verdict {
	case "open":
		c.Count("no-verdict")
		c.Count("no-verdict:" + e.why)
		return
	case "error":
		c.Count("determinate:error")
		if err == nil {
			c.Violation(key("unregistered-profile-decoded"), fmt.Sprintf("decoding succeeded (%T) although the token declares %s", x, e.why), det())
		}
		if errV == nil {
			c.Violation(key("unregistered-profile-accepted"), "the validating decoder accepted a token that declares "+e.why, det())
		}
		return
	}
	c.Count("determinate:type")
	wantType := reg.types[e.name]
	if err != nil && !modelValid {
		// profiles built on the embedding-aware codec refuse a token with a
		// missing mandatory key already while decoding
		c.Count("registered-but-invalid-undecodable")
		if errV == nil {
			c.Violation(key("accepted-undecodable"), "validating decoder accepted what the non-validating decoder rejects", det())
		}
		return
	}
	if err != nil {
		c.Violation(key("registered-profile-undecodable"), fmt.Sprintf("decoding failed (%v) for a token declaring the registered profile %q (%s)", err, e.name, e.why), det())
		return
	}
	if typeOf(x) != wantType || canonicalOf(x) != e.name {
		c.Violation(key("dispatched-to-other-profile"), fmt.Sprintf("token declaring %q (%s) was decoded by %T/%q, registered: %s", e.name, e.why, x, canonicalOf(x), wantType), det())
		return
	}
	c.Count("dispatch-ok:" + wantType)
	if skipValidity {
		c.Count("validity-not-judged")
		return
	}
	if modelValid {
		if errV != nil {
			c.Violation(key("valid-under-declared-profile-rejected"), "the validating decoder rejected a token that is valid under its declared profile's rules: "+errV.Error(), det())
			return
		}
		if p, _ := xv.GetProfile(); p != e.name {
			c.Violation(key("accepted-reports-other-profile"), fmt.Sprintf("accepted token reports profile %q, declared %q", p, e.name), det())
		}
		// the decoded claims equal the abstract content
		want := a.Expect()
		got := obs.Observe(xv)
		if d := model.ObsDiff(&want, &got); d != "" {
			c.Violation(key("accepted-content-differs"), "accepted token decodes to other claims than it carries: "+d, det())
		}
	} else {
		if errV == nil {
			c.Violation(key("invalid-under-declared-profile-accepted"), "the validating decoder accepted a token that is NOT valid under the rules of the profile it declares", det())
			return
		}
		if strings.HasPrefix(sigField(sig, 4), "valid-only-under") {
			c.Count("rejected-valid-only-under-other-profile")
		}
	}
}

func sigField(sig string, i int) string {
	parts := strings.Split(sig, "|")
	if i < len(parts) {
		return parts[i]
	}
	return ""
}
