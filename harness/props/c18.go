package props

import (
	"crypto"
	"fmt"
	"reflect"

	"github.com/veraison/psatoken"

	"verif/harness/extprof"
	"verif/harness/keys"
	"verif/harness/model"
	"verif/harness/mon"
	"verif/harness/obs"
	"verif/harness/refcbor"
	"verif/harness/refcose"
)

func init() { register("C18", runC18) }

// deepSnapshot renders every reachable field (exported or not) of the object;
// map entries in a canonical order whatever the key type (the COSE header maps
// are keyed by interface values, which go-spew leaves in iteration order).
func deepSnapshot(v any) string { return mon.DeepDump(v) }

type c18Call struct {
	name string
	fn   func() string
}

// c18Calls lists the read-side calls available on an object.
func c18Calls(x psatoken.IClaims, ev *psatoken.Evidence, pks []crypto.PublicKey) []c18Call {
	var l []c18Call
	if x != nil {
		l = append(l,
			c18Call{"Validate", func() string { return errText(x.Validate()) }},
			c18Call{"GetProfile", func() string { v, e := x.GetProfile(); return fmt.Sprint(v, errText(e)) }},
			c18Call{"GetClientID", func() string { v, e := x.GetClientID(); return fmt.Sprint(v, errText(e)) }},
			c18Call{"GetSecurityLifeCycle", func() string { v, e := x.GetSecurityLifeCycle(); return fmt.Sprint(v, errText(e)) }},
			c18Call{"GetImplID", func() string { v, e := x.GetImplID(); return fmt.Sprintf("%x %s", v, errText(e)) }},
			c18Call{"GetBootSeed", func() string { v, e := x.GetBootSeed(); return fmt.Sprintf("%x %s", v, errText(e)) }},
			c18Call{"GetCertificationReference", func() string { v, e := x.GetCertificationReference(); return fmt.Sprint(v, errText(e)) }},
			c18Call{"GetSoftwareComponents", func() string {
				scs, e := x.GetSoftwareComponents()
				out := errText(e)
				for _, sc := range scs {
					out += obs.ObserveComp(sc)
				}
				return out
			}},
			c18Call{"GetNonce", func() string { v, e := x.GetNonce(); return fmt.Sprintf("%x %s", v, errText(e)) }},
			c18Call{"GetInstID", func() string { v, e := x.GetInstID(); return fmt.Sprintf("%x %s", v, errText(e)) }},
			c18Call{"GetVSI", func() string { v, e := x.GetVSI(); return fmt.Sprint(v, errText(e)) }},
			c18Call{"EncodeClaimsToCBOR", func() string { b, e := psatoken.EncodeClaimsToCBOR(x); return fmt.Sprintf("%x %s", b, errText(e)) }},
			c18Call{"EncodeClaimsToJSON", func() string { b, e := psatoken.EncodeClaimsToJSON(x); return fmt.Sprintf("%s %s", b, errText(e)) }},
			c18Call{"ValidateAndEncodeClaimsToCBOR", func() string {
				b, e := psatoken.ValidateAndEncodeClaimsToCBOR(x)
				return fmt.Sprintf("%x %s", b, errText(e))
			}},
			c18Call{"ValidateAndEncodeClaimsToJSON", func() string {
				b, e := psatoken.ValidateAndEncodeClaimsToJSON(x)
				return fmt.Sprintf("%s %s", b, errText(e))
			}},
			c18Call{"ValidateClaims(generic)", func() string { return errText(psatoken.ValidateClaims(x)) }},
			c18Call{"SetClaims(on another Evidence)", func() string { return errText((&psatoken.Evidence{}).SetClaims(x)) }},
		)
		// the component container and the components themselves, called directly
		var cont psatoken.ISwComponents
		if q := obs.P1Of(x); q != nil {
			cont = q.SwComponents
		} else if q := obs.P2Of(x); q != nil {
			cont = q.SwComponents
		}
		if cont != nil && !reflect.ValueOf(cont).IsNil() {
			l = append(l,
				c18Call{"SwComponents.Validate", func() string { return errText(cont.Validate()) }},
				c18Call{"SwComponents.IsEmpty", func() string { return fmt.Sprint(cont.IsEmpty()) }},
				c18Call{"SwComponents.Values", func() string {
					vs, e := cont.Values()
					out := errText(e)
					for _, sc := range vs {
						out += obs.ObserveComp(sc) + errText(sc.Validate())
					}
					return out
				}},
			)
			if m, ok := cont.(interface{ MarshalCBOR() ([]byte, error) }); ok {
				l = append(l, c18Call{"SwComponents.MarshalCBOR", func() string { b, e := m.MarshalCBOR(); return fmt.Sprintf("%x %s", b, errText(e)) }})
			}
			if m, ok := cont.(interface{ MarshalJSON() ([]byte, error) }); ok {
				l = append(l, c18Call{"SwComponents.MarshalJSON", func() string { b, e := m.MarshalJSON(); return fmt.Sprintf("%s %s", b, errText(e)) }})
			}
		}
	}
	if ev != nil {
		for i, pk := range pks {
			pk := pk
			l = append(l, c18Call{fmt.Sprintf("Evidence.Verify(key %d)", i), func() string { return errText(ev.Verify(pk)) }})
		}
		l = append(l,
			c18Call{"Evidence.GetInstanceID", func() string { return fmt.Sprintf("%x", derefB(ev.GetInstanceID())) }},
			c18Call{"Evidence.GetImplementationID", func() string { return fmt.Sprintf("%x", derefB(ev.GetImplementationID())) }},
			c18Call{"Evidence.MarshalJSON", func() string { b, e := ev.MarshalJSON(); return fmt.Sprintf("%s %s", b, errText(e)) }},
		)
	}
	return l
}

func errText(e error) string {
	if e == nil {
		return "<nil>"
	}
	return "error: " + e.Error()
}

func runC18(c *mon.Ctx) {
	c.Rule("objects: valid and rule-breaking claims-sets of both profiles and the P2 extension built by direct assignment / by setters (also extensions with a pointer-embedded optional claim group and pointer-receiver codecs, with two embedded structs, with an own component type) / by decoding CBOR (incl. tokens of a registered extension that keeps two claims undecoded as cbor.RawMessage, and C04's type-breaking and open-encoding tokens that still decode) / by decoding JSON, and Evidence obtained by decoding COSE (also messages with an unusual header layout: empty protected header, empty-map protected header, algorithm only in the unprotected header, algorithm as text, further labels, several unknown integer / text labels, no algorithm but other labels) and by signing. On each object a random sequence of 1..30 read-side calls (Validate, the 10 getters, component getters, CBOR/JSON encoding validating and not, generic ValidateClaims, SetClaims of the object on ANOTHER Evidence, the component container's own Validate / Values / IsEmpty / MarshalCBOR / MarshalJSON and each component's Validate; on Evidence: Verify with right / wrong / nil key, GetInstanceID, GetImplementationID, MarshalJSON), every call issued twice. Oracle: (1) the two results of each call are identical (encodings byte-identical); (2) a deep snapshot (reflective dump of every exported and unexported field reachable from the object, pointer addresses and capacities left out, map entries in canonical order; for Evidence including the hidden COSE message) is identical before and after the sequence; (2b) the raw CBOR / JSON encodings handed out for an object, and the Verify outcome of an Evidence, are kept and re-checked after six further objects were processed; (3) decode-from-buffer cases: after the decode the caller's buffer is overwritten with 0x00, 0xFF and random bytes - deep snapshot, every getter result and the Verify outcomes must not change. distinct_nontrivial = distinct (object kind, route, validity class, first calls) signatures")
	if err := extprof.Register(extprof.ExtP2Name, extprof.ExtRawName); err != nil {
		c.Violation("harness/register", err.Error(), nil)
		return
	}
	g := model.NewGen(c.Seed*6997 + int64(c.Shard))
	ks := []keys.Pair{keys.New("ES256", 0), keys.New("EdDSA", 0), keys.New("PS256", 0)}
	held18 := &returnedBytes{prop: "C18"}
	type c18HeldEv struct {
		ev    *psatoken.Evidence
		pk    crypto.PublicKey
		ok    bool
		route string
	}
	var held18ev []c18HeldEv
	n := c.N(60000, 240000) // the thorough tier runs with GOGC=1 (a collection after almost every allocation), which costs ~20x
	for i := 0; i < n; i++ {
		// ---- obtain an object
		var x psatoken.IClaims
		var ev *psatoken.Evidence
		var buf []byte // the caller's input buffer, if the object was decoded
		route := ""
		valClass := "valid"
		p := 1 + g.R.Intn(2)
		var a *model.Claims
		switch g.R.Intn(4) {
		case 0:
			a = g.Valid(p)
		case 1:
			a, _ = g.ValidProduct(p)
		case 2:
			a, _ = g.Mutated(p, 1)
			valClass = "rule-1"
		default:
			a, _ = g.Mutated(p, 2)
			valClass = "rule-2"
		}
		if p == 2 && a.Profile != nil && *a.Profile == model.P2Name && g.R.Intn(5) == 0 {
			a.Canon, a.Profile = extprof.ExtP2Name, model.SP(extprof.ExtP2Name)
		}
		k := ks[g.R.Intn(len(ks))]
		pks := []crypto.PublicKey{k.Pub, ks[(g.R.Intn(2)+1)%3].Pub, nil}
		var err error
		ok := true
		if pn, pv, fr := mon.Guard(func() {
			switch r := g.R.Intn(9); r {
			case 8:
				// extensions with unusual struct layouts: an optional claim group
				// embedded by POINTER (nil = absent; codecs with pointer receivers),
				// two embedded structs, an own component type
				a = g.Valid(2)
				valClass = "valid"
				switch g.R.Intn(3) {
				case 0:
					route = "extension:pointer-embedded-group"
					x = extprof.NewExtGroupClaims()
					if g.R.Intn(3) == 0 {
						x.(*extprof.ExtGroupClaims).VendorGroup = &extprof.VendorGroup{Model: model.SP("m")}
					}
					a.Canon, a.Profile = extprof.ExtGroupName, model.SP(extprof.ExtGroupName)
				case 1:
					route = "extension:two-embedded-structs"
					x = extprof.NumberedProfile{Name: "http://example.com/c18/mixin", Base: 3}.GetClaims()
					a.Canon, a.Profile = "http://example.com/c18/mixin", model.SP("http://example.com/c18/mixin")
				default:
					route = "extension:own-component-type"
					x = extprof.NewExtOwnerClaims()
					a.Canon, a.Profile = extprof.ExtOwnerName, model.SP(extprof.ExtOwnerName)
					var scs []psatoken.ISwComponent
					for j := range a.Comps {
						scs = append(scs, &extprof.OwnerComponent{SwComponent: *obs.RealComp(&a.Comps[j]), Owner: model.SP("o")})
					}
					a.Comps = nil
					if err = x.SetSoftwareComponents(scs); err != nil {
						return
					}
				}
				err = obs.SetterApply(x, a)
			case 0:
				route = "direct"
				x, err = obs.Build(a)
			case 1:
				route = "setters"
				if !a.Valid() || (a.NoMeas != nil && *a.NoMeas != 1) {
					a = g.Valid(p)
					valClass = "valid"
				}
				x, err = obs.SetterBuild(a)
			case 2:
				route = "decoded-cbor"
				buf = refcbor.Encode(a.WireCBOR())
				if a.P == 2 && a.Canon == model.P2Name && g.R.Intn(4) == 0 {
					// a registered extension that keeps two claims undecoded (cbor.RawMessage)
					route = "decoded-cbor-extension-with-raw-claims"
					a.Canon, a.Profile = extprof.ExtRawName, model.SP(extprof.ExtRawName)
					w := a.WireCBOR()
					blob := refcbor.MapOf(refcbor.I(1), refcbor.Bstr(g.Bytes(24)), refcbor.Tstr("vendor"), refcbor.Arr(refcbor.U(1), refcbor.Tstr(g.NonEmptyText())))
					w.Items = append(w.Items, refcbor.I(-75900), blob, refcbor.I(-75901), refcbor.Bstr(g.Bytes(40)))
					buf = refcbor.Encode(w)
				}
				x, err = psatoken.DecodeClaimsFromCBOR(buf)
			case 3:
				route = "decoded-cbor-wirecase"
				_, _, w, s := g.WireCase()
				valClass = "wire:" + s.String()
				if len(valClass) > 40 {
					valClass = valClass[:40]
				}
				buf = refcbor.Encode(w)
				x, err = psatoken.DecodeClaimsFromCBOR(buf)
			case 4:
				route = "decoded-json"
				buf = a.WireJSON()
				x, err = psatoken.DecodeClaimsFromJSON(buf)
			case 5, 6:
				route = "evidence-decoded-cose"
				var y psatoken.IClaims
				if y, err = obs.Build(a); err != nil {
					return
				}
				if buf, err = (&psatoken.Evidence{Claims: y}).Sign(k.Signer); err != nil {
					return
				}
				if g.R.Intn(3) == 0 {
					// the same message with an unusual header layout (whatever of these
					// the decoder accepts is an Evidence like any other: reading it,
					// verifying it under several keys, must not change it)
					if env, perr := refcose.Parse(buf); perr == nil {
						v := g.R.Intn(7)
						route = fmt.Sprintf("evidence-decoded-cose-header-variant-%d", v)
						algNode := refcbor.I(-7)
						switch v {
						case 0: // empty protected header
							buf = sign1Bytes(nil, nil, env.Payload, env.Signature)
						case 1: // protected header = empty map
							buf = sign1Bytes([]byte{0xa0}, nil, env.Payload, env.Signature)
						case 2: // algorithm only in the unprotected header
							buf = sign1Bytes(nil, refcbor.MapOf(refcbor.I(1), algNode), env.Payload, env.Signature)
						case 3: // algorithm as text
							buf = sign1Bytes(refcbor.Encode(refcbor.MapOf(refcbor.I(1), refcbor.Tstr("ES256"))), nil, env.Payload, env.Signature)
						case 4: // further labels next to the algorithm
							buf = sign1Bytes(refcbor.Encode(refcbor.MapOf(refcbor.I(1), algNode, refcbor.I(4), refcbor.Bstr([]byte("kid")), refcbor.I(3), refcbor.Tstr("application/eat-cwt"))), refcbor.MapOf(refcbor.I(4), refcbor.Bstr([]byte("kid2"))), env.Payload, env.Signature)
						case 6: // several parameters the library has no use for, integer and text labels
							buf = sign1Bytes(refcbor.Encode(refcbor.MapOf(refcbor.I(1), algNode, refcbor.I(3), refcbor.Tstr("application/eat-cwt"), refcbor.I(5), refcbor.Bstr([]byte("0123456789ab")),
								refcbor.I(100), refcbor.U(1), refcbor.I(-65537), refcbor.Tstr("v"), refcbor.Tstr("vendor"), refcbor.U(2), refcbor.Tstr("other"), refcbor.Bstr([]byte{1}))), nil, env.Payload, env.Signature)
						default: // protected header without algorithm but with other labels
							buf = sign1Bytes(refcbor.Encode(refcbor.MapOf(refcbor.I(4), refcbor.Bstr([]byte("kid")))), nil, env.Payload, env.Signature)
						}
					}
				}
				if ev, err = psatoken.DecodeEvidenceFromCOSE(buf); err == nil {
					x = ev.Claims
				}
			default:
				route = "evidence-self-signed"
				if x, err = obs.Build(a); err != nil {
					return
				}
				ev = &psatoken.Evidence{Claims: x}
				_, err = ev.Sign(k.Signer)
			}
		}); pn {
			c.Violation("C18/panic/"+mon.PanicKey(fr), "panic while obtaining the object", map[string]any{"panic": pv, "frame": fr, "route": route})
			continue
		}
		if err != nil || (x == nil && ev == nil) {
			c.Count("object-not-obtainable:" + route)
			continue
		}
		c.Count("objects:" + route)
		calls := c18Calls(x, ev, pks)
		var target any = x
		if ev != nil {
			target = ev
		}
		det := func() map[string]any {
			d := map[string]any{"route": route, "validity": valClass, "type": fmt.Sprintf("%T", target), "case": abstractSample(a)}
			if buf != nil && len(buf) < 4000 {
				d["input_hex"] = mon.Hex(buf)
			}
			return d
		}
		before := deepSnapshot(target)
		// ---- read-side sequence, each call twice
		l := 1 + g.R.Intn(30)
		seq := ""
		if pn, pv, fr := mon.Guard(func() {
			for j := 0; j < l && ok; j++ {
				cl := calls[g.R.Intn(len(calls))]
				if j < 3 {
					seq += cl.name + ","
				}
				r1 := cl.fn()
				r2 := cl.fn()
				c.Eval()
				c.Count("calls")
				if r1 != r2 {
					d := det()
					d["call"], d["first"], d["second"] = cl.name, trunc(r1, 800), trunc(r2, 800)
					c.Violation("C18/repeated-call-differs/"+cl.name, "the same read-side call gave two different results", d)
					ok = false
				}
			}
		}); pn {
			d := det()
			d["panic"], d["frame"] = pv, fr
			c.Violation("C18/panic/"+mon.PanicKey(fr), "panic in a read-side call", d)
			continue
		}
		if !ok {
			continue
		}
		// encodings handed out for THIS object must not be disturbed by what is
		// done with other objects later: keep the raw slices, re-check after six more objects
		if x != nil {
			if b, err := psatoken.EncodeClaimsToCBOR(x); err == nil {
				held18.add(c, b, "EncodeClaimsToCBOR", route+"|"+valClass, nil, nil)
			}
			if b, err := psatoken.EncodeClaimsToJSON(x); err == nil {
				held18.add(c, b, "EncodeClaimsToJSON", route+"|"+valClass, nil, nil)
			}
		}
		if ev != nil {
			held18ev = append(held18ev, c18HeldEv{ev, pks[0], ev.Verify(pks[0]) == nil, route})
			if len(held18ev) > 6 {
				h := held18ev[0]
				held18ev = held18ev[1:]
				c.Count("held-evidence-rechecked")
				if (h.ev.Verify(h.pk) == nil) != h.ok {
					c.Violation("C18/verify-outcome-changed-later/"+h.route, "the Verify outcome of an untouched Evidence changed after other objects were encoded / verified", map[string]any{"route": h.route, "verified_before": h.ok})
				}
			}
		}
		after := deepSnapshot(target)
		if before != after {
			d := det()
			d["first_calls"] = seq
			d["diff"] = firstDiff(before, after)
			c.Violation("C18/object-changed-by-reading/"+fmt.Sprintf("%T", target), "deep snapshot differs after a sequence of read-side calls", d)
			continue
		}
		c.Count("sequences-unchanged")
		c.Sig(fmt.Sprintf("%T|%s|%s|%s", target, route, valClass, seq))
		// ---- overwrite the caller's buffer
		if buf != nil {
			results := func() string {
				out := ""
				for _, cl := range calls {
					out += cl.name + "=" + cl.fn() + "\n"
				}
				return out
			}
			var res0 string
			if pn, _, _ := mon.Guard(func() { res0 = results() }); pn {
				continue
			}
			for _, fill := range []string{"zero", "ff", "random"} {
				for j := range buf {
					switch fill {
					case "zero":
						buf[j] = 0
					case "ff":
						buf[j] = 0xff
					default:
						buf[j] = byte(g.R.Intn(256))
					}
				}
				var res1 string
				if pn, pv, fr := mon.Guard(func() { res1 = results() }); pn {
					d := det()
					d["panic"], d["frame"] = pv, fr
					c.Violation("C18/panic/"+mon.PanicKey(fr), "panic in a read-side call after the input buffer was overwritten", d)
					break
				}
				snap := deepSnapshot(target)
				c.Eval()
				if res1 != res0 || snap != before {
					d := det()
					d["fill"] = fill
					d["diff"] = firstDiff(res0+before, res1+snap)
					c.Violation("C18/aliases-input-buffer/"+route, "overwriting the caller's input buffer after decoding changed the decoded object / its getter results / its Verify outcome", d)
					break
				}
				c.Count("buffer-overwrites-without-effect")
			}
		}
		if i < 2 {
			c.Sample("object", map[string]any{"route": route, "validity": valClass, "type": fmt.Sprintf("%T", target), "calls_in_sequence": l, "snapshot_bytes": len(before)})
		}
	}
	c.Floor("sequences-unchanged", 2000)
	c.Floor("buffer-overwrites-without-effect", 2000)
	for _, r := range []string{"direct", "setters", "decoded-cbor", "decoded-cbor-wirecase", "decoded-json", "evidence-decoded-cose", "evidence-self-signed"} {
		c.Floor("objects:"+r, 100)
	}
}

// firstDiff returns the surroundings of the first difference of two texts.
func firstDiff(a, b string) string {
	i := 0
	for i < len(a) && i < len(b) && a[i] == b[i] {
		i++
	}
	lo := i - 200
	if lo < 0 {
		lo = 0
	}
	ha, hb := i+200, i+200
	if ha > len(a) {
		ha = len(a)
	}
	if hb > len(b) {
		hb = len(b)
	}
	return fmt.Sprintf("at offset %d:\n--- before\n%s\n--- after\n%s", i, a[lo:ha], b[lo:hb])
}
