package props

import (
	"bytes"
	"crypto"
	crand "crypto/rand"
	"fmt"
	"math/rand"
	"runtime"
	"sort"
	"strings"
	"sync"
	"time"

	"github.com/veraison/psatoken"

	"verif/harness/extprof"
	"verif/harness/keys"
	"verif/harness/model"
	"verif/harness/mon"
	"verif/harness/obs"
	"verif/harness/refcbor"
	"verif/harness/refcose"
)

func init() { register("C17", runC17) }

// c17Shared is the set of objects all goroutines of a round read.
type c17Shared struct {
	claims  []psatoken.IClaims
	cnames  []string
	ev      []*psatoken.Evidence
	evKeys  []crypto.PublicKey
	enames  []string
	wires   [][]byte // valid CBOR claims to decode privately
	docs    [][]byte // valid JSON claims
	tokens  [][]byte // valid COSE tokens
	tokKeys []crypto.PublicKey
	signers []keys.Pair
	abstr   []*model.Claims
	// fresh, never-yet-serialised extension objects with an absent (nil)
	// pointer-embedded claim group: every goroutine's FIRST action of a round
	// is to serialise one of them
	groups []*extprof.ExtGroupClaims
}

type c17Event struct {
	g        int
	kind     string
	obj      int // >= 0: shared object id; -1 private
	t0, t1   int64
	digest   string
	panicked string
}

func buildC17Shared(g *model.Gen) (*c17Shared, error) {
	s := &c17Shared{}
	for _, alg := range []string{"ES256", "EdDSA", "ES256"} {
		s.signers = append(s.signers, keys.New(alg, 0))
	}
	for i := 0; i < 8; i++ {
		p := 1 + i%2
		a := g.Valid(p)
		if i >= 6 {
			// many components; in the second of the two sets several of them
			// are invalid, each in its own way (the error names index and field)
			a.HasComps, a.NoMeas, a.Comps = true, nil, nil
			for j := 0; j < 12; j++ {
				a.Comps = append(a.Comps, g.ValidComp())
			}
			if i == 7 {
				a.Comps[3].MVal = nil
				a.Comps[7].Signer = nil
				a.Comps[9].MVal = model.BP(g.Bytes(5))
				a.Comps[11].Signer = model.BP(g.Bytes(7))
			}
		}
		if i == 4 {
			a = g.Valid(2)
			a.Canon, a.Profile = extprof.ExtP2Name, model.SP(extprof.ExtP2Name)
		}
		if i == 2 {
			a.Profile = nil  // profile 1 without the (optional) profile claim
			two := uint64(2) // ... asserting "no software measurements" with a value other than 1
			a.HasComps, a.Comps, a.NoMeas = false, nil, &two
		}
		if i == 5 {
			// an invalid set is read just the same
			a.ImplID = model.BP(g.Bytes(31))
		}
		var x psatoken.IClaims
		var err error
		how := "setters"
		switch {
		case i == 5 || i == 4 || i >= 6:
			x, err = obs.Build(a)
			how = "direct"
		case i%3 == 0:
			x, err = obs.SetterBuild(a)
		default:
			x, err = psatoken.DecodeClaimsFromCBOR(refcbor.Encode(a.WireCBOR()))
			how = "decoded"
		}
		if err != nil {
			return nil, fmt.Errorf("shared claims %d: %w", i, err)
		}
		s.claims = append(s.claims, x)
		s.cnames = append(s.cnames, fmt.Sprintf("claims:%s:%s", profName(a), how))
		s.abstr = append(s.abstr, a)
		s.wires = append(s.wires, refcbor.Encode(a.WireCBOR()))
		s.docs = append(s.docs, a.WireJSON())
		if i < 4 {
			k := s.signers[i%len(s.signers)]
			signing := &psatoken.Evidence{Claims: x}
			tok, err := signing.Sign(k.Signer)
			if err != nil {
				return nil, err
			}
			s.tokens = append(s.tokens, tok)
			s.tokKeys = append(s.tokKeys, k.Pub)
			if i%2 == 0 {
				s.ev = append(s.ev, signing)
				s.enames = append(s.enames, "evidence:self-signed:"+k.Name)
			} else {
				d, err := psatoken.DecodeEvidenceFromCOSE(tok)
				if err != nil {
					return nil, err
				}
				s.ev = append(s.ev, d)
				s.enames = append(s.enames, "evidence:decoded:"+k.Name)
			}
			s.evKeys = append(s.evKeys, k.Pub)
		}
	}
	// a shared decoded Evidence of a token this library's encoder would not have
	// written byte for byte (claims in reversed key order), properly signed
	if env, perr := refcose.Parse(s.tokens[1]); perr == nil {
		if n, derr := refcbor.DecodeAll(env.Payload); derr == nil && n.K == refcbor.Map && len(n.Items) >= 4 {
			rev := refcbor.MapOf()
			for q := len(n.Items) - 2; q >= 0; q -= 2 {
				rev.Items = append(rev.Items, n.Items[q], n.Items[q+1])
			}
			pay := refcbor.Encode(rev)
			k := s.signers[1%len(s.signers)]
			prot := refcbor.Encode(refcbor.MapOf(refcbor.I(1), refcbor.I(coseAlgID[k.Name])))
			if sg, serr := k.Signer.Sign(crand.Reader, refcose.SigStructure(prot, pay)); serr == nil {
				if d, derr := psatoken.DecodeEvidenceFromCOSE(sign1Bytes(prot, nil, pay, sg)); derr == nil {
					s.ev = append(s.ev, d)
					s.evKeys = append(s.evKeys, k.Pub)
					s.enames = append(s.enames, "evidence:decoded:foreign-key-order")
				}
			}
		}
	}
	// a shared decoded Evidence whose protected header spells the algorithm as TEXT
	// (legal COSE, no use to this library: Verify fails - the same way every time)
	if env, perr := refcose.Parse(s.tokens[0]); perr == nil {
		prot := refcbor.Encode(refcbor.MapOf(refcbor.I(1), refcbor.Tstr("ES256")))
		if d, derr := psatoken.DecodeEvidenceFromCOSE(sign1Bytes(prot, nil, env.Payload, env.Signature)); derr == nil {
			s.ev = append(s.ev, d)
			s.evKeys = append(s.evKeys, s.evKeys[0])
			s.enames = append(s.enames, "evidence:decoded:textual-alg")
		}
	}
	for i := 0; i < 4; i++ {
		a := g.Valid(2)
		a.Canon, a.Profile = extprof.ExtGroupName, model.SP(extprof.ExtGroupName)
		x := extprof.NewExtGroupClaims()
		if err := obs.SetterApply(x, a); err != nil {
			return nil, fmt.Errorf("group extension %d: %w", i, err)
		}
		s.groups = append(s.groups, x.(*extprof.ExtGroupClaims))
	}
	// a decoded profile-1 set asserting "no software measurements" with a value
	// other than 1, untouched (never encoded) before the round
	{
		a := g.Valid(1)
		v := uint64(2 + g.R.Intn(250))
		a.HasComps, a.Comps, a.NoMeas = false, nil, &v
		x, err := psatoken.DecodeClaimsFromCBOR(refcbor.Encode(a.WireCBOR()))
		if err != nil {
			return nil, fmt.Errorf("flag-valued shared claims: %w", err)
		}
		s.claims = append(s.claims, x)
		s.cnames = append(s.cnames, "claims:P1-no-sw-measurements-value-not-1:decoded")
	}
	// one of them is also an ordinary shared claims-set of the round
	s.claims = append(s.claims, s.groups[0])
	s.cnames = append(s.cnames, "claims:extension-with-pointer-embedded-group:setters")
	// a shared decoded Evidence whose signature is the DER encoding of a real one
	// (it does not verify; verifying it concurrently must neither race nor differ)
	if env, perr := refcose.Parse(s.tokens[0]); perr == nil && len(env.Signature) == 64 {
		derInt := func(b []byte) []byte {
			for len(b) > 1 && b[0] == 0 {
				b = b[1:]
			}
			if b[0]&0x80 != 0 {
				b = append([]byte{0}, b...)
			}
			return append([]byte{0x02, byte(len(b))}, b...)
		}
		body := append(derInt(env.Signature[:32]), derInt(env.Signature[32:])...)
		der := append([]byte{0x30, byte(len(body))}, body...)
		if d, derr := psatoken.DecodeEvidenceFromCOSE(sign1Bytes(env.ProtectedBS, nil, env.Payload, der)); derr == nil {
			s.ev = append(s.ev, d)
			s.enames = append(s.enames, "evidence:decoded:DER-signature")
			s.evKeys = append(s.evKeys, s.tokKeys[0])
		}
	}
	return s, nil
}

// c17Op runs the i-th operation of goroutine gid and returns the event.
func c17Op(s *c17Shared, r *rand.Rand, gid int, clock func() int64) c17Event {
	ev := c17Event{g: gid, obj: -1}
	kind := r.Intn(20)
	var fn func() string
	switch {
	case kind < 8: // read-only operations on a SHARED claims-set
		i := r.Intn(len(s.claims))
		x := s.claims[i]
		ev.obj = i
		switch r.Intn(9) {
		case 8:
			// a goroutine's own Evidence signs the SHARED claims-set (issuing a
			// token reads the claims, it does not own them)
			ev.kind = "private-Evidence.Sign(shared claims)"
			k := s.signers[r.Intn(len(s.signers))]
			fn = func() string {
				e := &psatoken.Evidence{Claims: x}
				tok, err := e.Sign(k.Signer)
				if err != nil {
					return "sign-error: " + err.Error()
				}
				env, perr := refcose.Parse(tok)
				want, _ := psatoken.EncodeClaimsToCBOR(x)
				return fmt.Sprintf("independent=%v payload=%x payload-is-encoding=%v", perr == nil && env.Verify(k.Pub) == nil, env.Payload, perr == nil && bytes.Equal(env.Payload, want))
			}
		case 0:
			ev.kind = "Validate"
			fn = func() string { return fmt.Sprint(x.Validate()) }
		case 1:
			ev.kind = "getters"
			fn = func() string { o := obs.Observe(x); return o.String() }
		case 2:
			ev.kind = "EncodeClaimsToCBOR"
			fn = func() string { b, err := psatoken.EncodeClaimsToCBOR(x); return fmt.Sprintf("%x|%v", b, err == nil) }
		case 3:
			ev.kind = "EncodeClaimsToJSON"
			fn = func() string { b, err := psatoken.EncodeClaimsToJSON(x); return fmt.Sprintf("%s|%v", b, err == nil) }
		case 4:
			ev.kind = "ValidateAndEncodeClaimsToCBOR"
			fn = func() string {
				b, err := psatoken.ValidateAndEncodeClaimsToCBOR(x)
				return fmt.Sprintf("%x|%v", b, err == nil)
			}
		case 5:
			ev.kind = "GetSoftwareComponents+component-getters"
			fn = func() string {
				scs, err := x.GetSoftwareComponents()
				out := fmt.Sprint(err)
				for _, sc := range scs {
					out += obs.ObserveComp(sc)
				}
				return out
			}
		case 6:
			ev.kind = "GetNonce/GetInstID/GetImplID"
			fn = func() string {
				a, e1 := x.GetNonce()
				b, e2 := x.GetInstID()
				c, e3 := x.GetImplID()
				return fmt.Sprintf("%x%v%x%v%x%v", a, e1 == nil, b, e2 == nil, c, e3 == nil)
			}
		default:
			ev.kind = "ValidateAndEncodeClaimsToJSON"
			fn = func() string {
				b, err := psatoken.ValidateAndEncodeClaimsToJSON(x)
				return fmt.Sprintf("%s|%v", b, err == nil)
			}
		}
	case kind < 12: // read-only operations on a SHARED Evidence
		i := r.Intn(len(s.ev))
		e := s.ev[i]
		ev.obj = 100 + i
		switch r.Intn(5) {
		case 0, 1:
			ev.kind = "Evidence.Verify(right-key)"
			pk := s.evKeys[i]
			fn = func() string { return errStr(e.Verify(pk)) }
		case 2:
			ev.kind = "Evidence.Verify(wrong-key)"
			pk := s.evKeys[(i+1)%len(s.evKeys)]
			fn = func() string { return errStr(e.Verify(pk)) }
		case 3:
			ev.kind = "Evidence.GetInstanceID/GetImplementationID"
			fn = func() string {
				a, b := e.GetInstanceID(), e.GetImplementationID()
				return fmt.Sprintf("%x|%x", derefB(a), derefB(b))
			}
		default:
			ev.kind = "Evidence.MarshalJSON"
			fn = func() string { b, err := e.MarshalJSON(); return fmt.Sprintf("%s|%v", b, err == nil) }
		}
	default: // operations on PRIVATE objects
		j := r.Intn(len(s.wires))
		switch r.Intn(10) {
		case 0:
			ev.kind = "private:DecodeClaimsFromCBOR+read"
			w := s.wires[j]
			fn = func() string {
				x, err := psatoken.DecodeClaimsFromCBOR(w)
				if err != nil {
					return "error"
				}
				o := obs.Observe(x)
				return o.String()
			}
		case 1:
			ev.kind = "private:DecodeAndValidateClaimsFromJSON+read"
			d := s.docs[j]
			fn = func() string {
				x, err := psatoken.DecodeAndValidateClaimsFromJSON(d)
				if err != nil {
					return "error"
				}
				o := obs.Observe(x)
				return o.String()
			}
		case 2:
			ev.kind = "private:DecodeEvidenceFromCOSE+Verify"
			t := r.Intn(len(s.tokens))
			tok, pk := s.tokens[t], s.tokKeys[t]
			fn = func() string {
				e, err := psatoken.DecodeAndValidateEvidenceFromCOSE(tok)
				if err != nil {
					return "error"
				}
				o := obs.Observe(e.Claims)
				return fmt.Sprint(e.Verify(pk) == nil) + o.String()
			}
		case 3, 4:
			ev.kind = "private:NewClaims+setters+encode"
			a := s.abstr[j]
			if a.Canon == extprof.ExtP2Name || !a.Valid() {
				a = s.abstr[0]
			}
			fn = func() string {
				if a.NoMeas != nil && *a.NoMeas != 1 {
					return "skip"
				}
				x, err := obs.SetterBuild(a)
				if err != nil {
					return "error:" + err.Error()
				}
				b, err := psatoken.ValidateAndEncodeClaimsToCBOR(x)
				return fmt.Sprintf("%x|%v", b, err == nil)
			}
		case 5, 6:
			ev.kind = "private:SetClaims+ValidateAndSign+Verify"
			a := s.abstr[j%4]
			k := s.signers[r.Intn(len(s.signers))]
			fn = func() string {
				x, err := obs.Build(a)
				if err != nil {
					return "error"
				}
				e := &psatoken.Evidence{}
				if err := e.SetClaims(x); err != nil {
					return "setclaims-error"
				}
				tok, err := e.ValidateAndSign(k.Signer)
				if err != nil {
					return "sign-error"
				}
				env, perr := refcose.Parse(tok)
				want, _ := psatoken.EncodeClaimsToCBOR(x)
				return fmt.Sprintf("verify=%v independent=%v payload-ok=%v", e.Verify(k.Pub) == nil, perr == nil && env.Verify(k.Pub) == nil, perr == nil && bytes.Equal(env.Payload, want))
			}
		case 8:
			ev.kind = "private:every decode entry point incl. deprecated aliases"
			w, d := s.wires[j], s.docs[j]
			t := s.tokens[r.Intn(len(s.tokens))]
			fn = func() string {
				out := ""
				for _, f := range []func([]byte) (psatoken.IClaims, error){psatoken.DecodeClaimsFromCBOR, psatoken.DecodeAndValidateClaimsFromCBOR} {
					x, err := f(w)
					out += fmt.Sprint(err == nil)
					if err == nil {
						o := obs.Observe(x)
						out += o.String()
					}
				}
				for _, f := range []func([]byte) (psatoken.IClaims, error){psatoken.DecodeClaimsFromJSON, psatoken.DecodeAndValidateClaimsFromJSON, psatoken.DecodeJSONClaims, psatoken.DecodeUnvalidatedJSONClaims} {
					x, err := f(d)
					out += fmt.Sprint(err == nil)
					if err == nil {
						o := obs.Observe(x)
						out += o.String()
					}
				}
				e1, err1 := psatoken.DecodeEvidenceFromCOSE(t)
				e2 := &psatoken.Evidence{}
				err2 := e2.UnmarshalCOSE(t)
				out += fmt.Sprint(err1 == nil, err2 == nil, e1 != nil && e1.Claims != nil)
				_, err3 := psatoken.DecodeClaimsFromJSON([]byte(`{"psa-profile":"PSA_IOT_PROFILE_1","eat-profile":"http://arm.com/psa/2.0.0"}`))
				_, err4 := psatoken.DecodeClaimsFromJSON([]byte(`{"eat-profile":"http://example.com/unregistered"}`))
				// documents that are NOT well-formed, broken at a position that depends on the
				// operation: the full error text (it names the position) is part of the result
				cut := 1 + (gid*31+len(d)/3)%(len(d)-1)
				broken := append(append(append([]byte{}, d[:cut]...), '}', '#'), d[cut:]...)
				_, err5 := psatoken.DecodeClaimsFromJSON(broken)
				_, err6 := psatoken.DecodeAndValidateClaimsFromJSON(d[:cut])
				_, err7 := psatoken.DecodeClaimsFromCBOR(w[:1+cut%len(w)])
				return out + fmt.Sprint(err3 == nil, err4 == nil) + errStr(err5) + "|" + errStr(err6) + "|" + errStr(err7)
			}
		case 7:
			// the embedding-aware codec (extension profiles) under concurrency,
			// including decodes that FAIL half-way (duplicate key, text key, missing mandatory key)
			ev.kind = "private:extension-profile encode/decode incl. failing decodes"
			a := s.abstr[4]
			bad := [][]byte{
				{0xa2, 0x01, 0x00, 0x01, 0x00},              // duplicate key
				{0xa1, 0x61, 0x61, 0x00},                    // text key
				{0xa1, 0x19, 0x01, 0x09, 0x00},              // 265: 0 (wrong type), everything else missing
				{0xbf, 0x01, 0x00, 0x01, 0x00, 0xff},        // indefinite, duplicate
				{0xa1, 0x01},                                // truncated
				[]byte(`{"eat-profile":1,"eat-profile":2}`), // (JSON) duplicate member
			}
			which := r.Intn(len(bad))
			fn = func() string {
				out := ""
				y := extprof.NewExtP2Claims().(*extprof.ExtP2Claims)
				if which == len(bad)-1 {
					out += fmt.Sprint(y.UnmarshalJSON(bad[which]) == nil)
				} else {
					out += fmt.Sprint(y.UnmarshalCBOR(bad[which]) == nil)
				}
				x, err := obs.Build(a)
				if err != nil {
					return out + "unbuildable"
				}
				enc, err := psatoken.EncodeClaimsToCBOR(x)
				if err != nil {
					return out + "encode-error"
				}
				z, err := psatoken.DecodeClaimsFromCBOR(enc)
				if err != nil {
					return out + "decode-error"
				}
				o := obs.Observe(z)
				doc, _ := psatoken.EncodeClaimsToJSON(z)
				return out + fmt.Sprintf("%x|%s|%s", enc, o.String(), doc)
			}
		default:
			ev.kind = "private:NewClaims(every registered profile)"
			fn = func() string {
				out := ""
				for _, n := range []string{model.P1Name, model.P2Name, extprof.ExtP2Name, "unregistered"} {
					x, err := psatoken.NewClaims(n)
					if err != nil {
						out += "error;"
						continue
					}
					p, _ := x.GetProfile()
					out += p + ";"
				}
				return out
			}
		}
	}
	ev.t0 = clock()
	if pn, pv, _ := mon.Guard(func() { ev.digest = fn() }); pn {
		ev.panicked = pv
	}
	ev.t1 = clock()
	return ev
}

func derefB(p *[]byte) []byte {
	if p == nil {
		return nil
	}
	return *p
}

func runC17(c *mon.Ctx) {
	c.Rule("worker built with the Go race detector (GORACE halt_on_error=0, reports collected and de-duplicated by the supervisor; any report with a library frame is a violation). Rounds: G in {16,32,64} goroutines x GOMAXPROCS in {2,4,16}; each goroutine runs a seeded random mix of (a) read-only operations on SHARED claims-sets (P1, P2, extension; built by setters, by direct assignment and by decoding; one invalid; an extension with a nil pointer-embedded claim group and pointer-receiver codecs - four fresh ones per round, serialised for the FIRST time by all goroutines at once, and still nil afterwards; two with 12 software components, in one of which four components are invalid in different ways - the digest of Validate and GetSoftwareComponents is the full error text) - Validate, all getters, component getters, CBOR/JSON encoding validating and not - and on SHARED Evidence (self-signed and decoded): Verify with right and wrong key, GetInstanceID, GetImplementationID, MarshalJSON; a goroutine's own Evidence signing a SHARED claims-set (one of them profile 1 without profile claim); after the mixed pass one shared decoded Evidence is verified by all goroutines at once 120 times each (right key, wrong key, non-key) and every result must be the lone caller's; then all goroutines decode the SAME large CBOR claims-set / COSE token / extension JSON document (with deeply nested unknown members) at the same instant, 12 barrier-released steps each, write their own mark into the result and read it back: every outcome must be the lone caller's, no result may change under its owner, all results of a step must be distinct objects; (b) operations on PRIVATE objects: NewClaims for every registered profile, setters, decode CBOR / JSON / COSE, validate, read, encode, SetClaims, ValidateAndSign, Verify, and extension-profile encode / decode through the embedding-aware codec including decodes that fail half-way (duplicate key, text key, truncated). Profiles are only ever registered while no goroutine is running: the extension before the first round and one fresh profile before EVERY round, and each round runs its concurrent pass first, so that anything initialised lazily on first use (after a registration) is initialised under concurrency. A deep snapshot of every shared object taken before the concurrent pass must equal the one taken after it. The same seeds are then run sequentially; every operation's result digest must be identical in the concurrent run (signatures: verifies + payload equality). Call/return times from one monotonic clock give the number of operation pairs that actually overlapped on the same shared object; a round without such overlaps is inconclusive. Monitor state is per goroutine and merged after Wait(). distinct_nontrivial = distinct (round configuration, operation kind, object) signatures")
	if err := extprof.Register(extprof.ExtP2Name); err != nil {
		c.Violation("harness/register", err.Error(), nil)
		return
	}
	start := time.Now()
	clock := func() int64 { return int64(time.Since(start)) }
	g := model.NewGen(c.Seed*1877 + int64(c.Shard))
	type roundCfg struct{ G, procs int }
	var rounds []roundCfg
	for _, G := range []int{16, 32, 64} {
		for _, p := range []int{2, 4, 16} {
			rounds = append(rounds, roundCfg{G, p})
		}
	}
	reps := 1
	opsPerRound := 4000
	if !c.Quick() {
		reps, opsPerRound = 10, 12000
	}
	prev := runtime.GOMAXPROCS(0)
	defer runtime.GOMAXPROCS(prev)
	totalOverlap := int64(0)
	roundNo := 0
	for rep := 0; rep < reps; rep++ {
		for ri, rc := range rounds {
			s, err := buildC17Shared(g)
			if err != nil {
				c.Violation("harness/c17-shared", "could not build the shared objects: "+err.Error(), nil)
				return
			}
			per := opsPerRound / rc.G
			seedBase := c.Seed*1_000_003 + int64(c.Shard)*10007 + int64(rep*100+ri)
			// A service may register further profiles while it is single-threaded
			// (start-up, reconfiguration). Do so before every round and run the
			// CONCURRENT pass first, so that whatever the library initialises
			// lazily on first use after a registration is initialised under
			// concurrency; the sequential reference run follows.
			roundNo++
			if err := psatoken.RegisterProfile(extprof.NumberedProfile{Name: fmt.Sprintf("http://example.com/c17/shard%d/round%d", c.Shard, roundNo), Base: 1 + roundNo%2}); err != nil {
				c.Violation("harness/c17-register", "could not register a fresh profile between rounds: "+err.Error(), nil)
				return
			}
			c.Count("registrations-between-rounds")
			// every shared object is only READ during the round: its reachable state
			// before and after the concurrent pass must be identical
			var before []string
			for _, x := range s.claims {
				before = append(before, mon.DeepDump(x))
			}
			for _, e := range s.ev {
				before = append(before, mon.DeepDump(e))
			}
			// concurrent run
			runtime.GOMAXPROCS(rc.procs)
			conc := make([][]c17Event, rc.G)
			var wg sync.WaitGroup
			gate := make(chan struct{})
			for gid := 0; gid < rc.G; gid++ {
				wg.Add(1)
				go func(gid int) {
					defer wg.Done()
					r := rand.New(rand.NewSource(seedBase + int64(gid)*7919))
					evs := make([]c17Event, 0, per)
					<-gate
					// first use of a freshly built object, by all goroutines at once
					if fresh := s.groups[gid%len(s.groups)]; gid%2 == 0 {
						_, _ = psatoken.EncodeClaimsToJSON(fresh)
					} else {
						_, _ = fresh.MarshalCBOR()
					}
					for i := 0; i < per; i++ {
						evs = append(evs, c17Op(s, r, gid, clock))
						if i%64 == 63 {
							runtime.Gosched()
						}
					}
					conc[gid] = evs
				}(gid)
			}
			close(gate)
			wg.Wait()
			runtime.GOMAXPROCS(prev)
			// one shared decoded Evidence verified by ALL goroutines at once, many
			// times: every result must be the one a lone caller gets
			{
				he, hk := s.ev[1], s.evKeys[1]
				wrong := s.evKeys[(1+1)%len(s.evKeys)]
				var odd crypto.PublicKey = "not a key"
				ref := [3]string{errStr(he.Verify(hk)), errStr(he.Verify(wrong)), errStr(he.Verify(odd))}
				runtime.GOMAXPROCS(rc.procs)
				var hw sync.WaitGroup
				hgate := make(chan struct{})
				diffs := make([]string, rc.G)
				for gid := 0; gid < rc.G; gid++ {
					hw.Add(1)
					go func(gid int) {
						defer hw.Done()
						<-hgate
						for i := 0; i < 120; i++ {
							which := (gid + i) % 3
							pk := []crypto.PublicKey{hk, wrong, odd}[which]
							if got := errStr(he.Verify(pk)); got != ref[which] && diffs[gid] == "" {
								diffs[gid] = fmt.Sprintf("Verify(key %d): alone %q, under concurrency %q", which, ref[which], got)
							}
						}
					}(gid)
				}
				close(hgate)
				hw.Wait()
				runtime.GOMAXPROCS(prev)
				c.Add("hammered-verify-calls", int64(rc.G*120))
				for _, d := range diffs {
					if d != "" {
						c.Violation("C17/result-differs-from-sequential/hammered-Evidence.Verify", "one shared decoded Evidence verified by all goroutines at once: "+d, map[string]any{"round": fmt.Sprintf("G=%d,GOMAXPROCS=%d", rc.G, rc.procs)})
						break
					}
				}
			}
			// SAME-BYTES DECODE STORM (seeded faults C17-u: byte-identical decodes in flight
			// at the same moment are coalesced and share one result; C17-v: a nesting
			// budget counted across all decodes in progress): all goroutines decode the
			// same large CBOR claims-set / COSE token / extension JSON document (with a
			// deeply nested unknown member) at once, each then writes its own mark into
			// "its" result and reads it back; every decode outcome must be the lone
			// caller's and all results of one step must be distinct objects.
			{
				big := g.Valid(2)
				big.HasComps, big.NoMeas, big.Comps = true, nil, nil
				for j := 0; j < 120; j++ {
					big.Comps = append(big.Comps, g.ValidComp())
				}
				bigWire := refcbor.Encode(big.WireCBOR())
				bigTok := sign1Bytes([]byte{0xa1, 0x01, 0x26}, nil, bigWire, make([]byte, 64))
				ext := g.Valid(2)
				ext.Canon, ext.Profile = extprof.ExtP2Name, model.SP(extprof.ExtP2Name)
				extDoc := string(ext.WireJSON())
				nested := strings.Repeat(`{"a":[`, 10) + "1" + strings.Repeat("]}", 10)
				extDoc = extDoc[:len(extDoc)-1] + `,"x-unknown":` + nested + `,"x-unknown-2":` + nested + `}`
				type stormIn struct {
					name string
					dec  func() (psatoken.IClaims, error)
				}
				ins := []stormIn{
					{"DecodeClaimsFromCBOR", func() (psatoken.IClaims, error) {
						return psatoken.DecodeClaimsFromCBOR(append([]byte{}, bigWire...))
					}},
					{"DecodeEvidenceFromCOSE", func() (psatoken.IClaims, error) {
						e, err := psatoken.DecodeEvidenceFromCOSE(append([]byte{}, bigTok...))
						if err != nil {
							return nil, err
						}
						return e.Claims, nil
					}},
					{"DecodeClaimsFromJSON(extension)", func() (psatoken.IClaims, error) { return psatoken.DecodeClaimsFromJSON([]byte(extDoc)) }},
				}
				const steps = 12
				for _, in := range ins {
					_, refErr := in.dec()
					ref := errStr(refErr)
					runtime.GOMAXPROCS(rc.procs)
					results := make([][]psatoken.IClaims, rc.G)
					diffs := make([]string, rc.G)
					var sw sync.WaitGroup
					var gates [steps]chan struct{}
					for i := range gates {
						gates[i] = make(chan struct{})
					}
					var arrived [steps]sync.WaitGroup
					for i := range arrived {
						arrived[i].Add(rc.G)
					}
					for gid := 0; gid < rc.G; gid++ {
						sw.Add(1)
						go func(gid int) {
							defer sw.Done()
							for i := 0; i < steps; i++ {
								arrived[i].Done()
								<-gates[i]
								x, err := in.dec()
								if got := errStr(err); got != ref && diffs[gid] == "" {
									diffs[gid] = fmt.Sprintf("alone %q, under concurrency %q", ref, got)
								}
								results[gid] = append(results[gid], x)
								if err == nil && x != nil {
									mark := int32(gid*1000 + i)
									_ = x.SetClientID(mark)
									runtime.Gosched()
									if got, gerr := x.GetClientID(); (gerr != nil || got != mark) && diffs[gid] == "" {
										diffs[gid] = fmt.Sprintf("a goroutine's own decode result was changed under it: client id set to %d, read back %d (%v)", mark, got, gerr)
									}
								}
							}
						}(gid)
					}
					for i := 0; i < steps; i++ {
						arrived[i].Wait()
						close(gates[i])
					}
					sw.Wait()
					runtime.GOMAXPROCS(prev)
					c.Add("same-bytes-storm-decodes", int64(rc.G*steps))
					rk := map[string]any{"round": fmt.Sprintf("G=%d,GOMAXPROCS=%d", rc.G, rc.procs), "entry": in.name}
					for _, d := range diffs {
						if d != "" {
							c.Violation("C17/result-differs-from-sequential/same-bytes-storm/"+in.name, "all goroutines decoding the same bytes at once: "+d, rk)
							break
						}
					}
				shared:
					for i := 0; i < steps; i++ {
						seen := map[psatoken.IClaims]int{}
						for gid := 0; gid < rc.G; gid++ {
							if i >= len(results[gid]) || results[gid][i] == nil {
								continue
							}
							if other, dup := seen[results[gid][i]]; dup {
								c.Violation("C17/distinct-decodes-share-one-result/"+in.name, fmt.Sprintf("goroutines %d and %d decoded the same bytes at the same time and were handed the SAME object", other, gid), rk)
								break shared
							}
							seen[results[gid][i]] = gid
						}
					}
				}
			}
			{
				var after []string
				var names []string
				for i, x := range s.claims {
					after = append(after, mon.DeepDump(x))
					names = append(names, s.cnames[i])
				}
				for i, e := range s.ev {
					after = append(after, mon.DeepDump(e))
					names = append(names, s.enames[i])
				}
				for i := range after {
					c.Count("shared-object-snapshots-compared")
					if i < len(before) && after[i] != before[i] {
						c.Violation("C17/shared-object-changed-by-reading/"+strings.SplitN(names[i], ":", 3)[0], "a shared object that was only read / encoded / verified / signed-from during the concurrent pass has changed: "+names[i], map[string]any{"object": names[i], "diff": firstDiff(before[i], after[i])})
					}
				}
			}
			for gi, fresh := range s.groups {
				c.Count("fresh-objects-first-serialised-concurrently")
				if fresh.VendorGroup != nil {
					c.Violation("C17/shared-object-changed-by-reading/extension-with-pointer-embedded-group", "a shared claims-set was only read / serialised during the round, yet its absent (nil) embedded claim group is now allocated", map[string]any{"object": gi})
				}
			}
			// sequential reference (same seeds)
			seq := make([][]c17Event, rc.G)
			for gid := 0; gid < rc.G; gid++ {
				r := rand.New(rand.NewSource(seedBase + int64(gid)*7919))
				for i := 0; i < per; i++ {
					seq[gid] = append(seq[gid], c17Op(s, r, gid, clock))
				}
			}
			// compare
			cfgName := fmt.Sprintf("G=%d,GOMAXPROCS=%d", rc.G, rc.procs)
			byObj := map[int][]c17Event{}
			for gid := 0; gid < rc.G; gid++ {
				for i := range conc[gid] {
					a, b := seq[gid][i], conc[gid][i]
					c.Eval()
					c.Count("ops:" + b.kind)
					c.Sig(cfgName + "|" + b.kind + "|" + fmt.Sprint(b.obj))
					if b.panicked != "" || a.panicked != "" {
						c.Violation("C17/panic/"+b.kind, "panic in a concurrently executed operation: "+b.panicked+a.panicked, map[string]any{"round": cfgName, "goroutine": gid, "index": i})
						continue
					}
					if a.kind != b.kind || a.digest != b.digest {
						c.Violation("C17/result-differs-from-sequential/"+b.kind, fmt.Sprintf("operation %d of goroutine %d (%s) gave another result concurrently than sequentially", i, gid, b.kind),
							map[string]any{"round": cfgName, "sequential": trunc(a.digest, 600), "concurrent": trunc(b.digest, 600), "seed_base": seedBase})
					}
					if b.obj >= 0 {
						byObj[b.obj] = append(byObj[b.obj], b)
					}
				}
			}
			// overlaps on the same shared object
			overlaps := int64(0)
			for _, evs := range byObj {
				sort.Slice(evs, func(i, j int) bool { return evs[i].t0 < evs[j].t0 })
				for i := range evs {
					for j := i + 1; j < len(evs) && evs[j].t0 < evs[i].t1; j++ {
						if evs[i].g != evs[j].g {
							overlaps++
							a, b := evs[i].kind, evs[j].kind
							if a > b {
								a, b = b, a
							}
							c.SetAdd("overlapping_operation_pairs_on_one_shared_object", a+" || "+b)
						}
					}
				}
			}
			c.Add("overlapping-pairs-on-shared-objects", overlaps)
			c.Add("overlaps:"+cfgName, overlaps)
			c.Count("rounds")
			totalOverlap += overlaps
			if overlaps == 0 {
				c.Inconclusive("round " + cfgName + " produced no overlapping operations on a shared object")
			}
		}
	}
	c.Extra("shared_objects", "6 claims-sets (P1/P2/extension; setters/direct/decoded; one invalid) + 4 Evidence (2 self-signed, 2 decoded) per round")
	c.Floor("rounds", 9)
	c.Floor("overlapping-pairs-on-shared-objects", 100)
	if c.Shard == 0 {
		c.Sample("round", map[string]any{"rounds": len(rounds) * reps, "ops_per_round": opsPerRound, "overlapping_pairs_this_shard": totalOverlap})
	}
}

func trunc(s string, n int) string {
	if len(s) > n {
		return s[:n] + "..."
	}
	return s
}

func errStr(err error) string {
	if err == nil {
		return "<nil>"
	}
	return err.Error()
}
