package props

import (
	"fmt"

	"github.com/veraison/psatoken"

	"verif/harness/extprof"
	"verif/harness/model"
	"verif/harness/mon"
	"verif/harness/obs"
	"verif/harness/refcbor"
)

func init() { register("C14", runC14) }

// C14: all 65 536 lifecycle values through the state mapping, the validator,
// both profiles' setters and getters, and getter/Validate on a decoded claim.
func runC14(c *mon.Ctx) {
	c.Rule("exhaustive: every uint16 lifecycle value v through LifeCycleToState, IsValid, String, the exported state type itself (LifeCycleState(v).String / IsValid for every v), a by-value struct copy taken before a second Set, ValidateSecurityLifeCycle, P1/P2 setter+getter on a fresh object (also on the two extension types embedding them under another canonical name and on struct literals without canonical name) and on objects that already hold the same / a neighbouring / a valid value, and getter+Validate of a CBOR-decoded and of a JSON-decoded token carrying v; for each v also the numbers v+2^16, v+0xffff*2^16 and v+2^32 (no state at all) in CBOR and JSON tokens, which must never be accepted nor reported by the getter; distinct = distinct (value) cases, non-trivial = all (each value exercises 10 calls)")
	c.Exhaustive(true)
	c.Floor("values", 65536)
	g := model.NewGen(c.Seed)
	base := map[int]*model.Claims{1: g.Base(1), 2: g.Base(2)}
	names := map[string]bool{}
	for v := 0; v < 65536; v++ {
		if !c.Mine(v) {
			continue
		}
		u := uint16(v)
		want := model.LifecycleState(u)
		c.Count("values")
		c.Sig(fmt.Sprint("v", v))
		bad := func(what string, got any) {
			c.Violation("C14/"+what, fmt.Sprintf("lifecycle value 0x%04x: %s = %v, specified state %d", u, what, got, want),
				map[string]any{"value": v, "what": what, "got": fmt.Sprint(got), "want_state": want})
		}
		panicked, pv, fr := mon.Guard(func() {
			st := psatoken.LifeCycleToState(u)
			c.Eval()
			wantSt := want
			if want < 0 {
				wantSt = 7
			}
			if int(st) != wantSt {
				bad("LifeCycleToState", st)
			}
			if st.IsValid() != (want >= 0) {
				bad("IsValid", st.IsValid())
			}
			wantName := "invalid"
			if want >= 0 {
				wantName = model.LifecycleNames[want]
			}
			if st.String() != wantName {
				bad("String", st.String())
			}
			names[st.String()] = true
			err := psatoken.ValidateSecurityLifeCycle(u)
			c.Eval()
			if (err == nil) != (want >= 0) {
				bad("ValidateSecurityLifeCycle", err)
			} else if err != nil && obs.ClassOf(err) != model.WrongSyntax {
				bad("ValidateSecurityLifeCycle-class", err)
			}
			// the exported state type is total as well: every value of LifeCycleState
			// (not only those LifeCycleToState returns) has a name and a validity
			{
				ls := psatoken.LifeCycleState(u)
				nm, iv := ls.String(), ls.IsValid()
				c.Eval()
				wantValid := v <= 6
				wn := "invalid"
				if wantValid {
					wn = model.LifecycleNames[v]
				}
				if nm != wn || iv != wantValid {
					bad("LifeCycleState(v).String/IsValid", fmt.Sprint(nm, iv))
				}
			}
			// a by-value COPY of a claims struct (a snapshot, a template) keeps its
			// value when the original is given another valid value afterwards
			if want >= 0 {
				other := uint16(0x3000)
				if u == other {
					other = 0x2000
				}
				for p := 1; p <= 2; p++ {
					o, _ := psatoken.NewClaims(map[int]string{1: model.P1Name, 2: model.P2Name}[p])
					if o.SetSecurityLifeCycle(u) != nil {
						continue
					}
					var snap psatoken.IClaims
					if q := obs.P1Of(o); q != nil {
						cp := *q
						snap = &cp
					} else if q := obs.P2Of(o); q != nil {
						cp := *q
						snap = &cp
					}
					_ = o.SetSecurityLifeCycle(other)
					c.Eval()
					if got, gerr := snap.GetSecurityLifeCycle(); gerr != nil || got != u {
						bad(fmt.Sprintf("P%d.struct-copy-changed-by-later-Set", p), fmt.Sprint(got, gerr))
					}
					if got, gerr := o.GetSecurityLifeCycle(); gerr != nil || got != other {
						bad(fmt.Sprintf("P%d.Get-after-second-Set", p), fmt.Sprint(got, gerr))
					}
				}
			}
			// claims types that EMBED the base implementations under another canonical
			// name (extension profiles) or under none (struct literals) share the rule
			for xi, x := range []psatoken.IClaims{extprof.NewExtP1Claims(), extprof.NewExtP2Claims(), &psatoken.P1Claims{}, &psatoken.P2Claims{}} {
				tag := []string{"ExtP1", "ExtP2", "P1-literal", "P2-literal"}[xi]
				serr := x.SetSecurityLifeCycle(u)
				c.Eval()
				if (serr == nil) != (want >= 0) {
					bad(tag+".SetSecurityLifeCycle", serr)
				}
				obs.SetNumField(x, "SecurityLifeCycle", int64(u))
				got, gerr := x.GetSecurityLifeCycle()
				if want >= 0 {
					if gerr != nil || got != u {
						bad(tag+".Get-of-assigned-value", fmt.Sprint(got, gerr))
					}
				} else if obs.ClassOf(gerr) != model.WrongSyntax {
					bad(tag+".Get-of-assigned-invalid-value", fmt.Sprint(got, gerr))
				}
			}
			for p := 1; p <= 2; p++ {
				name := model.P1Name
				if p == 2 {
					name = model.P2Name
				}
				cl, _ := psatoken.NewClaims(name)
				serr := cl.SetSecurityLifeCycle(u)
				c.Eval()
				if (serr == nil) != (want >= 0) {
					bad(fmt.Sprintf("P%d.SetSecurityLifeCycle", p), serr)
				}
				got, gerr := cl.GetSecurityLifeCycle()
				c.Eval()
				if want >= 0 {
					if gerr != nil || got != u {
						bad(fmt.Sprintf("P%d.Get-after-Set", p), fmt.Sprint(got, gerr))
					}
				} else if obs.ClassOf(gerr) != model.MissingMandatory {
					bad(fmt.Sprintf("P%d.Get-after-failed-Set", p), fmt.Sprint(got, gerr))
				}
				// the setter on an object that ALREADY holds a value (the same one, or
				// another one, valid or not - put there by decoding or by direct field
				// assignment) must judge the new value exactly as on a fresh object
				for _, pre := range []uint16{u, u ^ 0x0100, 0x3000} {
					pre := pre
					o, _ := psatoken.NewClaims(name)
					obs.SetNumField(o, "SecurityLifeCycle", int64(pre))
					serr := o.SetSecurityLifeCycle(u)
					c.Eval()
					if (serr == nil) != (want >= 0) {
						bad(fmt.Sprintf("P%d.SetSecurityLifeCycle-on-preloaded-object", p), fmt.Sprintf("preloaded 0x%04x: %v", pre, serr))
					}
					got, gerr := o.GetSecurityLifeCycle()
					if want >= 0 && (gerr != nil || got != u) {
						bad(fmt.Sprintf("P%d.Get-after-Set-on-preloaded-object", p), fmt.Sprint(got, gerr))
					}
					if want < 0 && serr != nil && pre != u {
						// a refused value must leave the previous one in place
						if held, ok := obs.NumField(o, "SecurityLifeCycle"); !ok || held != int64(pre) {
							bad(fmt.Sprintf("P%d.failed-Set-changed-preloaded-value", p), "changed")
						}
					}
				}
				// two objects that were given the same value must not share its storage:
				// overwrite it in one (as decoding into that object would), read the other
				if want >= 0 {
					o1, _ := psatoken.NewClaims(name)
					o2, _ := psatoken.NewClaims(name)
					_ = o1.SetSecurityLifeCycle(u)
					_ = o2.SetSecurityLifeCycle(u)
					if q := obs.P1Of(o1); q != nil && q.SecurityLifeCycle != nil {
						*q.SecurityLifeCycle = 0xffff
					} else if q := obs.P2Of(o1); q != nil && q.SecurityLifeCycle != nil {
						*q.SecurityLifeCycle = 0xffff
					}
					if got, gerr := o2.GetSecurityLifeCycle(); gerr != nil || got != u {
						bad(fmt.Sprintf("P%d.value-shared-between-objects", p), fmt.Sprint(got, gerr))
					}
					o3, _ := psatoken.NewClaims(name)
					if serr := o3.SetSecurityLifeCycle(u); serr != nil {
						bad(fmt.Sprintf("P%d.Set-after-other-object-was-overwritten", p), serr)
					} else if got, gerr := o3.GetSecurityLifeCycle(); gerr != nil || got != u {
						bad(fmt.Sprintf("P%d.Get-after-other-object-was-overwritten", p), fmt.Sprint(got, gerr))
					}
					c.Eval()
				}
				// decoded token carrying the value
				a := base[p].Clone()
				a.Lifecycle = &u
				wire := refcbor.Encode(a.WireCBOR())
				dc, derr := psatoken.DecodeClaimsFromCBOR(wire)
				c.Eval()
				if derr != nil {
					bad(fmt.Sprintf("P%d.Decode", p), derr)
					continue
				}
				got, gerr = dc.GetSecurityLifeCycle()
				verr := dc.Validate()
				c.Eval()
				if want >= 0 {
					if gerr != nil || got != u || verr != nil {
						bad(fmt.Sprintf("P%d.decoded-valid", p), fmt.Sprint(got, gerr, verr))
					}
				} else if obs.ClassOf(gerr) != model.WrongSyntax || obs.ClassOf(verr) != model.WrongSyntax {
					bad(fmt.Sprintf("P%d.decoded-invalid", p), fmt.Sprint(got, gerr, verr))
				}
				// the same through JSON
				ms := a.JSONMembers()
				jdc, jerr := psatoken.DecodeClaimsFromJSON(model.MembersJSON(ms))
				c.Eval()
				if jerr != nil {
					bad(fmt.Sprintf("P%d.DecodeJSON", p), jerr)
				} else {
					jgot, jgerr := jdc.GetSecurityLifeCycle()
					jverr := jdc.Validate()
					if want >= 0 {
						if jgerr != nil || jgot != u || jverr != nil {
							bad(fmt.Sprintf("P%d.json-decoded-valid", p), fmt.Sprint(jgot, jgerr, jverr))
						}
					} else if obs.ClassOf(jgerr) != model.WrongSyntax || obs.ClassOf(jverr) != model.WrongSyntax {
						bad(fmt.Sprintf("P%d.json-decoded-invalid", p), fmt.Sprint(jgot, jgerr, jverr))
					}
				}
				// numbers WIDER than 16 bits whose low 16 bits are v have no state at
				// all: a token carrying one (CBOR or JSON) must never be accepted, and if
				// the non-validating decoder lets it through the getter must refuse it
				for _, k := range []uint64{1, 0xffff, 1 << 16} {
					wide := uint64(u) + k<<16
					c.Count("wider-than-16-bit-values")
					w := a.WireCBOR()
					for j := 0; j+1 < len(w.Items); j += 2 {
						if kk, _ := w.Items[j].Int64(); kk == model.KeyOf(p, "lifecycle") {
							w.Items[j+1] = refcbor.U(wide)
						}
					}
					wms := append([]model.Member{}, ms...)
					for j := range wms {
						if wms[j].Name == "psa-security-lifecycle" {
							wms[j].Value = fmt.Sprint(wide)
						}
					}
					for _, fam := range []string{"cbor", "json"} {
						var x, xv psatoken.IClaims
						var e1, e2 error
						if fam == "cbor" {
							in := refcbor.Encode(w)
							x, e1 = psatoken.DecodeClaimsFromCBOR(in)
							xv, e2 = psatoken.DecodeAndValidateClaimsFromCBOR(in)
						} else {
							in := model.MembersJSON(wms)
							x, e1 = psatoken.DecodeClaimsFromJSON(in)
							xv, e2 = psatoken.DecodeAndValidateClaimsFromJSON(in)
						}
						c.Eval()
						if e2 == nil {
							st, _ := xv.GetSecurityLifeCycle()
							bad(fmt.Sprintf("P%d.%s-accepted-wider-than-16-bits", p, fam), fmt.Sprintf("life cycle %d (0x%x) accepted, reported as 0x%04x", wide, wide, st))
						} else if e1 == nil {
							if st, ge := x.GetSecurityLifeCycle(); ge == nil {
								bad(fmt.Sprintf("P%d.%s-getter-accepts-wider-than-16-bits", p, fam), fmt.Sprintf("life cycle %d (0x%x): getter returns 0x%04x", wide, wide, st))
							}
						}
					}
				}
			}
		})
		if panicked {
			c.Violation("C14/panic/"+mon.PanicKey(fr), "panic on lifecycle value", map[string]any{"value": v, "panic": pv, "frame": fr})
		}
		if v%8192 == 255 || v == 0x3000 {
			c.Sample("value", map[string]any{"value": fmt.Sprintf("0x%04x", u), "state": psatoken.LifeCycleToState(u).String(), "valid": want >= 0})
		}
	}
	for n := range names {
		c.SetAdd("state_names_seen", n)
	}
}
