package props

import (
	"bytes"
	"fmt"
	"strings"

	"github.com/veraison/psatoken"

	"verif/harness/extprof"
	"verif/harness/model"
	"verif/harness/mon"
	"verif/harness/obs"
	"verif/harness/refcbor"
)

func init() { register("C11", runC11) }

// setOp is one setter call: how to perform it on the real object, whether the
// reference predicate accepts the value, and how it updates the abstract
// last-successful-write-wins model.
type setOp struct {
	setter string
	class  string
	accept bool
	exempt bool // the "clear" operation: exempt from the iff clause
	call   func(cl psatoken.IClaims) error
	apply  func(a *model.Claims)
}

// c11Pool, when non-nil, makes the byte-string operations of the current history
// draw their arguments from a pool of slices that are passed to the library as
// they are (shared backing arrays between calls).
var c11Pool *[][]byte

func genSetOp(g *model.Gen, p int, forceValid bool) setOp {
	bytesOp := func(setter string, okf func(n int) bool, call func(cl psatoken.IClaims, b []byte) error, apply func(a *model.Claims, b []byte), mk func(n int) []byte) setOp {
		lens := model.SweepLens()
		n := lens[g.R.Intn(len(lens))]
		if forceValid || g.R.Intn(2) == 0 {
			for !okf(n) {
				n = g.R.Intn(81)
			}
		}
		b := mk(n)
		if c11Pool != nil {
			// seeded fault C11-u: the caller passes the SAME slice (same backing array)
			// to several setters / several times; the harness never writes to it, so
			// the claims must keep holding what they were given
			if e := (*c11Pool); len(e) > 0 && g.R.Intn(2) == 0 && (!forceValid || okf(len(e[len(e)-1]))) &&
				!(setter == "SetInstID" && len(e[len(e)-1]) == 33 && e[len(e)-1][0] != 1) {
				b = e[len(e)-1]
				n = len(b)
				// most recently used slice first, a random older one otherwise
				if k := g.R.Intn(len(e)); g.R.Intn(2) == 0 && (!forceValid || okf(len(e[k]))) && !(setter == "SetInstID" && len(e[k]) == 33 && e[k][0] != 1) {
					b, n = e[k], len(e[k])
				}
			} else {
				*c11Pool = append(*c11Pool, b)
			}
			want := append([]byte{}, b...)
			return setOp{setter: setter, class: fmt.Sprintf("len%d", n), accept: okf(n),
				call:  func(cl psatoken.IClaims) error { return call(cl, b) },
				apply: func(a *model.Claims) { apply(a, append([]byte{}, want...)) }}
		}
		return setOp{setter: setter, class: fmt.Sprintf("len%d", n), accept: okf(n),
			call:  func(cl psatoken.IClaims) error { return call(cl, append([]byte{}, b...)) },
			apply: func(a *model.Claims) { apply(a, b) }}
	}
	k := g.R.Intn(9)
	switch k {
	case 0:
		v := g.ClientID()
		return setOp{setter: "SetClientID", class: "any", accept: true,
			call:  func(cl psatoken.IClaims) error { return cl.SetClientID(v) },
			apply: func(a *model.Claims) { x := v; a.ClientID = &x }}
	case 1:
		v := uint16(g.R.Intn(65536))
		if forceValid || g.R.Intn(2) == 0 {
			v = g.Lifecycle()
		}
		return setOp{setter: "SetSecurityLifeCycle", class: fmt.Sprintf("state%d", model.LifecycleState(v)), accept: model.LifecycleState(v) >= 0,
			call:  func(cl psatoken.IClaims) error { return cl.SetSecurityLifeCycle(v) },
			apply: func(a *model.Claims) { x := v; a.Lifecycle = &x }}
	case 2:
		return bytesOp("SetImplID", func(n int) bool { return n == 32 },
			func(cl psatoken.IClaims, b []byte) error { return cl.SetImplID(b) },
			func(a *model.Claims, b []byte) { a.ImplID = &b }, g.Bytes)
	case 3:
		return bytesOp("SetBootSeed", func(n int) bool { return model.BootSeedOK(p, n) },
			func(cl psatoken.IClaims, b []byte) error { return cl.SetBootSeed(b) },
			func(a *model.Claims, b []byte) { a.BootSeed = &b }, g.Bytes)
	case 4:
		return bytesOp("SetNonce", func(n int) bool { return n == 32 || n == 48 || n == 64 },
			func(cl psatoken.IClaims, b []byte) error { return cl.SetNonce(b) },
			func(a *model.Claims, b []byte) { a.HasNonce, a.Nonces = true, [][]byte{b} }, g.Bytes)
	case 5:
		if !forceValid && g.R.Intn(6) == 0 {
			b := g.Bytes(33)
			for b[0] == 1 {
				b[0] = byte(g.R.Intn(256))
			}
			return setOp{setter: "SetInstID", class: "bad-type", accept: false,
				call:  func(cl psatoken.IClaims) error { return cl.SetInstID(append([]byte{}, b...)) },
				apply: func(a *model.Claims) {}}
		}
		return bytesOp("SetInstID", func(n int) bool { return n == 33 },
			func(cl psatoken.IClaims, b []byte) error { return cl.SetInstID(b) },
			func(a *model.Claims, b []byte) { a.InstID = &b },
			func(n int) []byte {
				b := g.Bytes(n)
				if n > 0 {
					b[0] = 1
				}
				return b
			})
	case 6:
		var s, class string
		switch r := g.R.Intn(8); {
		case forceValid || r <= 1:
			s, class = g.Digits(13)+"-"+g.Digits(5), "ean13+5"
		case r == 2 || r == 3:
			s, class = g.Digits(13), "ean13"
		case r == 4:
			ns := model.CertRefNeighbours(g.Digits(13) + "-" + g.Digits(5))
			s, class = ns[g.R.Intn(len(ns))], "neighbour13+5"
		case r == 5:
			ns := model.CertRefNeighbours(g.Digits(13))
			s, class = ns[g.R.Intn(len(ns))], "neighbour13"
		case r == 6:
			s, class = "", "empty"
		default:
			s, class = g.Text(), "text"
		}
		return setOp{setter: "SetCertificationReference", class: class, accept: model.CertRefOK(p, s),
			call:  func(cl psatoken.IClaims) error { return cl.SetCertificationReference(s) },
			apply: func(a *model.Claims) { x := s; a.CertRef = &x }}
	case 7:
		s := g.Text()
		if forceValid {
			s = g.NonEmptyText()
		}
		class := "text"
		if s == "" {
			class = "empty"
		}
		return setOp{setter: "SetVSI", class: class, accept: s != "",
			call:  func(cl psatoken.IClaims) error { return cl.SetVSI(s) },
			apply: func(a *model.Claims) { x := s; a.VSI = &x }}
	default:
		r := g.R.Intn(10)
		switch {
		case !forceValid && r == 0: // nil list
			if p == 1 {
				return setOp{setter: "SetSoftwareComponents", class: "nil-flag", accept: true,
					call: func(cl psatoken.IClaims) error { return cl.SetSoftwareComponents(nil) },
					apply: func(a *model.Claims) {
						one := uint64(1)
						a.NoMeas, a.HasComps, a.Comps = &one, false, nil
					}}
			}
			return setOp{setter: "SetSoftwareComponents", class: "nil-clear", accept: true, exempt: true,
				call:  func(cl psatoken.IClaims) error { return cl.SetSoftwareComponents(nil) },
				apply: func(a *model.Claims) { a.HasComps, a.Comps = true, nil }}
		case !forceValid && r == 1: // empty non-nil list: clear
			return setOp{setter: "SetSoftwareComponents", class: "empty-clear", accept: true, exempt: true,
				call:  func(cl psatoken.IClaims) error { return cl.SetSoftwareComponents([]psatoken.ISwComponent{}) },
				apply: func(a *model.Claims) { a.HasComps, a.Comps, a.NoMeas = true, nil, nil }}
		}
		n := 1 + g.R.Intn(4)
		var comps []model.Comp
		valid := true
		for i := 0; i < n; i++ {
			code := [5]int{g.R.Intn(2), 1, g.R.Intn(2), 1, g.R.Intn(2)}
			if !forceValid && g.R.Intn(5) == 0 {
				code[1], code[3] = g.R.Intn(3), g.R.Intn(3)
			}
			cp := g.CompFromCode(code)
			if _, v := model.CompExpect(&cp); v != model.OK {
				valid = false
			}
			comps = append(comps, cp)
		}
		class := fmt.Sprintf("valid%d", n)
		if !valid {
			class = fmt.Sprintf("invalid%d", n)
		}
		return setOp{setter: "SetSoftwareComponents", class: class, accept: valid,
			call: func(cl psatoken.IClaims) error {
				var scs []psatoken.ISwComponent
				for i := range comps {
					scs = append(scs, obs.RealComp(&comps[i]))
				}
				return cl.SetSoftwareComponents(scs)
			},
			apply: func(a *model.Claims) { a.HasComps, a.Comps, a.NoMeas = true, comps, nil }}
	}
}

type encSnap struct {
	cbor, json       []byte
	cborErr, jsonErr bool
}

func snapEnc(cl psatoken.IClaims) encSnap {
	var s encSnap
	b, err := psatoken.EncodeClaimsToCBOR(cl)
	s.cbor, s.cborErr = b, err != nil
	j, err := psatoken.EncodeClaimsToJSON(cl)
	s.json, s.jsonErr = j, err != nil
	return s
}

func (s encSnap) equal(t encSnap) bool {
	return s.cborErr == t.cborErr && s.jsonErr == t.jsonErr && bytes.Equal(s.cbor, t.cbor) && bytes.Equal(s.json, t.json)
}

func freshAbstract(p int, canon string) *model.Claims {
	a := &model.Claims{P: p, Canon: canon}
	a.Profile = model.SP(a.Canon)
	return a
}

// c11Canon picks the implementation a history runs on: the base profile or
// the registered extension profile embedding it (same setters, same rules).
func c11Canon(g *model.Gen, p int) string {
	ext := g.R.Intn(3) == 0
	switch {
	case p == 1 && ext:
		return extprof.ExtP1Name
	case p == 1:
		return model.P1Name
	case ext:
		return extprof.ExtP2Name
	}
	return model.P2Name
}

// c11Literal is a claims object as a caller writing a struct literal gets it:
// only the canonical name set, every claim (and the component container) nil.
func c11Literal(p int, canon string) psatoken.IClaims {
	switch canon {
	case extprof.ExtP1Name:
		return &extprof.ExtP1Claims{P1Claims: psatoken.P1Claims{CanonicalProfile: canon}}
	case extprof.ExtP2Name:
		return &extprof.ExtP2Claims{P2Claims: psatoken.P2Claims{CanonicalProfile: canon}}
	}
	if p == 1 {
		return &psatoken.P1Claims{CanonicalProfile: canon}
	}
	return &psatoken.P2Claims{CanonicalProfile: canon}
}

func diagOr(n *refcbor.Node) string {
	if n == nil {
		return "<unreadable>"
	}
	return trunc(n.Diag(), 300)
}

func runC11(c *mon.Ctx) {
	c.Rule("histories = random sequences of 1..40 setter calls (all 9 setters of both profiles, values drawn from the C01 classes incl. every byte length 0..80 and lengths congruent to the legal ones modulo 2^8 / 2^16, valid and invalid interleaved, repeats) on a NewClaims object (or, one history in five, a zero-value struct literal without container) of either base profile or (a third of the histories) of the registered extension profile embedding it; after EVERY call the full observation (Validate + 10 getters + component getters) is compared with a last-successful-write-wins model, a refused call must also leave both encodings byte-identical, the setter must accept iff the reference predicate accepts; at the end the same final values are replayed once each in shuffled order on a fresh object and both encodings must be byte-identical. Also histories of 1..12 calls of the software component's own five setters on one component (every field compared with the model after every call) and histories of Add / Replace calls on the component container itself (valid and invalid lists; all-or-nothing, content compared through its CBOR form). Also setters called with an invalid value that the object already holds (assigned directly): refused all the same. Also single calls: every setter x every length 0..80 (and the congruent lengths). In a third of the histories (half of the component histories) the byte-string arguments are passed to the library as they are and drawn from a pool of slices shared between calls (the same backing array given to several setters / several times; the harness never writes to them). distinct_nontrivial = distinct (profile, setter, value-class, accepted?) + distinct history signatures")
	g := model.NewGen(c.Seed*7001 + int64(c.Shard))
	nh := c.N(30000, 1500000)
	if err := extprof.Register(extprof.ExtP2Name, extprof.ExtP1Name); err != nil {
		c.Violation("harness/register", err.Error(), nil)
		return
	}
	for h := 0; h < nh; h++ {
		p := 1 + g.R.Intn(2)
		length := 1 + g.R.Intn(40)
		canon := c11Canon(g, p)
		c.Count("histories-on:" + canon)
		// one history in five starts from a zero-value struct literal (no
		// profile claim, no component container) instead of NewClaims
		literal := g.R.Intn(5) == 0
		var cl psatoken.IClaims
		var a *model.Claims
		if literal {
			c.Count("histories-from-struct-literal")
			cl, a = c11Literal(p, canon), &model.Claims{P: p, Canon: canon}
		} else {
			var err error
			cl, err = psatoken.NewClaims(canon)
			if err != nil {
				c.Violation("C11/NewClaims", "NewClaims failed: "+err.Error(), nil)
				return
			}
			a = freshAbstract(p, canon)
		}
		var trace []string
		var finals = map[string]setOp{}
		c11Pool = nil
		if g.R.Intn(3) == 0 {
			c.Count("histories-with-shared-argument-slices")
			c11Pool = &[][]byte{}
		}
		hsig := fmt.Sprintf("P%d", p)
		failed := false
		// bias: some histories are all-valid so that complete sets are common
		allValid := g.R.Intn(3) == 0
		for i := 0; i < length && !failed; i++ {
			op := genSetOp(g, p, allValid)
			before := snapEnc(cl)
			var serr error
			if pn, pv, fr := mon.Guard(func() { serr = op.call(cl) }); pn {
				c.Violation("C11/panic/"+mon.PanicKey(fr), "panic in setter", map[string]any{"panic": pv, "frame": fr, "trace": trace, "op": op.setter + "/" + op.class})
				failed = true
				break
			}
			c.Eval()
			c.Count("setter-calls")
			trace = append(trace, fmt.Sprintf("%s(%s)->%v", op.setter, op.class, serr == nil))
			c.Sig(fmt.Sprintf("P%d|%s|%s|%v", p, op.setter, op.class, serr == nil))
			if len(trace) <= 6 {
				hsig += "|" + op.setter[3:6] + op.class
			}
			key := fmt.Sprintf("C11/P%d/%s", p, op.setter)
			det := map[string]any{"trace": append([]string{}, trace...), "profile": p}
			if serr == nil && !op.accept && !op.exempt {
				c.Violation(key+"/accepted-invalid:"+op.class, fmt.Sprintf("P%d %s accepted a value (%s) that the profile's validation rejects", p, op.setter, op.class), det)
				failed = true
				break
			}
			if serr != nil && op.accept {
				c.Violation(key+"/refused-valid:"+op.class, fmt.Sprintf("P%d %s refused a value (%s) that validation accepts: %v", p, op.setter, op.class, serr), det)
				failed = true
				break
			}
			if serr == nil {
				c.Count("accepted")
				op.apply(a)
				finals[op.setter] = op
			} else {
				c.Count("refused")
				if after := snapEnc(cl); !before.equal(after) {
					c.Violation(key+"/changed-after-failure:encoding", fmt.Sprintf("P%d %s failed but the encoding of the claims-set changed", p, op.setter), det)
					failed = true
					break
				}
			}
			want := a.Expect()
			got := obs.Observe(cl)
			if d := model.ObsDiff(&want, &got); d != "" {
				kind := "state-after-success"
				if serr != nil {
					kind = "changed-after-failure"
				}
				det["want"], det["got"] = want.String(), got.String()
				c.Violation(key+"/"+kind+":"+obsKey(&want, &got), fmt.Sprintf("P%d after %s(%s): %s", p, op.setter, op.class, d), det)
				failed = true
				break
			}
			if want.Validate == model.OK {
				c.Count("complete-valid-states")
			}
		}
		if failed {
			continue
		}
		c.Sig(hsig)
		c.Count("histories")
		if h < 2 {
			c.Sample("history", map[string]any{"profile": p, "trace": trace, "final": a.Expect().String()})
		}
		// order / repetition independence of the encoding
		b, _ := psatoken.NewClaims(canon)
		if literal {
			b = c11Literal(p, canon)
		}
		var names []string
		for n := range finals {
			names = append(names, n)
		}
		// deterministic base order, then shuffle with the seeded PRNG
		for i := 0; i < len(names); i++ {
			for j := i + 1; j < len(names); j++ {
				if names[j] < names[i] {
					names[i], names[j] = names[j], names[i]
				}
			}
		}
		g.R.Shuffle(len(names), func(i, j int) { names[i], names[j] = names[j], names[i] })
		replayOK := true
		for _, n := range names {
			if err := finals[n].call(b); err != nil {
				replayOK = false
			}
		}
		c.Eval()
		if !replayOK {
			c.Violation(fmt.Sprintf("C11/P%d/replay-refused", p), "a value accepted during the history was refused on a fresh object", map[string]any{"trace": trace})
			continue
		}
		ea, eb := snapEnc(cl), snapEnc(b)
		if !ea.equal(eb) {
			c.Violation(fmt.Sprintf("C11/P%d/encoding-order-dependent", p), fmt.Sprintf("P%d: the encoding after the history differs from the encoding of the same final values set once each (order %v)", p, names),
				map[string]any{"trace": trace, "order": names, "cbor_history": mon.Hex(ea.cbor), "cbor_fresh": mon.Hex(eb.cbor), "json_history": string(ea.json), "json_fresh": string(eb.json)})
		}
		c.Count("order-independence-checks")
	}
	// ---- the software component's own setters: histories on ONE component
	for h := 0; h < c.N(20000, 600000); h++ {
		sc := &psatoken.SwComponent{}
		var m model.Comp
		var trace []string
		var pool [][]byte // slices handed to both hash setters as they are (every other history)
		sharing := g.R.Intn(2) == 0
		arg := func(v []byte) []byte {
			if !sharing {
				return append([]byte{}, v...)
			}
			pool = append(pool, v)
			return v
		}
		pick := func(v []byte) []byte {
			if sharing && len(pool) > 0 && g.R.Intn(2) == 0 {
				return pool[g.R.Intn(len(pool))]
			}
			return v
		}
		for i, l := 0, 1+g.R.Intn(12); i < l; i++ {
			var name string
			var serr error
			accept := true
			var apply func()
			switch g.R.Intn(5) {
			case 0:
				v := g.Text()
				name, serr, apply = "SetMeasurementType", sc.SetMeasurementType(v), func() { m.MType = model.SP(v) }
			case 1:
				v := g.Text()
				name, serr, apply = "SetVersion", sc.SetVersion(v), func() { m.Version = model.SP(v) }
			case 2:
				v := g.Text()
				name, serr, apply = "SetMeasurementDesc", sc.SetMeasurementDesc(v), func() { m.Desc = model.SP(v) }
			case 3:
				lens := model.SweepLens()
				n := lens[g.R.Intn(len(lens))]
				if g.R.Intn(2) == 0 {
					n = g.HashLen()
				}
				v := pick(g.Bytes(n))
				n = len(v)
				keep := append([]byte{}, v...)
				accept = n == 32 || n == 48 || n == 64
				name, serr, apply = fmt.Sprintf("SetMeasurementValue(len%d)", n), sc.SetMeasurementValue(arg(v)), func() { m.MVal = model.BP(keep) }
			default:
				lens := model.SweepLens()
				n := lens[g.R.Intn(len(lens))]
				if g.R.Intn(2) == 0 {
					n = g.HashLen()
				}
				v := pick(g.Bytes(n))
				n = len(v)
				keep := append([]byte{}, v...)
				accept = n == 32 || n == 48 || n == 64
				name, serr, apply = fmt.Sprintf("SetSignerID(len%d)", n), sc.SetSignerID(arg(v)), func() { m.Signer = model.BP(keep) }
			}
			c.Eval()
			c.Count("component-setter-calls")
			trace = append(trace, fmt.Sprintf("%s->%v", name, serr == nil))
			base := strings.SplitN(name, "(", 2)[0]
			if (serr == nil) != accept {
				c.Violation("C11/component/"+base+"/accept-mismatch", fmt.Sprintf("%s returned %v, validation accepts=%v", name, serr, accept), map[string]any{"trace": trace})
				break
			}
			if serr == nil {
				apply()
			}
			wr, _ := model.CompExpect(&m)
			want := model.CompString(wr[0], wr[1], wr[2], wr[3], wr[4])
			if got := obs.ObserveComp(sc); got != want {
				kind := "state-after-success"
				if serr != nil {
					kind = "changed-after-failure"
				}
				c.Violation("C11/component/"+base+"/"+kind, fmt.Sprintf("component after %s: want %s, got %s (no other field may change)", name, want, got), map[string]any{"trace": trace})
				break
			}
			c.Sig("component|" + base + fmt.Sprint(serr == nil))
		}
	}
	// ---- the component container's own Add / Replace (convert-all-then-swap)
	for h := 0; h < c.N(10000, 300000); h++ {
		ct := &psatoken.SwComponents[*psatoken.SwComponent]{}
		var held []model.Comp
		var trace []string
		for i, l := 0, 1+g.R.Intn(6); i < l; i++ {
			n := g.R.Intn(4)
			var list []model.Comp
			valid := true
			for j := 0; j < n; j++ {
				code := [5]int{g.R.Intn(2), 1, g.R.Intn(2), 1, g.R.Intn(2)}
				if g.R.Intn(4) == 0 {
					code[1], code[3] = g.R.Intn(3), g.R.Intn(3)
				}
				cp := g.CompFromCode(code)
				if _, v := model.CompExpect(&cp); v != model.OK {
					valid = false
				}
				list = append(list, cp)
			}
			var vals []psatoken.ISwComponent
			for j := range list {
				vals = append(vals, obs.RealComp(&list[j]))
			}
			op := "Add"
			var err error
			if g.R.Intn(3) == 0 {
				op = "Replace"
				err = ct.Replace(vals)
			} else {
				err = ct.Add(vals...)
			}
			c.Eval()
			c.Count("container-calls:" + op)
			trace = append(trace, fmt.Sprintf("%s(%d comps, all valid=%v)->%v", op, n, valid, err == nil))
			if (err == nil) != valid {
				c.Violation("C11/container/"+op+"/accept-mismatch", fmt.Sprintf("%s of a list whose components are all valid=%v returned %v", op, valid, err), map[string]any{"trace": trace})
				break
			}
			if err == nil {
				if op == "Replace" {
					held = append([]model.Comp{}, list...)
				} else {
					held = append(held, list...)
				}
			}
			// content after the call: through the CBOR form of the container
			wantEnc := refcbor.Encode(model.CompsNode(held))
			gotEnc, merr := ct.MarshalCBOR()
			want, _ := refcbor.DecodeAll(wantEnc)
			got, derr := refcbor.DecodeAll(gotEnc)
			if merr != nil || derr != nil || !refcbor.Equal(want, got) || ct.IsEmpty() != (len(held) == 0) {
				kind := "state-after-success"
				if err != nil {
					kind = "changed-after-failure"
				}
				c.Violation("C11/container/"+op+"/"+kind, fmt.Sprintf("container after %s holds %s, expected %s", op, diagOr(got), diagOr(want)), map[string]any{"trace": trace})
				break
			}
			c.Sig("container|" + op + fmt.Sprint(err == nil, n))
		}
	}
	// ---- a setter judges the VALUE it is given, whatever the object holds already: an
	// invalid value that is already stored (decoded without validation, or assigned
	// directly) is refused like on a fresh object
	for i := 0; i < c.N(6000, 120000); i++ {
		p := 1 + g.R.Intn(2)
		canon := c11Canon(g, p)
		x, _ := psatoken.NewClaims(canon)
		p1, p2 := obs.P1Of(x), obs.P2Of(x)
		var name string
		var serr error
		switch g.R.Intn(5) {
		case 0:
			name = "SetCertificationReference"
			bad := []string{g.Digits(13), g.Digits(12), "", g.Digits(13) + "-" + g.Digits(4), "abc"}[g.R.Intn(5)]
			if model.CertRefOK(p, bad) {
				continue
			}
			if p1 != nil {
				p1.CertificationReference = &bad
			} else {
				p2.CertificationReference = &bad
			}
			serr = x.SetCertificationReference(bad)
		case 1:
			name = "SetVSI"
			bad := ""
			if p1 != nil {
				p1.VSI = &bad
			} else {
				p2.VSI = &bad
			}
			serr = x.SetVSI(bad)
		case 2:
			name = "SetImplID"
			bad := g.Bytes([]int{0, 31, 33, 64}[g.R.Intn(4)])
			cp := append([]byte{}, bad...)
			if p1 != nil {
				p1.ImplID = &cp
			} else {
				p2.ImplID = &cp
			}
			serr = x.SetImplID(bad)
		case 3:
			name = "SetBootSeed"
			bad := g.Bytes([]int{0, 7, 33, 64}[g.R.Intn(4)])
			if model.BootSeedOK(p, len(bad)) {
				continue
			}
			cp := append([]byte{}, bad...)
			if p1 != nil {
				p1.BootSeed = &cp
			} else {
				p2.BootSeed = &cp
			}
			serr = x.SetBootSeed(bad)
		default:
			name = "SetSecurityLifeCycle"
			bad := uint16(0x7000 + g.R.Intn(0x8000))
			obs.SetNumField(x, "SecurityLifeCycle", int64(bad))
			serr = x.SetSecurityLifeCycle(bad)
		}
		c.Eval()
		c.Count("setter-calls-on-preloaded-invalid-value")
		c.Sig("preloaded|" + name)
		if serr == nil {
			c.Violation(fmt.Sprintf("C11/P%d/%s/accepted-invalid:already-stored", p, name), fmt.Sprintf("P%d %s accepted an invalid value because the claims-set already holds that very value", p, name), nil)
		}
	}
	// single calls: every byte setter x every length
	idx := 0
	for pi := 0; pi < 4; pi++ {
		p := 1 + pi%2
		canon := map[int]string{0: model.P1Name, 1: model.P2Name, 2: extprof.ExtP1Name, 3: extprof.ExtP2Name}[pi]
		for _, n := range model.SweepLens() {
			for _, st := range []string{"SetImplID", "SetBootSeed", "SetNonce", "SetInstID"} {
				idx++
				if !c.Mine(idx) {
					continue
				}
				cl, _ := psatoken.NewClaims(canon)
				b := g.Bytes(n)
				var err error
				var ok bool
				switch st {
				case "SetImplID":
					err, ok = cl.SetImplID(b), n == 32
				case "SetBootSeed":
					err, ok = cl.SetBootSeed(b), model.BootSeedOK(p, n)
				case "SetNonce":
					err, ok = cl.SetNonce(b), n == 32 || n == 48 || n == 64
				case "SetInstID":
					if n > 0 {
						b[0] = 1
					}
					err, ok = cl.SetInstID(b), n == 33
				}
				c.Eval()
				c.Count("single-setter-calls")
				c.Sig(fmt.Sprintf("single|P%d|%s|len%d", p, st, n))
				if (err == nil) != ok {
					c.Violation(fmt.Sprintf("C11/P%d/%s/single:len%d", p, st, n), fmt.Sprintf("P%d %s with %d bytes returned %v; validation accepts=%v", p, st, n, err, ok), nil)
				}
			}
		}
	}
	c.Floor("histories-on:"+extprof.ExtP1Name, 200)
	c.Floor("histories-on:"+extprof.ExtP2Name, 200)
	c.Floor("histories-from-struct-literal", 200)
	c.Floor("component-setter-calls", 5000)
	c.Floor("container-calls:Add", 1000)
	c.Floor("accepted", 1000)
	c.Floor("refused", 1000)
	c.Floor("complete-valid-states", 100)
	c.Floor("order-independence-checks", 100)
}
