package props

import (
	"fmt"
	"strings"
	"time"

	"github.com/veraison/psatoken"
	"github.com/veraison/psatoken/encoding"

	"verif/harness/extprof"
	"verif/harness/keys"
	"verif/harness/model"
	"verif/harness/mon"
	"verif/harness/refcbor"
	"verif/harness/shapes"
)

func init() { register("C05", runC05) }

// corpusItem is one valid input the hostile workloads start from.
type corpusItem struct {
	family string // cbor, json, cose
	kind   string
	bytes  []byte
}

// buildCorpus produces valid inputs of every kind: CBOR claims of both
// profiles and both extension profiles, JSON claims, COSE envelopes, and
// serialisations of the codec shapes.
func buildCorpus(g *model.Gen, perKind int) []corpusItem {
	var out []corpusItem
	k := keys.New("ES256", 0)
	for i := 0; i < perKind; i++ {
		for p := 1; p <= 2; p++ {
			a := g.Valid(p)
			if i%3 == 1 {
				a, _ = g.ValidProduct(p)
			}
			if i%4 == 3 {
				if p == 2 {
					a.Canon, a.Profile = extprof.ExtP2Name, model.SP(extprof.ExtP2Name)
				} else {
					a.Canon, a.Profile = extprof.ExtP1Name, model.SP(extprof.ExtP1Name)
				}
			}
			if p == 1 && i%6 == 2 {
				// the "no software measurements" form of profile 1
				one := uint64(1)
				a.NoMeas, a.HasComps, a.Comps = &one, false, nil
			}
			wire := refcbor.Encode(a.WireCBOR())
			out = append(out, corpusItem{"cbor", fmt.Sprintf("claims-P%d", p), wire})
			out = append(out, corpusItem{"json", fmt.Sprintf("claims-P%d", p), a.WireJSON()})
			if len(a.Comps) > 0 {
				out = append(out, corpusItem{"cbor", "components", refcbor.Encode(model.CompsNode(a.Comps))})
			}
			if a.Canon != extprof.ExtP1Name {
				if x, err := psatoken.DecodeClaimsFromCBOR(wire); err == nil {
					if tok, err := (&psatoken.Evidence{Claims: x}).Sign(k.Signer); err == nil {
						out = append(out, corpusItem{"cose", fmt.Sprintf("token-P%d", p), tok})
					}
				}
			}
		}
		{
			pl := &shapes.Plain{N: i, S: "s", B: true, A: [2]byte{1, 2}, F: 1.5, M: map[string]int{"a": 1}, L: []int{1, 2}, I: "x", U: 7}
			pl.Inner.Y = model.SP("y")
			if b, err := encoding.SerializeStructToCBOR(extprof.EM, pl); err == nil {
				out = append(out, corpusItem{"cbor", "shape-Plain", b})
			}
			if b, err := encoding.SerializeStructToJSON(pl); err == nil {
				out = append(out, corpusItem{"json", "shape-Plain", b})
			}
		}
		for _, sn := range shapes.Names {
			v := shapes.New(sn)
			shapes.Fill(g.R, v, func(_ int, f shapes.FieldInfo) bool { return !f.Optional || g.R.Intn(2) == 0 })
			if b, err := encoding.SerializeStructToCBOR(extprof.EM, v); err == nil {
				out = append(out, corpusItem{"cbor", "shape-" + sn, b})
			}
			if b, err := encoding.SerializeStructToJSON(v); err == nil {
				out = append(out, corpusItem{"json", "shape-" + sn, b})
			}
		}
	}
	return out
}

func bytesOf(v byte, n int) []byte {
	b := make([]byte, n)
	for i := range b {
		b[i] = v
	}
	return b
}

// forceWidth makes every head of the tree use a w-byte argument (values that
// do not fit keep their minimal width).
func forceWidth(n *refcbor.Node, w int) {
	fits := func(v uint64) bool { return w == 8 || v < 1<<(8*uint(w)) }
	switch n.K {
	case refcbor.Uint, refcbor.Nint, refcbor.Tag:
		if fits(n.U) {
			n.ArgW = w
		}
	case refcbor.Bytes, refcbor.Text:
		if fits(uint64(len(n.B))) {
			n.ArgW = w
		}
	case refcbor.Array:
		if fits(uint64(len(n.Items))) {
			n.ArgW = w
		}
	case refcbor.Map:
		if fits(uint64(len(n.Items) / 2)) {
			n.ArgW = w
		}
	}
	for _, it := range n.Items {
		forceWidth(it, w)
	}
}

type hostileRunner struct {
	c    *mon.Ctx
	eps  []entryPoint
	prop string
	// post is called after every entry point call (C06 meters here); nil for C05
	n int
}

// run feeds one input to every entry point of its family (and a sample of
// the other families') under recover(), after logging it to the write-ahead
// log so that a process death can be attributed.
func (h *hostileRunner) run(family, class string, input []byte) {
	c := h.c
	h.n++
	if !c.Begin(class, input) {
		return
	}
	c.Eval()
	c.Count("inputs:" + class)
	cross := h.n%8 == 0
	for _, ep := range h.eps {
		same := ep.family == family
		if !same && !(cross && (ep.family == "cbor" || ep.family == "cose") && (family == "cbor" || family == "cose")) {
			continue
		}
		ep := ep
		var err error
		accepted := false
		mon.CallBegin(ep.name)
		pn, pv, fr := mon.Guard(func() {
			var res any
			res, err = ep.fn(input)
			if err == nil {
				accepted = true
				exercise(res)
			}
		})
		mon.CallEnd()
		if pn {
			stage := "decode"
			if accepted {
				stage = "use-of-result"
			}
			c.Violation(h.prop+"/panic/"+mon.PanicKey(fr), fmt.Sprintf("panic (%s) in %s of %s", pv, stage, ep.name),
				map[string]any{"panic": pv, "frame": fr, "entry_point": ep.name, "stage": stage, "input_hex": mon.Hex(input), "class": class})
			c.Count("panics")
			continue
		}
		c.Count("calls")
		if accepted {
			c.Count("accepted:" + ep.name)
		} else {
			c.Count("rejected:" + ep.name)
		}
	}
}

func runC05(c *mon.Ctx) {
	c.Rule("inputs: (A) structure-aware mutants of valid CBOR claims (P1, P2, both extension profiles), component lists, COSE envelopes (also mutated inside the payload and inside the protected header) and serialisations of 7 codec shapes: at a random node of the independent AST replace by null / undefined / empty and boundary values of every type / tag- / array- / bstr-wrap, delete, duplicate (same key twice), swap, then re-encode with random non-minimal and indefinite lengths; (B) the same on JSON documents (member := null / \"\" / [] / {} / numbers beyond 64 bit / wrong type, delete, duplicate incl. case variants, rename, swap); (A0) every claims item of the corpus (incl. the P1 no-software-measurements form) x every claim name / key of either profile, present or not := each special value (null, undefined, [], {}, empty string, 0, [null], texts whose octet and character lengths straddle 64 / 255, ...); (C) byte level: every possible header byte followed by 0..9 argument bytes (bare, behind tags, as a map value); truncation at every offset of items re-encoded with all arguments forced to 1/2/4/8 bytes; truncation at every offset, all 256 substitutions at every offset of sample items, random splices of two items, insertions, deletions, lone header bytes of every major type at the end of input, random strings; each input goes to every decoding entry point of its family (COSE evidence x3, dispatching CBOR/JSON decoders validating and not, deprecated aliases, P1/P2/extension/container unmarshal methods (destinations made by the constructors and struct-literal destinations without component container), encoding.PopulateStructFromCBOR/JSON on flat / embedded / interface-embedded shapes) under recover(); whatever is returned without error is validated, read through every getter and component getter, re-encoded (CBOR, JSON, validating and not), attached, verified against 8 keys/non-keys. One child process per shard with a write-ahead log; the supervisor attributes process deaths (fatal errors) to the in-flight input and resumes after it. Oracle: no panic, no process death. distinct_nontrivial = distinct (family, kind, mutation classes) signatures")
	if err := extprof.Register(extprof.ExtP2Name, extprof.ExtP1Name); err != nil {
		c.Violation("harness/register", err.Error(), nil)
		return
	}
	g := model.NewGen(c.Seed*1543 + int64(c.Shard))
	h := &hostileRunner{c: c, eps: entryPoints(), prop: "C05"}
	// "returns a value or an error": a call that spins is ended (and attributed) after 20 s of CPU
	mon.StartWatchdog(20*time.Second, "call-does-not-return")
	corpus := buildCorpus(g, 6)
	pick := func(family string) corpusItem {
		for {
			it := corpus[g.R.Intn(len(corpus))]
			if it.family == family {
				return it
			}
		}
	}
	c.Extra("entry_points", func() []string {
		var l []string
		for _, e := range h.eps {
			l = append(l, e.name)
		}
		return l
	}())

	// (D) hand-made nasties first (cheap, every shard)
	for major := 0; major < 8; major++ {
		for ai := 0; ai < 32; ai++ {
			b := []byte{byte(major<<5 | ai)}
			h.run("cbor", "lone-header", b)
			h.run("cbor", "lone-header", append(append([]byte{}, b...), 0x00))
			it := pick("cbor")
			h.run("cbor", "header-before-item", append(append([]byte{}, b...), it.bytes...))
			h.run("cbor", "header-after-item", append(append([]byte{}, it.bytes...), b...))
		}
	}
	// every header byte followed by 0..9 further bytes (argument bytes that
	// are partly or wholly missing), also behind a tag / inside a map
	for hb := 0; hb < 256; hb++ {
		if !c.Mine(hb) {
			continue
		}
		for follow := 0; follow <= 9; follow++ {
			for _, fill := range []byte{0x00, 0xff, 0x01} {
				b := append([]byte{byte(hb)}, bytesOf(fill, follow)...)
				h.run("cbor", "header+k-bytes", b)
				h.run("cbor", "tag+header+k-bytes", append([]byte{0xc1}, b...))
				h.run("cbor", "tag24+header+k-bytes", append([]byte{0xd8, 0x18}, b...))
				h.run("cose", "tag18+header+k-bytes", append([]byte{0xd2}, b...))
				h.run("cbor", "map-entry+header+k-bytes", append([]byte{0xa1, 0x01}, b...))
			}
		}
	}
	c.Sig("header+k-bytes")
	// truncations of items re-encoded with every argument width forced to 1/2/4/8 bytes
	for wi, w := range []int{1, 2, 4, 8} {
		for fi, fam := range []string{"cbor", "cose"} {
			if !c.Mine(wi*2 + fi) {
				continue
			}
			for r := 0; r < 2; r++ {
				it := pick(fam)
				root, _, err := refcbor.Decode(it.bytes)
				if err != nil {
					continue
				}
				forceWidth(root, w)
				b := refcbor.Encode(root)
				for l := 0; l <= len(b); l++ {
					h.run(fam, fmt.Sprintf("truncation-of-width%d-encoding", w), b[:l])
				}
				c.Sig(fmt.Sprintf("%s|truncation-width%d|%s", fam, w, it.kind))
			}
		}
	}
	for key := int64(-110); key <= 610; key++ {
		if key > 40 && key < 95 || key > 110 && key < 595 {
			continue
		}
		for _, v := range []*refcbor.Node{refcbor.Null(), refcbor.Undef()} {
			h.run("cbor", "shape-key:=null", refcbor.Encode(refcbor.MapOf(refcbor.I(key), v)))
			h.run("cbor", "shape-key:=null", refcbor.Encode(refcbor.MapOf(refcbor.I(2), refcbor.Tstr("b"), refcbor.I(-4), refcbor.U(1), refcbor.I(key), v, refcbor.I(101), refcbor.Tstr("y"), refcbor.I(11), refcbor.U(1))))
		}
	}
	for _, name := range []string{"n", "s", "b", "a", "f", "m", "l", "i", "u", "t", "p", "x", "y", "z", "c", "d", "e", "q", "r"} {
		h.run("json", "shape-member:=null", []byte(`{"`+name+`":null}`))
		h.run("json", "shape-member:=null", []byte(`{"b":"x","d":1,"y":"y","q":1,"r":"r","u":1,"n":1,"`+name+`":null}`))
	}
	c.Sig("shape-null-members")
	for _, s := range []string{`{"psa-profile":"PSA_IOT_PROFILE_1","eat-profile":"http://arm.com/psa/2.0.0"}`, `{"eat-profile":"http://arm.com/psa/2.0.0","psa-profile":"PSA_IOT_PROFILE_1","psa-client-id":1}`,
		`{"psa-profile":null,"eat-profile":"http://example.com/unregistered"}`, `{"psa-profile":"PSA_IOT_PROFILE_1","eat-profile":"http://example.com/psa-ext/2.0.0"}`,
		``, `null`, `{}`, `[]`, `{"a":1,"a":2}`, `{"b":"x","b":"y","d":1}`, `{"y":"1","y":"2"}`, `{"psa-nonce":null}`, `{"psa-software-components":[null]}`,
		`{"psa-software-components":null}`, `{"eat-profile":null}`, `{"eat-profile":"http://arm.com/psa/2.0.0","eat-profile":"PSA_IOT_PROFILE_1"}`, `[{"a":1}]`, `"x"`, `1`, `{"a":{"a":{"a":1}}}`, `{"":1}`, `{"a":1}{"a":2}`} {
		h.run("json", "hand-made-json", []byte(s))
	}
	c.Sig("hand-made")
	// member values nested 1..70 (and 100, 1000, 5000) containers deep - arrays,
	// objects, alternating - under known and unknown member names, alone and inside a
	// valid document of either profile / the extension (seeded fault C05-v: a
	// fixed-size nesting stack with an off-by-one guard at depth 32)
	{
		depths := []int{100, 1000, 5000}
		for d := 1; d <= 70; d++ {
			depths = append(depths, d)
		}
		for di, d := range depths {
			if !c.Mine(di) {
				continue
			}
			vals := []string{strings.Repeat("[", d) + strings.Repeat("]", d), strings.Repeat(`{"a":`, d) + "1" + strings.Repeat("}", d)}
			alt := ""
			for i := 0; i < d; i++ {
				alt += []string{`[`, `{"k":`}[i%2]
			}
			alt += "0"
			for i := d - 1; i >= 0; i-- {
				alt += []string{`]`, `}`}[i%2]
			}
			vals = append(vals, alt)
			for _, v := range vals {
				for _, name := range []string{"x-unknown", "psa-software-components", "psa-nonce", "timestamp", "a", "b", "l", "i", "m", "p", "k1"} {
					h.run("json", "nested-member-value", []byte(`{"`+name+`":`+v+`}`))
					h.run("json", "nested-member-value", []byte(`{"b":"x","d":1,"y":"y","q":1,"r":"r","u":1,"n":1,"`+name+`":`+v+`}`))
				}
				for p := 1; p <= 2; p++ {
					doc := string(g.Valid(p).WireJSON())
					h.run("json", "nested-member-value-in-valid-document", []byte(doc[:len(doc)-1]+`,"x-unknown":`+v+`}`))
					h.run("json", "nested-member-value-in-valid-document", []byte(`{"x-unknown":`+v+`,`+doc[1:]))
				}
			}
			c.Sig(fmt.Sprintf("json-nesting|%d", d))
		}
	}

	// (A0) systematically: every claims item of the corpus x every claim name /
	// key of either profile (present or not) := each special value
	{
		jsonNames := []string{"psa-profile", "eat-profile", "psa-client-id", "psa-security-lifecycle", "psa-implementation-id", "psa-boot-seed", "psa-certification-reference", "psa-software-components", "psa-no-software-measurements", "psa-no-sw-measurement", "psa-nonce", "psa-instance-id", "psa-verification-service-indicator", "timestamp", "x-extra"}
		cborKeys := []int64{10, 256, 265, 2394, 2395, 2396, 2397, 2398, 2399, 2400, -75000, -75001, -75002, -75003, -75004, -75005, -75006, -75007, -75008, -75009, -75010, -75100, -75200}
		cborSpecials := func() []*refcbor.Node {
			return []*refcbor.Node{refcbor.Null(), refcbor.Undef(), refcbor.Arr(), refcbor.MapOf(), refcbor.Bstr(nil), refcbor.Tstr(""), refcbor.U(0), refcbor.U(1), refcbor.Arr(refcbor.Null()), refcbor.Arr(refcbor.MapOf()), refcbor.Tagged(1, refcbor.Null()),
				refcbor.Tstr(model.LongTexts[0]), refcbor.Tstr(model.LongTexts[1]), refcbor.Tstr(model.LongTexts[3]), refcbor.Tstr(model.LongTexts[6]), refcbor.Tstr(model.LongTexts[7]), refcbor.Bstr(bytesOf(0xc3, 70))}
		}
		idx := 0
		for _, it := range corpus {
			if !strings.HasPrefix(it.kind, "claims-") {
				continue
			}
			idx++
			if !c.Mine(idx) {
				continue
			}
			switch it.family {
			case "json":
				for _, name := range jsonNames {
					for _, sp := range jsonSpecials {
						root, err := parseJSON(it.bytes)
						if err != nil || root.kind != 'o' {
							continue
						}
						val, perr := parseJSON([]byte(sp))
						if perr != nil {
							continue
						}
						found := false
						for i, n := range root.names {
							if n == name {
								root.members[i], found = val, true
							}
						}
						if !found {
							root.names, root.members = append(root.names, name), append(root.members, val)
						}
						h.run("json", "claim:=special:"+it.kind, root.bytes())
					}
				}
				c.Sig("json|claim:=special|" + it.kind)
			case "cbor":
				for _, key := range cborKeys {
					for si := range cborSpecials() {
						root, _, err := refcbor.Decode(it.bytes)
						if err != nil || root.K != refcbor.Map {
							continue
						}
						val := cborSpecials()[si]
						found := false
						for i := 0; i+1 < len(root.Items); i += 2 {
							if kv, ok := root.Items[i].Int64(); ok && kv == key {
								root.Items[i+1], found = val, true
							}
						}
						if !found {
							root.Items = append(root.Items, refcbor.I(key), val)
						}
						h.run("cbor", "claim:=special:"+it.kind, refcbor.Encode(root))
					}
				}
				c.Sig("cbor|claim:=special|" + it.kind)
			}
		}
	}
	// (A) AST mutants, CBOR family
	nA := c.N(120000, 4000000)
	for i := 0; i < nA; i++ {
		fam := "cbor"
		if i%3 == 0 {
			fam = "cose"
		}
		it := pick(fam)
		root, _, err := refcbor.Decode(it.bytes)
		if err != nil {
			continue
		}
		desc := ""
		if fam == "cose" && g.R.Intn(2) == 0 && root.K == refcbor.Tag && len(root.Items[0].Items) == 4 {
			// mutate inside the payload / protected header
			pos := []int{0, 2}[g.R.Intn(2)]
			arr := root.Items[0]
			if inner, _, ierr := refcbor.Decode(arr.Items[pos].B); ierr == nil {
				wrap := refcbor.Arr(inner)
				desc = fmt.Sprintf("inner%d:", pos) + mutateNode(g, wrap, 1+g.R.Intn(2))
				if len(wrap.Items) > 0 {
					arr.Items[pos] = refcbor.Bstr(refcbor.Encode(wrap.Items[0]))
				} else {
					arr.Items[pos] = refcbor.Bstr(nil)
				}
			}
		} else {
			wrap := refcbor.Arr(root)
			desc = mutateNode(g, wrap, 1+g.R.Intn(3))
			if len(wrap.Items) == 0 {
				continue
			}
			root = wrap.Items[0]
		}
		if g.R.Intn(4) == 0 {
			reencodeVariant(g, root)
			desc += "reencoded;"
		}
		h.run(fam, "ast-mutant:"+it.kind, refcbor.Encode(root))
		c.Sig(fam + "|" + it.kind + "|" + desc)
	}
	// (B) JSON AST mutants
	nB := c.N(60000, 2000000)
	for i := 0; i < nB; i++ {
		it := pick("json")
		root, err := parseJSON(it.bytes)
		if err != nil {
			continue
		}
		wrap := &jnode{kind: 'a', members: []*jnode{root}}
		desc := mutateJSON(g, wrap, 1+g.R.Intn(3))
		if len(wrap.members) == 0 {
			continue
		}
		h.run("json", "json-mutant:"+it.kind, wrap.members[0].bytes())
		c.Sig("json|" + it.kind + "|" + desc)
	}
	// (C) byte level
	for fi, fam := range []string{"cbor", "cose", "json"} {
		// truncations of a few items
		for r := 0; r < 3; r++ {
			it := pick(fam)
			for l := 0; l < len(it.bytes); l++ {
				h.run(fam, "truncation", it.bytes[:l])
			}
			c.Sig(fam + "|truncation|" + it.kind)
		}
		// all 256 substitutions at every offset of one item per (shard, family)
		it := corpus[(c.Shard*3+fi)%len(corpus)]
		for tries := 0; it.family != fam && tries < len(corpus); tries++ {
			it = corpus[(c.Shard*3+fi+tries+1)%len(corpus)]
		}
		if it.family == fam {
			maxOff := len(it.bytes)
			if c.Quick() && maxOff > 120 {
				maxOff = 120
			}
			for off := 0; off < maxOff; off++ {
				for v := 0; v < 256; v++ {
					if byte(v) == it.bytes[off] {
						continue
					}
					m := append([]byte{}, it.bytes...)
					m[off] = byte(v)
					h.run(fam, "byte-substitution", m)
				}
			}
			c.Sig(fam + "|substitution|" + it.kind)
			c.Count("items-fully-substituted")
		}
	}
	nC := c.N(60000, 2000000)
	for i := 0; i < nC; i++ {
		fam := []string{"cbor", "cose", "json"}[i%3]
		a, b := pick(fam), pick(fam)
		var m []byte
		class := ""
		switch g.R.Intn(5) {
		case 0:
			x, y := g.R.Intn(len(a.bytes)+1), g.R.Intn(len(b.bytes)+1)
			m = append(append([]byte{}, a.bytes[:x]...), b.bytes[y:]...)
			class = "splice"
		case 1:
			at := g.R.Intn(len(a.bytes) + 1)
			m = append(append(append([]byte{}, a.bytes[:at]...), g.Bytes(1+g.R.Intn(6))...), a.bytes[at:]...)
			class = "insertion"
		case 2:
			at := g.R.Intn(len(a.bytes))
			end := at + 1 + g.R.Intn(6)
			if end > len(a.bytes) {
				end = len(a.bytes)
			}
			m = append(append([]byte{}, a.bytes[:at]...), a.bytes[end:]...)
			class = "deletion"
		case 3:
			m = append([]byte{}, a.bytes...)
			for e := 1 + g.R.Intn(6); e > 0; e-- {
				m[g.R.Intn(len(m))] = byte(g.R.Intn(256))
			}
			class = "multi-substitution"
		default:
			m = g.Bytes(g.R.Intn(64))
			if len(m) > 0 && g.R.Intn(2) == 0 {
				m[0] = []byte{0xa1, 0xa5, 0xbf, 0x84, 0xd2, 0x9f, 0xc0, '{', '['}[g.R.Intn(9)]
			}
			class = "random-bytes"
		}
		h.run(fam, class, m)
		if i%50 == 0 {
			c.Sig(fam + "|" + class + "|" + a.kind)
		}
	}
	// whatever an earlier input left behind must not break a later, good one:
	// every entry point must still accept a valid item of its family
	for _, fam := range []string{"cbor", "cose", "json"} {
		for r := 0; r < 4; r++ {
			it := pick(fam)
			h.run(fam, "final-control:"+it.kind, it.bytes)
		}
	}
	for _, ep := range h.eps {
		if !strings.Contains(ep.name, "nil-container") {
			c.Floor("accepted:"+ep.name, 5)
		}
		c.Floor("rejected:"+ep.name, 100)
	}
	c.Floor("calls", 500000)
	if c.CaseNo() > 0 && c.Shard == 0 {
		c.Sample("input", map[string]any{"classes": "see counters inputs:*", "entry_points": len(h.eps)})
	}
}
