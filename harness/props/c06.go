package props

import (
	"bytes"
	"encoding/binary"
	"fmt"
	"github.com/veraison/psatoken"
	"runtime"
	"strings"
	"syscall"
	"time"

	"verif/harness/extprof"
	"verif/harness/model"
	"verif/harness/mon"
	"verif/harness/refcbor"
)

func init() { register("C06", runC06) }

const (
	c06AllocConst  = 1 << 20 // 1 MiB
	c06AllocPerB   = 1 << 10 // 1 KiB per input byte
	c06CPUSeconds  = 5.0
	rusageThread   = 1 // RUSAGE_THREAD
	c06MaxInputLen = 65536
)

func threadCPU() float64 {
	var ru syscall.Rusage
	if err := syscall.Getrusage(rusageThread, &ru); err != nil {
		return 0
	}
	return float64(ru.Utime.Sec) + float64(ru.Utime.Usec)/1e6 + float64(ru.Stime.Sec) + float64(ru.Stime.Usec)/1e6
}

type meter struct {
	c       *mon.Ctx
	eps     []entryPoint
	n       int
	maxRate float64
	maxAbs  uint64
	maxCPU  float64
	worst   map[string]any
}

// run meters every entry point of the input's family on this input: bytes
// allocated (exact: ReadMemStats flushes the allocation caches) and CPU time
// of this OS thread.
func (m *meter) run(family, class string, input []byte) {
	c := m.c
	if len(input) > c06MaxInputLen {
		input = input[:c06MaxInputLen]
	}
	m.n++
	if !c.Begin(class, input) {
		return
	}
	c.Eval()
	c.Count("inputs:" + class)
	bound := uint64(c06AllocConst + c06AllocPerB*len(input))
	var ms0, ms1 runtime.MemStats
	for _, ep := range m.eps {
		if ep.family != family && !(family == "cose" && ep.family == "cbor" && m.n%4 == 0) && !(family == "cbor" && ep.family == "cose" && m.n%4 == 0) {
			continue
		}
		ep := ep
		runtime.ReadMemStats(&ms0)
		t0 := threadCPU()
		var err error
		mon.CallBegin(ep.name)
		pn, pv, fr := mon.Guard(func() { _, err = ep.fn(input) })
		mon.CallEnd()
		t1 := threadCPU()
		runtime.ReadMemStats(&ms1)
		c.Count("metered-calls")
		if pn {
			// C05's business; recorded so that it is not lost if only C06 runs
			c.Violation("C06/panic/"+mon.PanicKey(fr), fmt.Sprintf("panic (%s) while decoding in %s", pv, ep.name), map[string]any{"panic": pv, "frame": fr, "entry_point": ep.name, "input_hex": mon.Hex(input), "class": class})
			continue
		}
		if err == nil {
			c.Count("accepted")
		}
		alloc := ms1.TotalAlloc - ms0.TotalAlloc
		cpu := t1 - t0
		if alloc > m.maxAbs {
			m.maxAbs = alloc
		}
		if r := float64(alloc) / float64(bound); r > m.maxRate {
			m.maxRate = r
			m.worst = map[string]any{"entry_point": ep.name, "class": class, "input_len": len(input), "allocated_bytes": alloc, "bound_bytes": bound, "input_hex_prefix": mon.Hex(input[:min(len(input), 48)])}
		}
		if cpu > m.maxCPU {
			m.maxCPU = cpu
		}
		epKey := ep.name
		if i := strings.Index(epKey, "("); i > 0 {
			epKey = epKey[:i]
		}
		if alloc > bound {
			c.Violation("C06/allocation-exceeds-bound/"+epKey, fmt.Sprintf("%s allocated %d bytes for a %d-byte input (bound %d = 1 MiB + 1 KiB per input byte)", ep.name, alloc, len(input), bound),
				map[string]any{"entry_point": ep.name, "class": class, "input_len": len(input), "allocated_bytes": alloc, "bound_bytes": bound, "mallocs": ms1.Mallocs - ms0.Mallocs, "input_hex": mon.Hex(input)})
		}
		if cpu > c06CPUSeconds {
			c.Violation("C06/cpu-exceeds-bound/"+epKey, fmt.Sprintf("%s used %.2f s of CPU for a %d-byte input (bound %.0f s)", ep.name, cpu, len(input), c06CPUSeconds),
				map[string]any{"entry_point": ep.name, "class": class, "input_len": len(input), "cpu_s": cpu, "input_hex": mon.Hex(input)})
		}
	}
}

// bombHead returns the header of an item of the given major type declaring
// length n with an argument of width w bytes (0 = immediate).
func bombHead(major byte, w int, n uint64) []byte {
	switch w {
	case 0:
		return []byte{major<<5 | byte(n&0x17)}
	case 1:
		return []byte{major<<5 | 24, byte(n)}
	case 2:
		return binary.BigEndian.AppendUint16([]byte{major<<5 | 25}, uint16(n))
	case 4:
		return binary.BigEndian.AppendUint32([]byte{major<<5 | 26}, uint32(n))
	}
	return binary.BigEndian.AppendUint64([]byte{major<<5 | 27}, n)
}

func runC06(c *mon.Ctx) {
	runtime.LockOSThread()
	// a call that never returns is caught while it runs (the meter below only sees calls that return)
	mon.StartWatchdog(time.Duration(c06CPUSeconds*float64(time.Second)), "cpu-bound-exceeded")
	c.Rule("every decoding entry point of C05, metered per call in a worker that runs nothing else (locked OS thread): bytes allocated = delta of runtime.MemStats.TotalAlloc (exact), CPU = delta of getrusage(RUSAGE_THREAD); worker under RLIMIT_AS = 4 GiB so that a reservation bomb dies at once and is attributed through the write-ahead log. Inputs (<= 64 KiB): LENGTH BOMBS - for major types 2,3,4,5 and tags, argument widths 1/2/4/8, declared lengths {2^8-1, 2^8, 2^16-1, 2^16, 2^24, 2^31-1, 2^31, 2^32-1, 2^63, 2^64-1} followed by 0..16 bytes, placed at top level, as the value of every known claim key of an otherwise valid token of either profile, inside a component, as a component list, and at each of the four COSE positions (also inside the payload); DEPTH BOMBS - nesting 1..600 of arrays / maps / tags in CBOR (top level, under unknown and known keys), 10^2..2*10^4 in JSON (arrays, objects); WIDTH - up to 64 KiB of one-byte items (nulls, empty maps, empty arrays, zeros) as top-level array, as component list, under unknown keys; JSON arrays of zeros, many short keys, many duplicate keys, long strings, long escapes, 10^5-digit numbers; plus the structure-aware mutants of C05. Oracle: allocated <= 1 MiB + 1 KiB x len(input) and CPU <= 5 s for every call (calls that return are metered after the fact; an in-process watchdog ends the worker as soon as ONE call has used more than 5 s of CPU, which is how a call that never returns is caught and attributed through the write-ahead log); no process death. A wall-clock watchdog firing is reported as inconclusive, never as a violation. Also honest VALID tokens that are merely large: one text claim (VSI, component description / type / version) of 1 000 .. 64 000 characters (ASCII, two-octet, control, blank), CBOR and JSON, through every entry point incl. the validating ones. VALUE BOMBS: short well-formed numbers whose value is huge (JSON exponents up to 1e999999999, integral numbers written with fraction / exponent; CBOR bignums, decimal fractions and bigfloats with 2^63 exponents, edge floats) under every numeric member / key of both profiles, the extensions and the populate shapes. LATE REGISTRATION: the last shard finally registers a further profile and then decodes the same small profile-less JSON documents 5000 more times (the cost of a call must not grow with the number of earlier calls). distinct_nontrivial = distinct (class, position, major type, width, declared length) signatures")
	if err := extprof.Register(extprof.ExtP2Name, extprof.ExtP1Name); err != nil {
		c.Violation("harness/register", err.Error(), nil)
		return
	}
	g := model.NewGen(c.Seed*2287 + int64(c.Shard))
	m := &meter{c: c, eps: entryPoints()}
	corpus := buildCorpus(g, 4)
	pick := func(family string) corpusItem {
		for {
			it := corpus[g.R.Intn(len(corpus))]
			if it.family == family {
				return it
			}
		}
	}
	// warm-up: type caches of the codecs are filled on first use
	for _, it := range corpus {
		for _, ep := range m.eps {
			if ep.family == it.family {
				ep := ep
				mon.Guard(func() { _, _ = ep.fn(it.bytes) })
				mon.Guard(func() { _, _ = ep.fn([]byte{0xa1, 0x01}) })
				mon.Guard(func() { _, _ = ep.fn([]byte(`{"a":`)) })
			}
		}
	}
	// positive control of the meter itself: it must see an allocation it is told about
	{
		var a, b runtime.MemStats
		runtime.ReadMemStats(&a)
		sink = make([]byte, 3<<20)
		runtime.ReadMemStats(&b)
		if b.TotalAlloc-a.TotalAlloc < 3<<20 {
			c.Inconclusive("allocation meter did not observe a 3 MiB control allocation")
		}
		sink = nil
		c.Count("meter-control-ok")
	}

	lengths := []uint64{1<<8 - 1, 1 << 8, 1<<16 - 1, 1 << 16, 1 << 24, 1<<31 - 1, 1 << 31, 1<<32 - 1, 1 << 63, 1<<64 - 1}
	widthOf := func(n uint64) []int {
		var ws []int
		for _, w := range []int{1, 2, 4, 8} {
			if w == 8 || n < 1<<(8*uint(w)) {
				ws = append(ws, w)
			}
		}
		return ws
	}
	idx := 0
	bombs := func(emit func(pos string, raw []byte)) {
		for _, major := range []byte{2, 3, 4, 5, 6} {
			for _, n := range lengths {
				for _, w := range widthOf(n) {
					for _, follow := range []int{0, 1, 2, 16} {
						idx++
						if !c.Mine(idx) {
							continue
						}
						raw := append(bombHead(major, w, n), g.Bytes(follow)...)
						if major == 6 && follow == 0 {
							raw = append(raw, 0xa0)
						}
						emit(fmt.Sprintf("major%d|w%d|len%d|+%d", major, w, n, follow), raw)
					}
				}
			}
		}
	}
	// top level
	big := make([]byte, 0, 1<<20)
	bombs(func(d string, raw []byte) {
		m.run("cbor", "length-bomb:top-level", raw)
		m.run("cose", "length-bomb:top-level", raw)
		// the same bytes as a slice of a large receive buffer (len << cap)
		inbuf := append(big[:0], raw...)
		m.run("cbor", "length-bomb:top-level:spare-capacity", inbuf)
		// and behind a declared-but-empty tag / inside a one-entry map
		m.run("cbor", "length-bomb:top-level:spare-capacity", append(append(big[:0], 0xa1, 0x01), raw...))
		// behind tags of every head form: one-byte (immediate) tag numbers, 1/2/4/8-byte
		// tag numbers, nested
		for _, th := range [][]byte{{0xc1}, {0xc6}, {0xd7}, {0xd8, 0x3d}, {0xd9, 0xd9, 0xf7}, {0xda, 0x00, 0x01, 0x00, 0x00}, {0xdb, 0, 0, 0, 1, 0, 0, 0, 0}, {0xc1, 0xc2}, {0xd8, 0x3d, 0xc1}} {
			m.run("cbor", "length-bomb:behind-tag", append(append([]byte{}, th...), raw...))
		}
		c.Sig("top|" + d)
	})
	// as the value of every known key of an otherwise valid token
	for p := 1; p <= 2; p++ {
		keysOf := model.P1Keys
		if p == 2 {
			keysOf = model.P2Keys
		}
		for _, k := range keysOf {
			k := k
			bombs(func(d string, raw []byte) {
				a := g.Valid(p)
				w := a.WireCBOR()
				set := false
				for i := 0; i+1 < len(w.Items); i += 2 {
					if kv, _ := w.Items[i].Int64(); kv == k {
						w.Items[i+1] = refcbor.Raw(raw)
						set = true
					}
				}
				if !set {
					w.Items = append(w.Items, refcbor.I(k), refcbor.Raw(raw))
				}
				// the bomb must be the last item, otherwise the following
				// members are swallowed as its content
				for i := 0; i+1 < len(w.Items); i += 2 {
					if kv, _ := w.Items[i].Int64(); kv == k {
						last := len(w.Items) - 2
						w.Items[i], w.Items[last] = w.Items[last], w.Items[i]
						w.Items[i+1], w.Items[last+1] = w.Items[last+1], w.Items[i+1]
						break
					}
				}
				m.run("cbor", "length-bomb:claim-value", refcbor.Encode(w))
				c.Sig(fmt.Sprintf("claim|P%d|%d|%s", p, k, d))
			})
		}
	}
	// inside a component, as component list, under an unknown key
	bombs(func(d string, raw []byte) {
		p := 1 + g.R.Intn(2)
		a := g.Valid(p)
		a.HasComps, a.NoMeas = true, nil
		if len(a.Comps) == 0 {
			a.Comps = []model.Comp{g.ValidComp()}
		}
		w := a.WireCBOR()
		for i := 0; i+1 < len(w.Items); i += 2 {
			if kv, _ := w.Items[i].Int64(); kv == model.KeyOf(p, "sw-components") {
				comp := w.Items[i+1].Items[len(w.Items[i+1].Items)-1]
				comp.Items = append(comp.Items, refcbor.I([]int64{1, 2, 4, 5, 6, 9}[g.R.Intn(6)]), refcbor.Raw(raw))
				last := len(w.Items) - 2
				w.Items[i], w.Items[last] = w.Items[last], w.Items[i]
				w.Items[i+1], w.Items[last+1] = w.Items[last+1], w.Items[i+1]
				break
			}
		}
		m.run("cbor", "length-bomb:component-field", refcbor.Encode(w))
		m.run("cbor", "length-bomb:component-list", raw)
		w2 := g.Valid(p).WireCBOR()
		w2.Items = append(w2.Items, refcbor.I(int64(7000+g.R.Intn(100))), refcbor.Raw(raw))
		m.run("cbor", "length-bomb:unknown-key", refcbor.Encode(w2))
		c.Sig("component|" + d)
	})
	// the four COSE positions and inside the payload
	bombs(func(d string, raw []byte) {
		it := pick("cose")
		root, _, err := refcbor.Decode(it.bytes)
		if err != nil || root.K != refcbor.Tag || len(root.Items[0].Items) != 4 {
			return
		}
		pos := g.R.Intn(5)
		arr := root.Items[0]
		if pos < 4 {
			arr.Items[pos] = refcbor.Raw(raw)
			arr.Items[pos], arr.Items[3] = arr.Items[3], arr.Items[pos]
		} else {
			arr.Items[2] = refcbor.Bstr(raw)
		}
		m.run("cose", fmt.Sprintf("length-bomb:cose-position-%d", pos), refcbor.Encode(root))
		c.Sig(fmt.Sprintf("cose|%d|%s", pos, d))
	})

	// ---- depth bombs
	for _, depth := range []int{1, 2, 4, 8, 16, 31, 32, 33, 64, 128, 256, 600, 2999, 5000, 9000, 9989, 30000} {
		for kind := 0; kind < 4; kind++ {
			idx++
			if !c.Mine(idx) {
				continue
			}
			var b []byte
			for i := 0; i < depth; i++ {
				switch kind {
				case 0:
					b = append(b, 0x81)
				case 1:
					b = append(b, 0xa1, 0x00)
				case 2:
					b = append(b, 0xc1)
				default:
					b = append(b, 0x9f)
				}
			}
			b = append(b, 0x00)
			name := []string{"arrays", "maps", "tags", "indefinite-arrays"}[kind]
			m.run("cbor", "depth-bomb:top-level:"+name, b)
			m.run("cose", "depth-bomb:top-level:"+name, b)
			for p := 1; p <= 2; p++ {
				w := g.Valid(p).WireCBOR()
				w.Items = append(w.Items, refcbor.I(9000), refcbor.Raw(b))
				m.run("cbor", "depth-bomb:unknown-key:"+name, refcbor.Encode(w))
				w = g.Valid(p).WireCBOR()
				w.Items = append(w.Items, refcbor.I(model.KeyOf(p, "sw-components")), refcbor.Raw(b))
				m.run("cbor", "depth-bomb:known-key:"+name, refcbor.Encode(w))
			}
			if len(b) < 60000 {
				tok := pick("cose")
				if root, _, err := refcbor.Decode(tok.bytes); err == nil && root.K == refcbor.Tag && len(root.Items[0].Items) == 4 {
					root.Items[0].Items[2] = refcbor.Bstr(b)
					m.run("cose", "depth-bomb:payload:"+name, refcbor.Encode(root))
				}
			}
			c.Sig(fmt.Sprintf("depth|cbor|%s|%d", name, depth))
		}
		for kind := 0; kind < 7; kind++ {
			idx++
			if !c.Mine(idx) {
				continue
			}
			var s string
			switch kind {
			case 3, 4, 5, 6:
				// well-formed documents whose innermost value only the SECOND
				// pass of a decoder objects to (a number outside float64, a
				// lone surrogate, an over-long number), below `depth` levels
				leaf := []string{"1e999", "-4E+1000", `"\ud800"`, "1" + strings.Repeat("0", 400)}[kind-3]
				open, cl := strings.Repeat("[", depth), strings.Repeat("]", depth)
				if depth%2 == 1 {
					open, cl = strings.Repeat(`{"a":`, depth), strings.Repeat("}", depth)
				}
				s = `{"x":` + open + leaf + cl + `,"psa-nonce":` + open + leaf + cl + `}`
			case 0:
				s = strings.Repeat("[", depth) + strings.Repeat("]", depth)
			case 1:
				s = strings.Repeat(`{"a":`, depth) + "1" + strings.Repeat("}", depth)
			default:
				s = `{"psa-software-components":` + strings.Repeat("[", depth) + strings.Repeat("]", depth) + `,"x":` + strings.Repeat(`{"b":`, depth) + "null" + strings.Repeat("}", depth) + "}"
			}
			m.run("json", fmt.Sprintf("depth-bomb:json:%d", kind), []byte(s))
			m.run("json", fmt.Sprintf("depth-bomb:json-unterminated:%d", kind), []byte(s[:len(s)/2]))
			c.Sig(fmt.Sprintf("depth|json|%d|%d", kind, depth))
		}
	}

	// ---- byte strings nested in byte strings (every declared length is honest)
	for _, depth := range []int{1, 2, 3, 8, 64, 500, 4000, 20000} {
		idx++
		if !c.Mine(idx) {
			continue
		}
		for kind := 0; kind < 2; kind++ {
			inner := []byte{0xa0}
			if kind == 1 {
				inner = refcbor.Encode(g.Valid(1 + g.R.Intn(2)).WireCBOR())
			}
			for i := 0; i < depth && len(inner) < 65000; i++ {
				inner = refcbor.Encode(refcbor.Bstr(inner))
			}
			m.run("cbor", "depth-bomb:nested-byte-strings", inner)
			tok := pick("cose")
			if root, _, err := refcbor.Decode(tok.bytes); err == nil && root.K == refcbor.Tag && len(root.Items[0].Items) == 4 && len(inner) < 60000 {
				root.Items[0].Items[2] = refcbor.Bstr(inner)
				m.run("cose", "depth-bomb:payload:nested-byte-strings", refcbor.Encode(root))
			}
		}
		c.Sig(fmt.Sprintf("depth|bstr-in-bstr|%d", depth))
	}
	// ---- JSON documents that put the dispatcher on its error paths, then good input again
	for _, doc := range []string{`{"psa-profile":"PSA_IOT_PROFILE_1","eat-profile":"http://arm.com/psa/2.0.0"}`, `{"psa-profile":null,"eat-profile":"http://example.com/unregistered"}`, `{"eat-profile":"http://example.com/unregistered"}`} {
		m.run("json", "dispatcher-error-path", []byte(doc))
		for _, fam := range []string{"json", "cbor", "cose"} {
			it := pick(fam)
			m.run(fam, "good-input-after-error-path", it.bytes)
		}
	}
	// ---- VALUE bombs: short, well-formed numbers whose VALUE (exponent, bignum
	// magnitude), not their length, is what an expanding conversion would pay for
	// (seeded fault C06-u: big.Float.Int on 1e400000000 = 166 MB for 11 bytes).
	// Every integer / float member of both profiles, the extensions and the
	// populate shapes, as member value, in an array and under an unknown member.
	{
		nums := []string{"1e400000000", "1E+999999999", "-1e400000000", "1e-400000000", "0.0e999999999", "0e-999999999", "1e4000000", "-1E4000000",
			"1.5e308", "1e309", "1e19", "1e18", "12288.0", "1.2288e4", "122880e-1", "9223372036854775807e0", "4.2949672960e9", "1e2147483648", "1e-2147483649", "1.0E+0"}
		members := []string{"psa-client-id", "psa-security-lifecycle", "psa-no-sw-measurement", "timestamp", "vendor-revision", "zz-last",
			"a", "d", "f", "x", "q", "s", "u", "n", "l", "k1", "psa-boot-seed", "psa-nonce", "eat-profile", "unknown-member"}
		for ni, num := range nums {
			idx++
			if !c.Mine(idx) {
				continue
			}
			for mi, mem := range members {
				a := g.Valid(1 + (ni+mi)%2)
				doc := string(a.WireJSON())
				bare := `{"` + mem + `":` + num + `}`
				m.run("json", "value-bomb:json:bare", []byte(bare))
				m.run("json", "value-bomb:json:first", []byte(`{"`+mem+`":`+num+`,`+doc[1:]))
				m.run("json", "value-bomb:json:last", []byte(doc[:len(doc)-1]+`,"`+mem+`":`+num+`}`))
				m.run("json", "value-bomb:json:in-array", []byte(`{"`+mem+`":[`+num+`,`+num+`]}`))
				m.run("json", "value-bomb:json:as-string", []byte(`{"`+mem+`":"`+num+`"}`))
			}
			c.Sig(fmt.Sprintf("value-bomb|json|%d", ni))
		}
		// CBOR: bignums (tags 2, 3), decimal fractions / bigfloats (tags 4, 5) with
		// huge exponents, floats at the edge, under every integer key
		big := [][]byte{{}, {0}, bytes.Repeat([]byte{0xff}, 8), bytes.Repeat([]byte{0xff}, 9), bytes.Repeat([]byte{0xff}, 64), append([]byte{1}, make([]byte, 255)...)}
		var vals []*refcbor.Node
		for _, b := range big {
			vals = append(vals, refcbor.Tagged(2, refcbor.Bstr(b)), refcbor.Tagged(3, refcbor.Bstr(b)))
		}
		for _, e := range []int64{400000000, -400000000, 9223372036854775807, -9223372036854775808, 2147483648} {
			vals = append(vals, refcbor.Tagged(4, refcbor.Arr(refcbor.I(e), refcbor.I(1))), refcbor.Tagged(5, refcbor.Arr(refcbor.I(e), refcbor.I(1))),
				refcbor.Tagged(4, refcbor.Arr(refcbor.I(e), refcbor.Tagged(2, refcbor.Bstr(bytes.Repeat([]byte{0xff}, 16))))))
		}
		for _, f := range []float64{1e308, -1e308, 1.8446744073709552e19, 9.223372036854775807e18, 4294967296, 65536, 5e-324} {
			vals = append(vals, refcbor.Flt(f, 8))
		}
		keys := []int64{-75001, -75002, -75007, 2394, 2395, -75100, -75501, 1, -4, 600, 100, 11, 21, 31, 9, 7, 424242}
		for vi, v := range vals {
			idx++
			if !c.Mine(idx) {
				continue
			}
			for ki, k := range keys {
				a := g.Valid(1 + (vi+ki)%2)
				root := a.WireCBOR()
				m.run("cbor", "value-bomb:cbor:bare", refcbor.Encode(refcbor.MapOf(refcbor.I(k), v)))
				with := refcbor.MapOf(append([]*refcbor.Node{refcbor.I(k), v}, root.Items...)...)
				m.run("cbor", "value-bomb:cbor:first", refcbor.Encode(with))
				m.run("cbor", "value-bomb:cbor:last", refcbor.Encode(refcbor.MapOf(append(append([]*refcbor.Node{}, root.Items...), refcbor.I(k), v)...)))
			}
			c.Sig(fmt.Sprintf("value-bomb|cbor|%d", vi))
		}
	}
	// ---- width
	// ---- documents using near-miss spellings of the member names (underscore for
	// dash, other case), compact and with white space around the colon, as member
	// name and as string value
	{
		names := []string{"eat-profile", "psa-profile", "psa-client-id", "psa-nonce", "psa-software-components", "psa-instance-id", "psa-security-lifecycle"}
		for ni, nm := range names {
			for vi, variant := range []string{strings.ReplaceAll(nm, "-", "_"), strings.ToUpper(nm), strings.ReplaceAll(nm, "-", "")} {
				idx++
				if !c.Mine(idx) {
					continue
				}
				for _, val := range []string{`"http://arm.com/psa/2.0.0"`, `"PSA_IOT_PROFILE_1"`, `1`, `null`} {
					for _, colon := range []string{":", " : ", "\n:\t", " :"} {
						colon = strings.NewReplacer("\\n", "\n", "\\t", "\t").Replace(colon)
						a := g.Valid(1 + (ni+vi)%2)
						a.Profile = nil
						doc := string(a.WireJSON())
						with := `{"` + variant + `"` + colon + val + `,` + doc[1:]
						m.run("json", "near-miss-member-name", []byte(with))
						m.run("json", "near-miss-member-name-as-value", []byte(`{"x"`+colon+`"`+variant+`",`+doc[1:]))
					}
				}
				c.Sig(fmt.Sprintf("near-miss-name|%d|%d", ni, vi))
			}
		}
	}
	// ---- honest, VALID tokens that are merely large: one text claim of n characters
	// (every rule is then evaluated on it: time and memory must stay linear)
	for ni, n := range []int{1000, 8000, 30000, 64000} {
		for p := 1; p <= 2; p++ {
			for ci, fill := range []string{"x", "é", "\u0001", " "} {
				idx++
				if !c.Mine(idx) {
					continue
				}
				ch := []string{"x", "é", "\x01", " "}[ci]
				_ = fill
				long := strings.Repeat(ch, n)
				for where := 0; where < 3; where++ {
					a := g.Valid(p)
					if len(a.Comps) == 0 {
						a.HasComps, a.NoMeas, a.Comps = true, nil, []model.Comp{g.ValidComp()}
					}
					switch where {
					case 0:
						a.VSI = model.SP(long)
					case 1:
						a.Comps[0].Desc = model.SP(long)
					default:
						a.Comps[len(a.Comps)-1].MType, a.Comps[0].Version = model.SP(long), model.SP(long)
					}
					name := []string{"vsi", "component-description", "component-type+version"}[where]
					m.run("cbor", "valid-token-with-long-text:"+name, refcbor.Encode(a.WireCBOR()))
					m.run("json", "valid-token-with-long-text:"+name, a.WireJSON())
					c.Sig(fmt.Sprintf("long-text|P%d|%s|%d|%d", p, name, ci, ni))
				}
			}
		}
	}
	for _, n := range []int{100, 1000, 23000, 65000} {
		for kind := 0; kind < 5; kind++ {
			idx++
			if !c.Mine(idx) {
				continue
			}
			item := [][]byte{{0xf6}, {0xa0}, {0x80}, {0x00}, {0x40}}[kind]
			name := []string{"nulls", "empty-maps", "empty-arrays", "zeros", "empty-bstrs"}[kind]
			body := make([]byte, 0, n*len(item))
			for i := 0; i < n; i++ {
				body = append(body, item...)
			}
			arr := append(bombHead(4, 4, uint64(n)), body...)
			m.run("cbor", "width:top-level-array:"+name, arr)
			for p := 1; p <= 2; p++ {
				w := g.Valid(p).WireCBOR()
				for i := 0; i+1 < len(w.Items); i += 2 {
					if kv, _ := w.Items[i].Int64(); kv == model.KeyOf(p, "sw-components") || kv == model.P1KNoMeas {
						w.Items = append(w.Items[:i], w.Items[i+2:]...)
						i -= 2
					}
				}
				w.Items = append(w.Items, refcbor.I(model.KeyOf(p, "sw-components")), refcbor.Raw(arr))
				m.run("cbor", "width:component-list:"+name, refcbor.Encode(w))
				w = g.Valid(p).WireCBOR()
				w.Items = append(w.Items, refcbor.I(9001), refcbor.Raw(arr))
				m.run("cbor", "width:unknown-key:"+name, refcbor.Encode(w))
				if p == 2 {
					w = g.Valid(p).WireCBOR()
					for i := 0; i+1 < len(w.Items); i += 2 {
						if kv, _ := w.Items[i].Int64(); kv == model.P2KNonce {
							w.Items[i+1] = refcbor.Raw(arr)
						}
					}
					m.run("cbor", "width:nonce-list:"+name, refcbor.Encode(w))
				}
			}
			// a map with n entries (distinct small keys are not possible in one byte; use 2-byte keys)
			if n <= 23000 {
				mp := bombHead(5, 4, uint64(n))
				for i := 0; i < n; i++ {
					mp = append(mp, 0x19, byte(i>>8), byte(i), item[0])
				}
				m.run("cbor", "width:top-level-map:"+name, mp)
				dup := bombHead(5, 4, uint64(n))
				for i := 0; i < n; i++ {
					dup = append(dup, 0x01, item[0])
				}
				m.run("cbor", "width:duplicate-keys-map:"+name, dup)
			}
			c.Sig(fmt.Sprintf("width|cbor|%s|%d", name, n))
		}
		for kind := 0; kind < 6; kind++ {
			idx++
			if !c.Mine(idx) {
				continue
			}
			var s string
			switch kind {
			case 0:
				s = "[" + strings.Repeat("0,", n-1) + "0]"
			case 1:
				var sb strings.Builder
				sb.WriteString("{")
				for i := 0; i < n/4; i++ {
					fmt.Fprintf(&sb, `"k%d":0,`, i)
				}
				sb.WriteString(`"z":0}`)
				s = sb.String()
			case 2:
				s = "{" + strings.Repeat(`"a":0,`, n/6) + `"a":1}`
			case 3:
				s = `{"psa-verification-service-indicator":"` + strings.Repeat("x", n) + `"}`
			case 4:
				s = `{"psa-nonce":"` + strings.Repeat(`A`, n/6) + `"}`
			default:
				s = `{"psa-client-id":` + strings.Repeat("9", n) + `}`
			}
			if kind == 5 {
				// every member name TWICE (well-formed JSON; the last occurrence counts)
				var sb strings.Builder
				sb.WriteString("{")
				for rep := 0; rep < 2; rep++ {
					for i := 0; i < n/16; i++ {
						fmt.Fprintf(&sb, `"k%d":%d,`, i, rep)
					}
				}
				sb.WriteString(`"z":0}`)
				m.run("json", "width:json:every-member-twice", []byte(sb.String()))
			}
			m.run("json", fmt.Sprintf("width:json:%d", kind), []byte(s))
			s2 := `{"psa-software-components":` + "[" + strings.Repeat("{},", n/3) + "{}]" + "}"
			m.run("json", "width:json:components", []byte(s2))
			c.Sig(fmt.Sprintf("width|json|%d|%d", kind, n))
		}
	}

	// ---- the C05 mutants, metered
	nM := c.N(30000, 1000000)
	for i := 0; i < nM; i++ {
		fam := []string{"cbor", "cose", "json"}[i%3]
		it := pick(fam)
		var in []byte
		if fam == "json" {
			root, err := parseJSON(it.bytes)
			if err != nil {
				continue
			}
			wrap := &jnode{kind: 'a', members: []*jnode{root}}
			mutateJSON(g, wrap, 1+g.R.Intn(3))
			if len(wrap.members) == 0 {
				continue
			}
			in = wrap.members[0].bytes()
		} else {
			root, _, err := refcbor.Decode(it.bytes)
			if err != nil {
				continue
			}
			wrap := refcbor.Arr(root)
			mutateNode(g, wrap, 1+g.R.Intn(3))
			if len(wrap.Items) == 0 {
				continue
			}
			if g.R.Intn(4) == 0 {
				reencodeVariant(g, wrap.Items[0])
			}
			in = refcbor.Encode(wrap.Items[0])
			if g.R.Intn(3) == 0 && len(in) > 2 {
				// overwrite a random byte with a long-length header
				in[g.R.Intn(len(in))] = []byte{0x5a, 0x5b, 0x7a, 0x7b, 0x9a, 0x9b, 0xba, 0xbb, 0xda, 0xdb, 0xb9, 0x99}[g.R.Intn(12)]
			}
		}
		m.run(fam, "mutant:"+it.kind, in)
		if i%20 == 0 {
			c.Sig("mutant|" + fam + "|" + it.kind)
		}
	}
	// ---- LATE REGISTRATION (seeded fault C06-v: a cache of profile member names that is
	// rebuilt - by appending - whenever its length differs from the register's): in the
	// last shard only, and as the very last thing it does, a profile is registered AFTER
	// thousands of JSON decodes, then the same small profile-less documents are decoded
	// 5000 more times: the cost of call number k must not depend on k.
	if c.Shard == c.NShards-1 {
		docs := [][]byte{}
		for p := 1; p <= 2; p++ {
			a := g.Valid(p)
			a.Profile = nil
			docs = append(docs, a.WireJSON())
		}
		docs = append(docs, []byte(`{"psa-client-id":1}`), []byte(`{}`))
		for i := 0; i < 20; i++ {
			m.run("json", "before-late-registration", docs[i%len(docs)])
		}
		if err := psatoken.RegisterProfile(extprof.NumberedProfile{Name: "http://example.com/c06/late-registration", Base: 2}); err != nil {
			c.Violation("harness/register", "late registration failed: "+err.Error(), nil)
		}
		for i := 0; i < 5000; i++ {
			m.run("json", "after-late-registration", docs[i%len(docs)])
		}
		c.Sig("late-registration")
	}
	c.Extra("bound", "allocated_bytes <= 1 MiB + 1 KiB x len(input); thread CPU <= 5 s")
	c.Extra(fmt.Sprintf("shard_%d_worst_case", c.Shard), map[string]any{"max_alloc_over_bound_ratio": m.maxRate, "max_allocated_bytes": m.maxAbs, "max_cpu_s": m.maxCPU, "case": m.worst})
	c.Floor("metered-calls", 100000)
	c.Floor("inputs:length-bomb:top-level", 100)
	c.Floor("inputs:length-bomb:claim-value", 1000)
	c.Floor("accepted", 1000)
	c.Floor("meter-control-ok", 1)
}

var sink []byte
