package props

import (
	"bytes"
	"crypto/x509"
	"embed"
	"encoding/pem"
	"fmt"

	"github.com/veraison/psatoken"

	"verif/harness/extprof"
	"verif/harness/keys"
	"verif/harness/model"
	"verif/harness/mon"
	"verif/harness/refcbor"
	"verif/harness/refcose"
)

//go:embed tfm/*
var tfmFS embed.FS

func init() { register("C20", runC20) }

// envelopeVerdict is the independent reading of an envelope: ok = it has
// exactly the shape the property requires; open = the property leaves the
// case undetermined (tag-wrapped claims map as payload).
func envelopeVerdict(tok []byte) (ok, open bool, why string) {
	env, err := refcose.Parse(tok)
	if err != nil {
		return false, false, "unreadable: " + err.Error()
	}
	if wf, w := env.WellFormedSign1(); !wf {
		return false, false, w
	}
	pn, rest, err := refcbor.Decode(env.Payload)
	switch {
	case err != nil:
		return false, false, "payload content is not well-formed CBOR"
	case len(rest) != 0:
		return false, false, "payload content has trailing bytes"
	case pn.K == refcbor.Map:
		return true, false, ""
	case pn.K == refcbor.Tag:
		in := pn
		for in.K == refcbor.Tag {
			in = in.Items[0]
		}
		if in.K == refcbor.Map {
			return false, true, "payload is a tagged map (open encoding)"
		}
	}
	return false, false, "payload content is not a map: " + kindOf(pn)
}

func kindOf(n *refcbor.Node) string {
	switch n.K {
	case refcbor.Uint:
		return "uint"
	case refcbor.Nint:
		return "nint"
	case refcbor.Bytes:
		return "bstr"
	case refcbor.Text:
		return "tstr"
	case refcbor.Array:
		return "array"
	case refcbor.Map:
		return "map"
	case refcbor.Tag:
		return "tag"
	case refcbor.Float:
		return "float"
	case refcbor.Simple:
		switch n.U {
		case 20:
			return "false"
		case 21:
			return "true"
		case 22:
			return "null"
		case 23:
			return "undefined"
		}
		return "simple"
	}
	return "other"
}

// c20Good is a known-good token used to put an Evidence into a non-pristine state.
var c20Good []byte

func c20Judge(c *mon.Ctx, class string, tok []byte, mustAccept bool) {
	c.Eval()
	c.Count("envelopes:" + class)
	var ev *psatoken.Evidence
	var err error
	var ev2 psatoken.Evidence
	var err2, err3, err4 error
	if pn, pv, fr := mon.Guard(func() {
		ev, err = psatoken.DecodeEvidenceFromCOSE(tok)
		err2 = ev2.UnmarshalCOSE(tok)
		// Evidence objects that are not pristine: claims already attached /
		// a good token already decoded
		if c20Good != nil {
			pre, _ := psatoken.NewClaims(model.P2Name)
			ev3 := &psatoken.Evidence{Claims: pre}
			err3 = ev3.UnmarshalCOSE(tok)
			ev4 := &psatoken.Evidence{}
			if ev4.UnmarshalCOSE(c20Good) == nil {
				err4 = ev4.UnmarshalCOSE(tok)
			} else {
				err4 = err
			}
		} else {
			err3, err4 = err, err
		}
	}); pn {
		c.Violation("C20/panic/"+mon.PanicKey(fr), "panic while decoding an envelope", map[string]any{"panic": pv, "frame": fr, "class": class, "token_hex": mon.Hex(tok)})
		return
	}
	det := map[string]any{"class": class, "token_hex": mon.Hex(tok), "error": fmt.Sprint(err)}
	if n, _, derr := refcbor.Decode(tok); derr == nil {
		d := n.Diag()
		if len(d) > 1500 {
			d = d[:1500] + "..."
		}
		det["diag"] = d
	}
	if (err == nil) != (err2 == nil) {
		c.Violation("C20/entry-points-disagree/"+class, fmt.Sprintf("DecodeEvidenceFromCOSE (%v) and Evidence.UnmarshalCOSE (%v) disagree", err, err2), det)
		return
	}
	if (err == nil) != (err3 == nil) || (err == nil) != (err4 == nil) {
		c.Violation("C20/reused-evidence-disagrees/"+class, fmt.Sprintf("the same envelope is judged differently by a fresh Evidence (%v), one with claims already attached (%v) and one that decoded a good token before (%v)", err, err3, err4), det)
		return
	}
	c.Count("reused-evidence-agreed")
	ok, open, why := envelopeVerdict(tok)
	if err != nil {
		c.Count("outcome:rejected")
		if mustAccept {
			c.Violation("C20/control-rejected/"+class, "a well-formed COSE_Sign1 carrying a decodable claims map was rejected: "+err.Error(), det)
		}
		if ok {
			c.Count("rejected-although-shape-ok") // allowed by an only-if property (e.g. claims of wrong type)
		}
		return
	}
	c.Count("outcome:accepted")
	det["why"] = why
	switch {
	case ok:
		c.Count("accepted-well-formed")
	case open:
		c.Count("accepted-open-encoding")
		return
	default:
		c.Violation("C20/accepted-malformed/"+class, "DecodeEvidenceFromCOSE accepted an envelope that is not a well-formed tagged COSE_Sign1 with a claims-map payload: "+why, det)
		return
	}
	// accepted and well-formed: the Evidence must hold exactly these parts
	// and expose claims decoded from that payload.
	env, _ := refcose.Parse(tok)
	if ev == nil || ev.Claims == nil {
		c.Violation("C20/accepted-without-claims/"+class, "decode succeeded but no claims are attached", det)
		return
	}
	if _, derr := psatoken.DecodeClaimsFromCBOR(env.Payload); derr != nil {
		c.Violation("C20/accepted-undecodable-payload/"+class, "envelope accepted although its payload does not decode as claims: "+derr.Error(), det)
		return
	}
	present, prot, pay, sg, herr := hookEnvelope(ev)
	if herr != nil || !present || !bytes.Equal(pay, env.Payload) || !bytes.Equal(sg, env.Signature) || !bytes.Equal(prot, env.ProtectedBS) {
		c.Violation("C20/held-envelope-differs/"+class, fmt.Sprintf("the Evidence holds other protected/payload/signature bytes than the token carries (present=%v err=%v)", present, herr), det)
	}
}

// c20Mistyped: the payload is a map, but one that cannot be decoded as claims
// (a known claim carries a value its Go type cannot hold) - "whose payload is
// itself a decodable claims map" fails, so the envelope must be rejected.
func c20Mistyped(c *mon.Ctx, class string, tok []byte) {
	c.Eval()
	c.Count("envelopes:payload-mistyped-claim")
	var err, err2 error
	var ev2 psatoken.Evidence
	if pn, pv, fr := mon.Guard(func() {
		_, err = psatoken.DecodeEvidenceFromCOSE(tok)
		err2 = ev2.UnmarshalCOSE(tok)
	}); pn {
		c.Violation("C20/panic/"+mon.PanicKey(fr), "panic while decoding an envelope", map[string]any{"panic": pv, "frame": fr, "class": class, "token_hex": mon.Hex(tok)})
		return
	}
	if err == nil || err2 == nil {
		d := map[string]any{"class": class, "token_hex": mon.Hex(tok)}
		if n, _, derr := refcbor.Decode(tok); derr == nil {
			d["diag"] = trunc(n.Diag(), 1500)
		}
		c.Violation("C20/accepted-undecodable-claims/"+class, "an envelope was accepted although its payload map carries a known claim with a value of a type that cannot be decoded into it", d)
		return
	}
	c.Count("outcome:rejected")
}

func runC20(c *mon.Ctx) {
	c.Rule("envelopes assembled by the harness's own CBOR encoder around real signed tokens (7 algorithms, both profiles + extension): every tag 0..30 / 61 / 96 / 97 / 98 / none / nested / non-minimal; array lengths 0..6; each of the four elements replaced by every CBOR kind (uint, nint, bstr, empty bstr, tstr, array, map, tag, false, true, null, undefined, float); payload := a claims map of either profile in which one known claim (or a component / component field) carries a value of an undecodable type (27 kinds, incl. the EAT profile key 265 of a non-text type on tokens of either profile and component lists holding null / undefined entries); every tag number 0..300; tags 601 / 602 / 603 / 61 / 55799 / 1000 / 65535 / 65536 around the 4-array, around the tagged token and around the bare claims-set; the bare claims-set; payload content := int / tstr / array / null / undefined / true / float / bstr(map) / bstr(bstr(map)) / tagged map / map+trailing / empty / truncated map / indefinite map; null / undefined behind tags of every argument width (8-byte tag numbers with leading octets 00, 80, a0, a1, b8, bf); the non-map payloads again under protected headers carrying CWT claims (label 15) that name a registered profile, a content type, a key id; 1-8 trailing bytes, also after genuine tokens padded (unprotected header parameter) to exactly 4096 / 32768 / 65535 / 65536 / 65537 / 131072 / 262144 bytes (control: the padded token itself is accepted); COSE_Sign, COSE_Mac0, COSE_Mac, COSE_Encrypt0 layouts under their own tag and under tag 18; the four TF-M vectors (both *_mac0.bin must be rejected, both *_sign1.bin accepted); random AST mutations. tag numbers whose low-order bytes are 18 (0x112, 0x1212, 2^16+18, 2^32+18 ...) in every argument width. Every envelope is judged by DecodeEvidenceFromCOSE, by UnmarshalCOSE on a fresh Evidence, on an Evidence with claims already attached, and on an Evidence that decoded a good token before - all four must agree. Oracle: a nil error from DecodeEvidenceFromCOSE / Evidence.UnmarshalCOSE requires that the independent reader sees tag 18 -> array of exactly 4 -> [bstr, map, bstr, non-empty bstr], nothing after it, and a payload whose content is exactly one CBOR map that decodes as claims (tagged map = NO-VERDICT); both entry points must agree; an accepted Evidence must hold (hook H2) exactly the token's parts; unmodified tokens must be accepted (positive control). distinct_nontrivial = distinct (class, variant) signatures")
	if err := extprof.Register(extprof.ExtP2Name); err != nil {
		c.Violation("harness/register", err.Error(), nil)
		return
	}
	g := model.NewGen(c.Seed*6151 + int64(c.Shard))

	// TF-M vectors (shard 0 only)
	if c.Shard == 0 {
		for _, v := range []struct {
			file   string
			accept bool
		}{{"tfm/psa-iot-1_sign1.bin", true}, {"tfm/psa-2_0_0_sign1.bin", true}, {"tfm/psa-iot-1_mac0.bin", false}, {"tfm/psa-2_0_0_mac0.bin", false}} {
			b, err := tfmFS.ReadFile(v.file)
			if err != nil {
				c.Inconclusive("embedded TF-M vector missing: " + v.file)
				continue
			}
			c20Judge(c, "tfm:"+v.file[4:], b, v.accept)
			_, derr := psatoken.DecodeEvidenceFromCOSE(b)
			if !v.accept && derr == nil {
				c.Violation("C20/mac0-accepted/"+v.file[4:], "a COSE_Mac0 TF-M token was accepted as evidence", map[string]any{"file": v.file})
			}
			if v.accept {
				pb, _ := tfmFS.ReadFile("tfm/public.pem")
				blk, _ := pem.Decode(pb)
				if blk != nil {
					if pk, err := x509.ParsePKIXPublicKey(blk.Bytes); err == nil {
						ev, _ := psatoken.DecodeEvidenceFromCOSE(b)
						if ev != nil && ev.Verify(pk) == nil {
							c.Count("tfm-sign1-verified")
						}
					}
				}
			}
			c.Sig("tfm|" + v.file)
		}
	}

	kinds := func() []struct {
		name string
		n    *refcbor.Node
	} {
		return []struct {
			name string
			n    *refcbor.Node
		}{
			{"uint", refcbor.U(uint64(g.R.Intn(1000)))}, {"nint", refcbor.I(-1 - int64(g.R.Intn(1000)))},
			{"bstr", refcbor.Bstr(g.Bytes(1 + g.R.Intn(40)))}, {"empty-bstr", refcbor.Bstr(nil)},
			{"tstr", refcbor.Tstr("text")}, {"empty-tstr", refcbor.Tstr("")},
			{"array", refcbor.Arr(refcbor.U(1), refcbor.Bstr([]byte{1}))}, {"empty-array", refcbor.Arr()},
			{"map", refcbor.MapOf(refcbor.U(1), refcbor.I(-7))}, {"empty-map", refcbor.MapOf()},
			{"tagged-bstr", refcbor.Tagged(24, refcbor.Bstr(g.Bytes(8)))}, {"tagged-map", refcbor.Tagged(55799, refcbor.MapOf())},
			{"false", refcbor.Bool(false)}, {"true", refcbor.Bool(true)}, {"null", refcbor.Null()}, {"undefined", refcbor.Undef()},
			{"float", refcbor.Flt(1.5, 8)}, {"float16", refcbor.Flt(1.0, 2)},
		}
	}

	rounds := c.N(320, 16000)
	for r := 0; r < rounds; r++ {
		alg := keys.AlgNames[(r+c.Shard)%7]
		k := keys.New(alg, g.R.Intn(3))
		vc, ok := genSignable(c, g)
		if !ok {
			continue
		}
		st, err := signWith(vc.x, vc.a, k, true)
		if err != nil {
			c.Violation("C20/sign-failed/"+alg, "could not sign a valid claims-set: "+err.Error(), nil)
			continue
		}
		P := func() *refcbor.Node { return refcbor.Bstr(st.env.ProtectedBS) }
		U := func() *refcbor.Node { return refcbor.MapOf() }
		Y := func() *refcbor.Node { return refcbor.Bstr(st.env.Payload) }
		S := func() *refcbor.Node { return refcbor.Bstr(st.env.Signature) }
		parts := func() []*refcbor.Node { return []*refcbor.Node{P(), U(), Y(), S()} }
		base := alg + "|" + profName(vc.a)
		sig := func(s string) { c.Sig(s) } // class signatures are algorithm independent on purpose
		_ = base

		c20Good = st.tok
		// positive controls
		c20Judge(c, "control:library-token", st.tok, true)
		c20Judge(c, "control:reassembled", envelopeBytes(18, parts()...), true)
		withU := refcbor.MapOf(refcbor.I(4), refcbor.Bstr([]byte("kid-1")))
		c20Judge(c, "control:unprotected-kid", envelopeBytes(18, P(), withU, Y(), S()), true)
		c.Count("controls:" + alg)

		// every tag number 31..300 (one-byte arguments and the first two-byte ones)
		if r%4 == 0 {
			for t := int64(31); t <= 300; t++ {
				c20Judge(c, "tag", envelopeBytes(t, parts()...), false)
			}
			sig("tag|31..300")
		}
		// tags EAT / CWT define for other kinds of token, around the 4-array and around
		// the bare claims-set (an "unprotected claims set" is not a COSE_Sign1)
		for _, t := range []int64{601, 602, 603, 61, 55799, 1000, 65535, 65536} {
			c20Judge(c, fmt.Sprintf("tag-%d-around-envelope", t), envelopeBytes(t, parts()...), false)
			c20Judge(c, fmt.Sprintf("tag-%d-around-bare-claims", t), refcbor.Encode(refcbor.Tagged(uint64(t), refcbor.Raw(st.env.Payload))), false)
			c20Judge(c, fmt.Sprintf("tag-%d-around-tagged-envelope", t), refcbor.Encode(refcbor.Tagged(uint64(t), refcbor.Raw(st.tok))), false)
		}
		c20Judge(c, "bare-claims", st.env.Payload, false)
		sig("tag|eat-cwt-tags")
		// tags
		for t := int64(-1); t <= 30; t++ {
			if t == 18 {
				continue
			}
			c20Judge(c, "tag", envelopeBytes(t, parts()...), false)
			sig(fmt.Sprintf("tag|%d", t))
		}
		// tag numbers whose low-order byte(s) are 18: a parser that truncates the argument takes them for tag 18
		for _, t := range []uint64{0x112, 0x212, 0x1212, 0xff12, 0x10012, 0x120012, 0x12000012, 0x100000012, 0x1200, 0x120000, 0x12 << 56, 0x1200000000000012, 18 + 256, 18 + 65536, 18 + 1<<32} {
			for _, w := range []int{0, 2, 4, 8} {
				if w != 0 && w != 8 && t >= 1<<(8*uint(w)) {
					continue
				}
				c20Judge(c, "tag-with-low-byte-18", refcbor.Encode(refcbor.Tagged(t, refcbor.Arr(parts()...)).WithArgW(w)), false)
			}
			sig(fmt.Sprintf("tag-low-byte-18|%x", t))
		}
		for _, t := range []uint64{61, 96, 97, 98, 55799, 1 << 32} {
			c20Judge(c, "tag", envelopeBytes(int64(t), parts()...), false)
			sig(fmt.Sprintf("tag|%d", t))
			c20Judge(c, "nested-tag", refcbor.Encode(refcbor.Tagged(t, refcbor.Tagged(18, refcbor.Arr(parts()...)))), false)
			c20Judge(c, "nested-tag", refcbor.Encode(refcbor.Tagged(18, refcbor.Tagged(t, refcbor.Arr(parts()...)))), false)
			sig(fmt.Sprintf("nested-tag|%d", t))
		}
		c20Judge(c, "nested-tag", refcbor.Encode(refcbor.Tagged(18, refcbor.Tagged(18, refcbor.Arr(parts()...)))), false)
		for _, w := range []int{1, 2, 4, 8} {
			c20Judge(c, "tag18-non-minimal", refcbor.Encode(refcbor.Tagged(18, refcbor.Arr(parts()...)).WithArgW(w)), false)
			c20Judge(c, "array-header-non-minimal", refcbor.Encode(refcbor.Tagged(18, refcbor.Arr(parts()...).WithArgW(w))), false)
			sig(fmt.Sprintf("non-minimal|%d", w))
		}
		c20Judge(c, "array-indefinite", refcbor.Encode(refcbor.Tagged(18, refcbor.Arr(parts()...).AsIndef())), false)
		c20Judge(c, "bstr-wrapped-envelope", refcbor.Encode(refcbor.Bstr(st.tok)), false)
		c20Judge(c, "tag18-of-bstr-envelope", refcbor.Encode(refcbor.Tagged(18, refcbor.Bstr(refcbor.Encode(refcbor.Arr(parts()...))))), false)

		// array lengths 0..6
		for l := 0; l <= 6; l++ {
			if l == 4 {
				continue
			}
			ps := parts()
			for len(ps) < l {
				ps = append(ps, kinds()[g.R.Intn(18)].n)
			}
			c20Judge(c, "array-length", envelopeBytes(18, ps[:l]...), false)
			sig(fmt.Sprintf("array-length|%d", l))
		}
		// each element replaced by every kind
		for pos := 0; pos < 4; pos++ {
			for _, kd := range kinds() {
				ps := parts()
				ps[pos] = kd.n
				// legitimate replacements: another bstr for protected is not
				// legitimate for go-cose unless it is a map; the oracle only
				// requires shape, so nothing here "must" be accepted.
				c20Judge(c, fmt.Sprintf("element%d:=%s", pos, kd.name), envelopeBytes(18, ps...), false)
				sig(fmt.Sprintf("element|%d|%s", pos, kd.name))
			}
		}
		// payload content variants
		claimsMap, _ := refcbor.DecodeAll(st.env.Payload)
		pv := []struct {
			name string
			b    []byte
		}{
			{"int", refcbor.Encode(refcbor.U(7))}, {"nint", refcbor.Encode(refcbor.I(-3))}, {"tstr", refcbor.Encode(refcbor.Tstr("claims"))},
			{"array", refcbor.Encode(refcbor.Arr(refcbor.U(1)))}, {"array-of-map", refcbor.Encode(refcbor.Arr(claimsMap))},
			{"null", []byte{0xf6}}, {"undefined", []byte{0xf7}}, {"true", []byte{0xf5}}, {"false", []byte{0xf4}},
			{"float", refcbor.Encode(refcbor.Flt(2.5, 8))}, {"simple-16", []byte{0xf0}},
			{"bstr(map)", refcbor.Encode(refcbor.Bstr(st.env.Payload))}, {"bstr(bstr(map))", refcbor.Encode(refcbor.Bstr(refcbor.Encode(refcbor.Bstr(st.env.Payload))))},
			{"tagged-map", refcbor.Encode(refcbor.Tagged(uint64(g.R.Intn(300)), claimsMap))}, {"tagged-null", refcbor.Encode(refcbor.Tagged(1000, refcbor.Null()))},
			{"map+trailing", append(append([]byte{}, st.env.Payload...), g.Bytes(1+g.R.Intn(4))...)}, {"null+map", append([]byte{0xf6}, st.env.Payload...)},
			{"empty", nil}, {"truncated-map", st.env.Payload[:len(st.env.Payload)/2]},
			{"indefinite-map", refcbor.Encode(claimsMap.AsIndef())}, {"empty-map", []byte{0xa0}},
			{"the-whole-token", st.tok},
		}
		// null / undefined behind tags of every argument width, 8-byte tag numbers
		// whose leading octet looks like a map head included
		for _, inner := range []*refcbor.Node{refcbor.Null(), refcbor.Undef()} {
			for _, w := range []int{0, 1, 2, 4, 8} {
				for _, lead := range []uint64{0x00, 0x80, 0xa0, 0xa1, 0xbf, 0xb8} {
					tn := uint64(1000 + g.R.Intn(1000))
					if w == 8 {
						tn = lead<<56 | uint64(g.R.Intn(1<<20))
					} else if lead != 0 {
						continue
					}
					if w == 0 {
						tn = uint64(6 + g.R.Intn(17)) // immediate tag numbers 6..22
					}
					tg := refcbor.Tagged(tn, inner)
					if w > 1 || w == 1 {
						tg = tg.WithArgW(w)
					}
					pv = append(pv, struct {
						name string
						b    []byte
					}{fmt.Sprintf("tag-width%d-lead%02x(%s)", w, lead, inner.Diag()), refcbor.Encode(tg)})
				}
			}
		}
		for _, v := range pv {
			c20Judge(c, "payload:"+v.name, envelopeBytes(18, P(), U(), refcbor.Bstr(v.b), S()), false)
			sig("payload|" + v.name)
		}
		// the same non-claims payloads under protected headers that carry more than
		// the algorithm: CWT claims (label 15) naming a registered profile, content
		// type, key id - nothing in a header makes a non-map payload a claims-set
		{
			algv := refcbor.I(coseAlgID[st.key.Name])
			hdrs := []*refcbor.Node{
				refcbor.MapOf(refcbor.I(1), algv, refcbor.I(15), refcbor.MapOf(refcbor.I(265), refcbor.Tstr(model.P2Name))),
				refcbor.MapOf(refcbor.I(1), algv, refcbor.I(15), refcbor.MapOf(refcbor.I(265), refcbor.Tstr(model.P1Name))),
				refcbor.MapOf(refcbor.I(1), algv, refcbor.I(15), refcbor.MapOf(refcbor.I(265), refcbor.Tstr(extprof.ExtP2Name), refcbor.I(1), refcbor.Tstr("issuer"))),
				refcbor.MapOf(refcbor.I(1), algv, refcbor.I(3), refcbor.Tstr("application/eat-cwt"), refcbor.I(4), refcbor.Bstr([]byte("kid"))),
			}
			for hi, hd := range hdrs {
				for _, v := range pv[:12] {
					c20Judge(c, fmt.Sprintf("header-variant-%d+payload:%s", hi, v.name), envelopeBytes(18, refcbor.Bstr(refcbor.Encode(hd)), U(), refcbor.Bstr(v.b), S()), false)
				}
				sig(fmt.Sprintf("header-variant|%d", hi))
			}
		}
		// payload = a MAP that cannot be a claims-set: a known claim of either
		// profile carries a value of a type that cannot be decoded into it
		for p := 1; p <= 2; p++ {
			intKey, bstrKey, tstrKey := model.KeyOf(p, "client-id"), model.KeyOf(p, "impl-id"), model.KeyOf(p, "vsi")
			lcKey, compKey := model.KeyOf(p, "lifecycle"), model.KeyOf(p, "sw-components")
			for _, mt := range []struct {
				name string
				k    int64
				v    *refcbor.Node
			}{
				{"text-for-int", intKey, refcbor.Tstr("7")}, {"bstr-for-int", lcKey, refcbor.Bstr([]byte{0x30, 0x00})}, {"array-for-int", intKey, refcbor.Arr(refcbor.U(1))},
				{"map-for-int", lcKey, refcbor.MapOf()}, {"float-for-int", lcKey, refcbor.Flt(12288.5, 8)}, {"too-wide-for-uint16", lcKey, refcbor.U(70000)}, {"negative-for-uint16", lcKey, refcbor.I(-1)},
				{"uint-for-bstr", bstrKey, refcbor.U(5)}, {"text-for-bstr", bstrKey, refcbor.Tstr("x")}, {"map-for-bstr", bstrKey, refcbor.MapOf()},
				{"uint-for-text", tstrKey, refcbor.U(5)}, {"bstr-for-text", tstrKey, refcbor.Bstr([]byte("x"))}, {"array-for-text", tstrKey, refcbor.Arr()},
				{"uint-for-component-list", compKey, refcbor.U(1)}, {"map-for-component-list", compKey, refcbor.MapOf()}, {"list-of-uints-for-components", compKey, refcbor.Arr(refcbor.U(1))},
				{"component-with-text-measurement-value", compKey, refcbor.Arr(refcbor.MapOf(refcbor.U(2), refcbor.Tstr("x"), refcbor.U(5), refcbor.Bstr(g.Bytes(32))))},
				// the EAT profile claim (key 265, read by the dispatcher for every token) of a non-text type
				{"uint-for-eat-profile", model.P2KProfile, refcbor.U(42)}, {"bstr-for-eat-profile", model.P2KProfile, refcbor.Bstr([]byte(model.P2Name))}, {"array-for-eat-profile", model.P2KProfile, refcbor.Arr(refcbor.Tstr(model.P2Name))},
				{"map-for-eat-profile", model.P2KProfile, refcbor.MapOf()}, {"bool-for-eat-profile", model.P2KProfile, refcbor.Bool(true)}, {"float-for-eat-profile", model.P2KProfile, refcbor.Flt(2.0, 4)},
				// a well-formed list whose FIRST (non-last) entry has a member of an undecodable type
				{"component-list-with-mistyped-first-entry", compKey, refcbor.Arr(refcbor.MapOf(refcbor.U(2), refcbor.Bstr(g.Bytes(32)), refcbor.U(5), refcbor.Bstr(g.Bytes(32)), refcbor.U(4), refcbor.U(7)), refcbor.MapOf(refcbor.U(2), refcbor.Bstr(g.Bytes(32)), refcbor.U(5), refcbor.Bstr(g.Bytes(32))))},
				{"component-list-with-mistyped-middle-entry", compKey, refcbor.Arr(refcbor.MapOf(refcbor.U(2), refcbor.Bstr(g.Bytes(32)), refcbor.U(5), refcbor.Bstr(g.Bytes(32))), refcbor.MapOf(refcbor.U(2), refcbor.Tstr("x"), refcbor.U(5), refcbor.Bstr(g.Bytes(32))), refcbor.MapOf(refcbor.U(2), refcbor.Bstr(g.Bytes(32)), refcbor.U(5), refcbor.Bstr(g.Bytes(32))))},
				// entries of the component list that are no component at all
				{"component-list-with-undefined-entry", compKey, refcbor.Arr(refcbor.MapOf(refcbor.U(2), refcbor.Bstr(g.Bytes(32)), refcbor.U(5), refcbor.Bstr(g.Bytes(32))), refcbor.Undef())},
				{"component-list-of-undefined", compKey, refcbor.Arr(refcbor.Undef())}, {"component-list-with-null-entry", compKey, refcbor.Arr(refcbor.Null(), refcbor.MapOf(refcbor.U(2), refcbor.Bstr(g.Bytes(32)), refcbor.U(5), refcbor.Bstr(g.Bytes(32))))},
			} {
				a := g.Valid(p)
				w := a.WireCBOR()
				found := false
				for q := 0; q+1 < len(w.Items); q += 2 {
					if kk, _ := w.Items[q].Int64(); kk == mt.k {
						w.Items[q+1] = mt.v
						found = true
					}
				}
				if !found {
					w.Items = append(w.Items, refcbor.I(mt.k), mt.v)
				}
				c20Mistyped(c, fmt.Sprintf("payload:map-with-mistyped-claim:P%d:%s", p, mt.name), envelopeBytes(18, P(), U(), refcbor.Bstr(refcbor.Encode(w)), S()))
				sig(fmt.Sprintf("payload-mistyped|P%d|%s", p, mt.name))
			}
		}
		// trailing bytes
		for l := 1; l <= 8; l++ {
			c20Judge(c, "trailing-bytes", append(append([]byte{}, st.tok...), g.Bytes(l)...), false)
		}
		c20Judge(c, "trailing-second-token", append(append([]byte{}, st.tok...), st.tok...), false)
		sig("trailing")
		// the same for genuine tokens of EXACTLY 2^k (+-1) bytes, padded through an
		// unprotected header parameter (seeded fault C20-v: input silently clipped at
		// 64 KiB, which cuts a trailer off a token of exactly that size)
		for _, total := range []int{4096, 32768, 65535, 65536, 65537, 131072, 262144} {
			padTo := func(n int) []byte {
				l := n - len(st.tok) - 8
				for try := 0; try < 6 && l >= 0; try++ {
					t := sign1Bytes(st.env.ProtectedBS, refcbor.MapOf(refcbor.I(-70001), refcbor.Bstr(make([]byte, l))), st.env.Payload, st.env.Signature)
					if len(t) == n {
						return t
					}
					l += n - len(t)
				}
				return nil
			}
			if t := padTo(total); t != nil {
				c20Judge(c, "sized-token-control", t, true)
				for _, l := range []int{1, 2, 8, 64} {
					c20Judge(c, fmt.Sprintf("sized-token-%d+trailing-bytes", total), append(append([]byte{}, t...), g.Bytes(l)...), false)
				}
				c.Count("sized-tokens")
			}
		}
		sig("trailing-sized")
		// other COSE layouts
		signer := refcbor.Arr(P(), U(), S())
		layouts := []struct {
			name string
			tag  int64
			n    *refcbor.Node
		}{
			{"COSE_Sign", 98, refcbor.Arr(P(), U(), Y(), refcbor.Arr(signer))},
			{"COSE_Mac0", 17, refcbor.Arr(P(), U(), Y(), refcbor.Bstr(g.Bytes(32)))},
			{"COSE_Mac", 97, refcbor.Arr(P(), U(), Y(), refcbor.Bstr(g.Bytes(32)), refcbor.Arr(signer))},
			{"COSE_Encrypt0", 16, refcbor.Arr(P(), U(), Y())},
			{"COSE_Encrypt", 96, refcbor.Arr(P(), U(), Y(), refcbor.Arr(signer))},
		}
		for _, l := range layouts {
			c20Judge(c, "layout:"+l.name, refcbor.Encode(refcbor.Tagged(uint64(l.tag), l.n)), false)
			c20Judge(c, "layout:"+l.name+"-under-tag18", refcbor.Encode(refcbor.Tagged(18, l.n)), false)
			c20Judge(c, "layout:"+l.name+"-untagged", refcbor.Encode(l.n), false)
			sig("layout|" + l.name)
		}
		// random AST mutations
		for m := 0; m < 60; m++ {
			root := refcbor.Tagged(18, refcbor.Arr(parts()...))
			desc := mutateNode(g, root, 1+g.R.Intn(2))
			c20Judge(c, "ast-mutation", refcbor.Encode(root), false)
			sig("ast|" + desc)
		}
	}
	for _, alg := range keys.AlgNames {
		c.Floor("controls:"+alg, 1)
	}
	c.Floor("accepted-well-formed", 100)
	c.Floor("outcome:rejected", 5000)
	c.Floor("envelopes:tag", 1000)
}

// mutateNode applies k random structural edits somewhere in the tree and
// returns a short description (class of the edits).
func mutateNode(g *model.Gen, root *refcbor.Node, k int) string {
	desc := ""
	for ; k > 0; k-- {
		// collect parents
		var parents []*refcbor.Node
		var walk func(n *refcbor.Node)
		walk = func(n *refcbor.Node) {
			if len(n.Items) > 0 {
				parents = append(parents, n)
			}
			for _, it := range n.Items {
				walk(it)
			}
		}
		walk(root)
		if len(parents) == 0 {
			return desc
		}
		p := parents[g.R.Intn(len(parents))]
		i := g.R.Intn(len(p.Items))
		switch op := g.R.Intn(7); op {
		case 0:
			v, cls := g.SpecialNode()
			p.Items[i] = v
			desc += "replace:" + cls + ";"
		case 1:
			if p.K != refcbor.Tag {
				p.Items = append(p.Items[:i], p.Items[i+1:]...)
				desc += "delete;"
			}
		case 2:
			if p.K != refcbor.Tag {
				p.Items = append(p.Items, p.Items[i].Clone())
				desc += "duplicate;"
			}
		case 3:
			p.Items[i] = refcbor.Tagged(uint64(g.R.Intn(70000)), p.Items[i])
			desc += "tag-wrap;"
		case 4:
			p.Items[i] = refcbor.Arr(p.Items[i])
			desc += "array-wrap;"
		case 5:
			p.Items[i] = refcbor.Bstr(refcbor.Encode(p.Items[i]))
			desc += "bstr-wrap;"
		default:
			j := g.R.Intn(len(p.Items))
			p.Items[i], p.Items[j] = p.Items[j], p.Items[i]
			desc += "swap;"
		}
	}
	return desc
}
