// worker links the real library (built from /repo's working tree with the
// verif tag) and runs the workload + monitors of one property shard.
package main

import (
	"flag"
	"fmt"
	"os"

	"verif/harness/mon"
	"verif/harness/props"
)

func main() {
	prop := flag.String("prop", "", "property id")
	tier := flag.String("tier", "quick", "quick|thorough")
	seed := flag.Int64("seed", 1, "VERIF_SEED")
	shard := flag.Int("shard", 0, "shard index")
	nshards := flag.Int("nshards", 1, "number of shards")
	out := flag.String("out", ".", "output directory")
	resume := flag.Int64("resume", 0, "skip guarded cases up to this number")
	arg := flag.String("arg", "", "property-specific argument (sub-mode, replay file)")
	flag.Parse()

	fn, ok := props.Registry[*prop]
	if !ok {
		fmt.Fprintf(os.Stderr, "unknown property %q\n", *prop)
		os.Exit(3)
	}
	c := mon.New(*prop, *tier, *seed, *shard, *nshards, *out, *resume)
	c.Arg = *arg
	fn(c)
	c.Finish()
}
