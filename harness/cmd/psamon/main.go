// psamon is the supervisor of the runtime-monitoring checks. It does not link
// the library under test: it builds the worker from /repo's current working
// tree (build tag verif), runs the worker shards as child processes under a
// watchdog (and an address-space limit where hostile inputs are involved),
// attributes worker deaths to the in-flight input through the write-ahead
// log, merges what the monitors observed into the evidence file, matches
// violations against known_findings.json and prints the verdict lines.
package main

import (
	"bufio"
	"context"
	"encoding/binary"
	"encoding/json"
	"fmt"
	"os"
	"os/exec"
	"path/filepath"
	"regexp"
	"sort"
	"strconv"
	"strings"
	"sync"
	"time"

	"verif/harness/report"
)

type propCfg struct {
	Level     string
	RaceQuick bool
	RaceThor  bool
	Shards    int
	RlimitKB  int64 // address-space limit per worker (0 = none)
	ShardWall time.Duration
	Env       []string
	EnvThor   []string // additional environment in the thorough tier
}

var cfg = map[string]propCfg{
	"C01": {Level: "exploration"},
	"C02": {Level: "exploration"},
	"C03": {Level: "exploration"},
	"C04": {Level: "exploration"},
	"C05": {Level: "exploration", RlimitKB: 4 << 20},
	"C06": {Level: "exploration", RlimitKB: 4 << 20},
	"C07": {Level: "exploration"},
	"C08": {Level: "exploration"},
	"C09": {Level: "exploration"},
	"C10": {Level: "exploration"},
	"C11": {Level: "exploration"},
	"C12": {Level: "exploration"},
	"C13": {Level: "exploration"},
	"C14": {Level: "exploration"},
	"C15": {Level: "exploration"},
	"C16": {Level: "exploration", RaceThor: true},
	"C17": {Level: "exploration", RaceQuick: true, RaceThor: true, Shards: 4},
	"C18": {Level: "exploration", RaceThor: true, EnvThor: []string{"GOGC=1"}},
	"C19": {Level: "fault_enumeration"},
	"C20": {Level: "exploration"},
}

var verifDir string

func main() {
	if len(os.Args) < 3 {
		fmt.Fprintln(os.Stderr, "usage: psamon <property> <quick|thorough> | psamon replay <file>")
		os.Exit(2)
	}
	wd, _ := os.Getwd()
	verifDir = wd
	if _, err := os.Stat(filepath.Join(verifDir, "harness", "go.mod")); err != nil {
		fmt.Println("INCONCLUSIVE reason=psamon must run with cwd=/verif")
		os.Exit(2)
	}
	os.Setenv("GOFLAGS", "-mod=mod")
	os.Setenv("GOPROXY", "off")
	os.Setenv("GOSUMDB", "off")
	os.Setenv("GOTOOLCHAIN", "local")

	if os.Args[1] == "replay" {
		os.Exit(replay(os.Args[2]))
	}
	prop, tier := os.Args[1], os.Args[2]
	if tier != "quick" && tier != "thorough" {
		if t := os.Getenv("VERIF_TIER"); t == "quick" || t == "thorough" {
			tier = t
		} else {
			tier = "quick"
		}
	}
	seed := int64(1)
	if s := os.Getenv("VERIF_SEED"); s != "" {
		if v, err := strconv.ParseInt(s, 10, 64); err == nil {
			seed = v
		}
	}
	os.Exit(run(prop, tier, seed, -1, nil))
}

type shardResult struct {
	sums      []report.Summary
	sigs      map[uint64]struct{}
	crashes   []report.Violation
	restarts  int
	inconcl   []string
	evalsLost int64
}

func run(prop, tier string, seed int64, onlyShard int, onlyKeys map[string]bool) int {
	replayMode := onlyKeys != nil
	pc, ok := cfg[prop]
	if !ok {
		fmt.Printf("INCONCLUSIVE property=%s reason=unknown-property\n", prop)
		return 2
	}
	start := time.Now()
	work := filepath.Join(verifDir, ".work", prop+"-"+tier)
	if replayMode {
		work += "-replay"
	}
	if m := os.Getenv("VERIF_MODFILE"); m != "" {
		work += "-dev-" + strings.TrimSuffix(filepath.Base(m), ".mod")
	}
	os.RemoveAll(work)
	os.MkdirAll(work, 0o755)

	race := (tier == "quick" && pc.RaceQuick) || (tier == "thorough" && pc.RaceThor)
	worker := filepath.Join(work, "worker")
	args := []string{"build", "-tags", "verif"}
	if race {
		args = append(args, "-race")
	}
	// development aid only (never set by a registered command): build the worker
	// against a scratch copy of the library named by an alternative go.mod, e.g. to
	// try a check while /repo is temporarily patched by a seeded-fault run. Work
	// files, replays and evidence of such a run go to .work/<prop>-<tier>-dev/.
	devMod := os.Getenv("VERIF_MODFILE")
	if devMod != "" {
		args = append(args, "-modfile="+devMod)
		fmt.Printf("NOTE: development run, worker built with -modfile=%s (no evidence written)\n", devMod)
	}
	args = append(args, "-o", worker, "./cmd/worker")
	cmd := exec.Command("go", args...)
	cmd.Dir = filepath.Join(verifDir, "harness")
	if out, err := cmd.CombinedOutput(); err != nil {
		fmt.Printf("worker build failed:\n%s\n", out)
		fmt.Printf("INCONCLUSIVE property=%s reason=worker-build-failed\n", prop)
		return 2
	}

	nshards := pc.Shards
	if nshards == 0 {
		nshards = 16
	}
	wall := pc.ShardWall
	if wall == 0 {
		wall = 15 * time.Minute
		if tier == "thorough" {
			wall = 90 * time.Minute
		}
	}

	results := make([]*shardResult, nshards)
	var wg sync.WaitGroup
	for s := 0; s < nshards; s++ {
		if onlyShard >= 0 && s != onlyShard {
			results[s] = &shardResult{sigs: map[uint64]struct{}{}}
			continue
		}
		wg.Add(1)
		go func(s int) {
			defer wg.Done()
			results[s] = runShard(prop, tier, seed, s, nshards, work, worker, pc, race, wall)
		}(s)
	}
	wg.Wait()

	// ---- merge ----
	merged := report.Summary{Counters: map[string]int64{}, ViolCounts: map[string]int64{}, Extras: map[string]any{}, Floors: map[string]int64{}}
	sigs := map[uint64]struct{}{}
	sets := map[string]map[string]struct{}{}
	var inconcl []string
	restarts := 0
	var viols []report.Violation
	exhaustive := true
	sawSummary := false
	for _, r := range results {
		restarts += r.restarts
		inconcl = append(inconcl, r.inconcl...)
		viols = append(viols, r.crashes...)
		for _, cv := range r.crashes {
			merged.ViolCounts[cv.Key]++
		}
		merged.Evals += r.evalsLost
		for h := range r.sigs {
			sigs[h] = struct{}{}
		}
		for _, s := range r.sums {
			sawSummary = true
			merged.Evals += s.Evals
			for k, v := range s.Counters {
				merged.Counters[k] += v
			}
			for k, v := range s.ViolCounts {
				merged.ViolCounts[k] += v
			}
			for k, v := range s.Floors {
				if v > merged.Floors[k] {
					merged.Floors[k] = v
				}
			}
			for k, v := range s.Extras {
				merged.Extras[k] = v
			}
			for k, l := range s.Sets {
				if sets[k] == nil {
					sets[k] = map[string]struct{}{}
				}
				for _, m := range l {
					sets[k][m] = struct{}{}
				}
			}
			if len(merged.Samples) < 16 {
				for _, sm := range s.Samples {
					if len(merged.Samples) < 16 {
						merged.Samples = append(merged.Samples, sm)
					}
				}
			}
			viols = append(viols, s.Violations...)
			inconcl = append(inconcl, s.Inconclusive...)
			if s.Rule != "" {
				merged.Rule = s.Rule
			}
			if !s.Exhaustive {
				exhaustive = false
			}
			for _, a := range s.Assumptions {
				found := false
				for _, b := range merged.Assumptions {
					if a == b {
						found = true
					}
				}
				if !found {
					merged.Assumptions = append(merged.Assumptions, a)
				}
			}
		}
	}
	if !sawSummary {
		exhaustive = false
	}

	// ---- race reports ----
	raceReports, raceDistinct := 0, 0
	if race {
		var rv []report.Violation
		raceReports, rv = collectRaces(prop, work)
		raceDistinct = len(rv)
		for _, v := range rv {
			merged.ViolCounts[v.Key]++
		}
		viols = append(viols, rv...)
	}

	// ---- floors ----
	if !replayMode {
		for k, min := range merged.Floors {
			if merged.Counters[k] < min {
				inconcl = append(inconcl, fmt.Sprintf("floor not reached: %s=%d < %d", k, merged.Counters[k], min))
			}
		}
	}

	// ---- known findings ----
	known := loadKnown(prop)
	knownHit := map[string]int64{}
	var unknownKeys []string
	for k, n := range merged.ViolCounts {
		if onlyKeys != nil && !onlyKeys[k] {
			continue
		}
		if _, ok := known[k]; ok {
			knownHit[k] = n
		} else {
			unknownKeys = append(unknownKeys, k)
		}
	}
	sort.Strings(unknownKeys)

	status := 0
	var klist []string
	for k := range knownHit {
		klist = append(klist, k)
	}
	sort.Strings(klist)
	for _, k := range klist {
		fmt.Printf("KNOWN-FINDING: property=%s %s [key=%s, %d occurrence(s) this run]\n", prop, known[k], k, knownHit[k])
	}
	os.MkdirAll(filepath.Join(verifDir, "replays"), 0o755)
	for i, k := range unknownKeys {
		status = 1
		var ex *report.Violation
		for j := range viols {
			if viols[j].Key == k {
				ex = &viols[j]
				break
			}
		}
		rp := filepath.Join(verifDir, "replays", fmt.Sprintf("%s-%s-%d-%d.json", prop, tier, seed, i))
		if devMod != "" {
			rp = filepath.Join(verifDir, "replays", fmt.Sprintf("%s-%s-%d-%d-%s.json", prop, tier, seed, i, strings.TrimSuffix(filepath.Base(devMod), ".mod")))
		}
		rec := map[string]any{"property": prop, "key": k, "occurrences": merged.ViolCounts[k], "tier": tier, "seed": seed}
		if ex != nil {
			rec["what"] = ex.What
			rec["detail"] = ex.Detail
		}
		b, _ := json.MarshalIndent(rec, "", " ")
		os.WriteFile(rp, b, 0o644)
		what := ""
		if ex != nil {
			what = ex.What
		}
		fmt.Printf("VIOLATION property=%s replay=%s key=%s occurrences=%d what=%s\n", prop, rp, k, merged.ViolCounts[k], oneLine(what))
	}
	if status == 0 && len(inconcl) > 0 {
		status = 2
		seen := map[string]bool{}
		for _, r := range inconcl {
			if !seen[r] {
				seen[r] = true
				fmt.Printf("INCONCLUSIVE property=%s reason=%s\n", prop, oneLine(r))
			}
		}
	}

	// ---- evidence ----
	if !replayMode {
		cov := map[string]any{
			"evaluations":             merged.Evals,
			"distinct_nontrivial":     len(sigs),
			"rule":                    merged.Rule,
			"samples":                 merged.Samples,
			"counters":                merged.Counters,
			"worker_shards":           nshards,
			"worker_restarts":         restarts,
			"known_findings_hit":      knownHit,
			"unlisted_violation_keys": unknownKeys,
			"inconclusive":            inconcl,
		}
		if exhaustive {
			cov["exhaustive"] = true
		}
		for k, v := range merged.Extras {
			cov[k] = v
		}
		for k, m := range sets {
			var l []string
			for x := range m {
				l = append(l, x)
			}
			sort.Strings(l)
			cov["distinct_"+k+"_count"] = len(l)
			if len(l) > 60 {
				l = l[:60]
			}
			cov[k] = l
		}
		if race {
			cov["race_detector"] = map[string]any{"enabled": true, "report_blocks": raceReports, "distinct_reports": raceDistinct}
		}
		if len(merged.Samples) == 0 {
			cov["samples"] = []any{"(no samples: no worker shard finished)"}
		}
		ev := map[string]any{
			"property_id": prop,
			"tier":        tier,
			"seed":        seed,
			"level":       pc.Level,
			"coverage":    cov,
			"assumptions": append([]string{"the harness's reference model, independent CBOR/COSE code and generators are correct (they are cross-checked against the unchanged tree and against seeded faults)", "the Go runtime reports memory-safety traps as panics/fatal errors (no cgo/unsafe in the code under test)"}, merged.Assumptions...),
			"wall_s":      time.Since(start).Seconds(),
			"violations":  len(unknownKeys),
		}
		b, _ := json.MarshalIndent(ev, "", " ")
		if os.Getenv("VERIF_MODFILE") != "" {
			os.WriteFile(filepath.Join(work, "evidence-dev.json"), b, 0o644)
		} else {
			os.MkdirAll(filepath.Join(verifDir, "evidence"), 0o755)
			os.WriteFile(filepath.Join(verifDir, "evidence", prop+".json"), b, 0o644)
		}
	}
	verdict := map[int]string{0: "HELD", 1: "VIOLATED", 2: "INCONCLUSIVE"}[status]
	fmt.Printf("%s property=%s tier=%s seed=%d evaluations=%d distinct=%d known_findings=%d restarts=%d wall=%.1fs\n",
		verdict, prop, tier, seed, merged.Evals, len(sigs), len(knownHit), restarts, time.Since(start).Seconds())
	if status != 1 {
		// keep the work dir only when something has to be inspected
		os.RemoveAll(work)
	} else {
		os.Remove(worker)
	}
	return status
}

func oneLine(s string) string {
	s = strings.ReplaceAll(s, "\n", " ")
	if len(s) > 300 {
		s = s[:300] + "..."
	}
	return s
}

func runShard(prop, tier string, seed int64, s, nshards int, work, worker string, pc propCfg, race bool, wall time.Duration) *shardResult {
	res := &shardResult{sigs: map[uint64]struct{}{}}
	resume := int64(0)
	walPath := filepath.Join(work, fmt.Sprintf("wal-%d.log", s))
	for attempt := 0; ; attempt++ {
		os.Remove(walPath)
		tag := fmt.Sprintf("%d-%d", s, resume)
		wargs := []string{"-prop", prop, "-tier", tier, "-seed", fmt.Sprint(seed), "-shard", fmt.Sprint(s),
			"-nshards", fmt.Sprint(nshards), "-out", work, "-resume", fmt.Sprint(resume)}
		ctx, cancel := context.WithTimeout(context.Background(), wall)
		var cmd *exec.Cmd
		if pc.RlimitKB > 0 && !race {
			sh := fmt.Sprintf("ulimit -v %d; exec \"$0\" \"$@\"", pc.RlimitKB)
			cmd = exec.CommandContext(ctx, "/bin/sh", append([]string{"-c", sh, worker}, wargs...)...)
		} else {
			cmd = exec.CommandContext(ctx, worker, wargs...)
		}
		errPath := filepath.Join(work, "stderr-"+tag+".log")
		ef, _ := os.Create(errPath)
		cmd.Stderr = ef
		cmd.Stdout = ef
		cmd.Env = append(os.Environ(), "GOTRACEBACK=all")
		cmd.Env = append(cmd.Env, pc.Env...)
		if tier == "thorough" {
			cmd.Env = append(cmd.Env, pc.EnvThor...)
		}
		if race {
			cmd.Env = append(cmd.Env, "GORACE=halt_on_error=0 log_path="+filepath.Join(work, fmt.Sprintf("race-%d", s)))
		}
		err := cmd.Run()
		ef.Close()
		timedOut := ctx.Err() == context.DeadlineExceeded
		cancel()

		sumPath := filepath.Join(work, "summary-"+tag+".json")
		if b, rerr := os.ReadFile(sumPath); rerr == nil {
			var sm report.Summary
			if json.Unmarshal(b, &sm) == nil && sm.Done {
				res.sums = append(res.sums, sm)
				if sb, e := os.ReadFile(filepath.Join(work, "sigs-"+tag+".bin")); e == nil {
					for i := 0; i+8 <= len(sb); i += 8 {
						res.sigs[binary.LittleEndian.Uint64(sb[i:])] = struct{}{}
					}
				}
				if err != nil && !(race && exitCode(err) == 66) {
					res.inconcl = append(res.inconcl, fmt.Sprintf("shard %d wrote its summary but exited with %v", s, err))
				}
				return res
			}
		}
		if timedOut {
			res.inconcl = append(res.inconcl, fmt.Sprintf("shard %d hit the wall-clock watchdog (%s) - not a verdict", s, wall))
			return res
		}
		// the worker died: attribute to the in-flight case
		lastNo, lastID, lastInput := lastWAL(walPath)
		sig, excerpt := crashSignature(errPath)
		key := prop + "/crash/" + sig
		detail := map[string]any{"case_no": lastNo, "case_id": lastID, "input_hex": lastInput, "stderr_excerpt": excerpt,
			"exit": fmt.Sprint(err), "seed": seed, "shard": s, "nshards": nshards, "tier": tier}
		res.crashes = append(res.crashes, report.Violation{Key: key,
			What: fmt.Sprintf("worker process died (%s) while case %q was in flight", sig, lastID), Detail: detail})
		res.restarts++
		if lastNo <= resume || attempt >= 25 {
			res.inconcl = append(res.inconcl, fmt.Sprintf("shard %d died without progress or too often; remaining cases not run", s))
			return res
		}
		res.evalsLost += lastNo - resume
		resume = lastNo
	}
}

func exitCode(err error) int {
	if ee, ok := err.(*exec.ExitError); ok {
		return ee.ExitCode()
	}
	return -1
}

func lastWAL(path string) (int64, string, string) {
	f, err := os.Open(path)
	if err != nil {
		return 0, "", ""
	}
	defer f.Close()
	sc := bufio.NewScanner(f)
	sc.Buffer(make([]byte, 1<<20), 1<<24)
	var last string
	for sc.Scan() {
		if t := sc.Text(); t != "" {
			last = t
		}
	}
	parts := strings.SplitN(last, "\t", 3)
	if len(parts) < 3 {
		return 0, "", ""
	}
	n, _ := strconv.ParseInt(parts[0], 10, 64)
	return n, parts[1], parts[2]
}

var frameRE = regexp.MustCompile(`^(github\.com/(?:veraison|fxamacker)/\S*?)\([^()]*\)\s*$`)

func crashSignature(errPath string) (string, string) {
	b, _ := os.ReadFile(errPath)
	lines := strings.Split(string(b), "\n")
	kind := "unknown"
	var excerpt []string
	frame := ""
	for i, l := range lines {
		if kind == "unknown" && (strings.HasPrefix(l, "fatal error:") || strings.HasPrefix(l, "panic:") || strings.Contains(l, "cannot allocate memory") || strings.HasPrefix(l, "runtime: out of memory")) {
			kind = l
			for j := i; j < len(lines) && j < i+3; j++ {
				excerpt = append(excerpt, lines[j])
			}
		}
		if kind != "unknown" && frame == "" {
			if m := frameRE.FindStringSubmatch(l); m != nil {
				frame = m[1]
				excerpt = append(excerpt, l)
				if i+1 < len(lines) {
					excerpt = append(excerpt, lines[i+1])
				}
			}
		}
	}
	k := kind
	switch {
	case strings.Contains(kind, "out of memory") || strings.Contains(kind, "cannot allocate"):
		k = "out-of-memory"
	case strings.Contains(kind, "stack overflow") || strings.Contains(kind, "stack exceeds"):
		k = "stack-overflow"
	case strings.HasPrefix(kind, "panic:"):
		k = "panic"
	case strings.HasPrefix(kind, "fatal error:"):
		k = strings.ReplaceAll(strings.TrimSpace(strings.TrimPrefix(kind, "fatal error:")), " ", "-")
	}
	if frame != "" {
		if i := strings.LastIndex(frame, "/"); i >= 0 {
			frame = frame[i+1:]
		}
		k += "@" + frame
	}
	if len(excerpt) == 0 {
		n := len(lines)
		if n > 12 {
			lines = lines[n-12:]
		}
		excerpt = lines
	}
	return k, strings.Join(excerpt, "\n")
}

// ---- race detector reports -----------------------------------------------------

var libFrame = regexp.MustCompile(`^\s+(github\.com/(?:veraison|fxamacker)/\S+?)\(\)\s*$`)
var harnessFrame = regexp.MustCompile(`^\s+(verif/harness/\S+?)\(\)\s*$`)

func collectRaces(prop, work string) (int, []report.Violation) {
	files, _ := filepath.Glob(filepath.Join(work, "race-*"))
	total := 0
	byKey := map[string]report.Violation{}
	for _, f := range files {
		b, _ := os.ReadFile(f)
		blocks := strings.Split(string(b), "==================")
		for _, blk := range blocks {
			if !strings.Contains(blk, "WARNING: DATA RACE") {
				continue
			}
			total++
			// de-duplicate by the outermost code-under-test entry point of each of the two stacks
			var sections [][]string
			var cur []string
			for _, l := range strings.Split(blk, "\n") {
				if strings.HasPrefix(l, "Read at") || strings.HasPrefix(l, "Write at") || strings.HasPrefix(l, "Previous") || strings.HasPrefix(l, "Goroutine") {
					if cur != nil {
						sections = append(sections, cur)
					}
					cur = []string{l}
					continue
				}
				if cur != nil {
					cur = append(cur, l)
				}
			}
			if cur != nil {
				sections = append(sections, cur)
			}
			var entries []string
			inLib := false
			for i, sec := range sections {
				if i >= 2 {
					break
				}
				outer := ""
				for _, l := range sec {
					if m := libFrame.FindStringSubmatch(l); m != nil {
						outer = m[1]
						inLib = true
					}
				}
				if outer == "" {
					for _, l := range sec {
						if m := harnessFrame.FindStringSubmatch(l); m != nil {
							outer = m[1]
						}
					}
				}
				if i := strings.LastIndex(outer, "/"); i >= 0 {
					outer = outer[i+1:]
				}
				entries = append(entries, outer)
			}
			sort.Strings(entries)
			where := "library"
			if !inLib {
				where = "harness-only"
			}
			key := fmt.Sprintf("%s/race/%s/%s", prop, where, strings.Join(entries, "~"))
			if _, ok := byKey[key]; !ok {
				if len(blk) > 6000 {
					blk = blk[:6000]
				}
				byKey[key] = report.Violation{Key: key, What: "data race reported by the Go race detector: " + strings.Join(entries, " vs "),
					Detail: map[string]any{"report": blk, "file": filepath.Base(f)}}
			}
		}
	}
	var out []report.Violation
	for _, v := range byKey {
		out = append(out, v)
	}
	return total, out
}

// ---- known findings ---------------------------------------------------------------

type knownFile struct {
	Known []struct {
		Property string `json:"property"`
		Key      string `json:"key"`
		What     string `json:"what"`
	} `json:"known"`
	Fixed []string `json:"fixed"`
}

func loadKnown(prop string) map[string]string {
	out := map[string]string{}
	b, err := os.ReadFile(filepath.Join(verifDir, "known_findings.json"))
	if err != nil {
		return out
	}
	var kf knownFile
	if json.Unmarshal(b, &kf) != nil {
		return out
	}
	for _, k := range kf.Known {
		if k.Property == prop {
			out[k.Key] = k.What
		}
	}
	return out
}

// ---- replay -----------------------------------------------------------------------

func replay(path string) int {
	b, err := os.ReadFile(path)
	if err != nil {
		fmt.Println("cannot read replay file:", err)
		return 2
	}
	var rec struct {
		Property string         `json:"property"`
		Key      string         `json:"key"`
		Tier     string         `json:"tier"`
		Seed     int64          `json:"seed"`
		Detail   map[string]any `json:"detail"`
	}
	if err := json.Unmarshal(b, &rec); err != nil {
		fmt.Println("bad replay file:", err)
		return 2
	}
	shard := -1
	if v, ok := rec.Detail["shard"].(float64); ok {
		shard = int(v)
	}
	fmt.Printf("replaying %s key=%s tier=%s seed=%d shard=%d (re-runs the deterministic shard that produced the case)\n", rec.Property, rec.Key, rec.Tier, rec.Seed, shard)
	return run(rec.Property, rec.Tier, rec.Seed, shard, map[string]bool{rec.Key: true})
}
