package mon

import (
	"strings"
	"testing"
)

type ddInner struct {
	a []byte
	m map[interface{}]interface{}
}
type ddOuter struct {
	X   *ddInner
	i   interface{}
	s   []string
	nm  map[string]int
	arr [2]int
}

func TestDeepDump(t *testing.T) {
	mk := func() *ddOuter {
		return &ddOuter{X: &ddInner{a: []byte{1, 2}, m: map[interface{}]interface{}{int64(3): "x", int64(1): []byte("k"), "s": ddInner{a: []byte{9}}}}, i: ddInner{a: []byte{7}}, s: []string{"a"}, arr: [2]int{1, 2}}
	}
	a, b := DeepDump(mk()), DeepDump(mk())
	if a != b {
		t.Fatalf("not deterministic:\n%s\n%s", a, b)
	}
	for i := 0; i < 50; i++ {
		if DeepDump(mk()) != a {
			t.Fatal("map order leaks")
		}
	}
	o := mk()
	o.X.m[int64(1)].([]byte)[0] = 'z'
	if DeepDump(o) == a {
		t.Fatal("change below an unexported interface-keyed map not seen")
	}
	o = mk()
	o.X.a[1] = 5
	if DeepDump(o) == a {
		t.Fatal("change in unexported bytes not seen")
	}
	o = mk()
	o.nm = map[string]int{}
	if DeepDump(o) == a {
		t.Fatal("nil vs empty map not distinguished")
	}
	o = mk()
	o.i = ddInner{a: []byte{8}}
	if DeepDump(o) == a {
		t.Fatal("change inside interface-held struct not seen")
	}
	if !strings.Contains(a, "h'0102'") {
		t.Fatal(a)
	}
}
