// Package mon is the monitored facade shared by all property workers: case
// accounting, write-ahead log, panic capture, violation recording and the
// shard summary.
package mon

import (
	"encoding/binary"
	"encoding/hex"
	"encoding/json"
	"fmt"
	"hash/fnv"
	"math/rand"
	"os"
	"path/filepath"
	"runtime"
	"runtime/debug"
	"sort"
	"strings"
	"sync/atomic"
	"syscall"
	"time"

	"verif/harness/report"
)

type Ctx struct {
	Prop    string
	Tier    string
	Seed    int64
	Shard   int
	NShards int
	OutDir  string
	Resume  int64 // skip guarded cases with number <= Resume (after a crash)
	Arg     string

	R *rand.Rand

	sum     report.Summary
	sigs    map[uint64]struct{}
	sets    map[string]map[string]struct{}
	wal     *os.File
	caseNo  int64
	maxViol int
}

func New(prop, tier string, seed int64, shard, nshards int, outDir string, resume int64) *Ctx {
	c := &Ctx{Prop: prop, Tier: tier, Seed: seed, Shard: shard, NShards: nshards, OutDir: outDir, Resume: resume}
	c.R = rand.New(rand.NewSource(seed*1000003 + int64(shard)*7919 + int64(len(prop))))
	c.sum = report.Summary{Prop: prop, Tier: tier, Seed: seed, Shard: shard, NShards: nshards,
		Counters: map[string]int64{}, ViolCounts: map[string]int64{}, Extras: map[string]any{}, Floors: map[string]int64{}}
	c.sigs = map[uint64]struct{}{}
	c.sets = map[string]map[string]struct{}{}
	c.maxViol = 600
	_ = os.MkdirAll(outDir, 0o755)
	f, err := os.OpenFile(filepath.Join(outDir, fmt.Sprintf("wal-%d.log", shard)), os.O_CREATE|os.O_WRONLY|os.O_APPEND, 0o644)
	if err == nil {
		c.wal = f
	}
	return c
}

func (c *Ctx) Quick() bool { return c.Tier != "thorough" }

// N returns this shard's share of a per-tier case count.
func (c *Ctx) N(quick, thorough int) int {
	n := quick
	if !c.Quick() {
		n = thorough
	}
	per := n / c.NShards
	if c.Shard < n%c.NShards {
		per++
	}
	return per
}

// Mine reports whether the i-th item of an enumerated space belongs to this
// shard.
func (c *Ctx) Mine(i int) bool { return i%c.NShards == c.Shard }

func (c *Ctx) Eval()                        { c.sum.Evals++ }
func (c *Ctx) Evals(n int64)                { c.sum.Evals += n }
func (c *Ctx) Count(name string)            { c.sum.Counters[name]++ }
func (c *Ctx) Add(name string, n int64)     { c.sum.Counters[name] += n }
func (c *Ctx) Get(name string) int64        { return c.sum.Counters[name] }
func (c *Ctx) Floor(name string, min int64) { c.sum.Floors[name] = min }
func (c *Ctx) Extra(name string, v any)     { c.sum.Extras[name] = v }
func (c *Ctx) Rule(s string)                { c.sum.Rule = s }
func (c *Ctx) Exhaustive(b bool)            { c.sum.Exhaustive = b }
func (c *Ctx) Assume(s ...string)           { c.sum.Assumptions = append(c.sum.Assumptions, s...) }
func (c *Ctx) Inconclusive(why string)      { c.sum.Inconclusive = append(c.sum.Inconclusive, why) }

// Sig records the class signature of a non-trivial case; the number of
// distinct signatures is what evidence reports as distinct_nontrivial.
func (c *Ctx) Sig(s string) {
	h := fnv.New64a()
	h.Write([]byte(s))
	c.sigs[h.Sum64()] = struct{}{}
}

// SetAdd adds a member to a named (small) set that is reported verbatim.
func (c *Ctx) SetAdd(set, member string) {
	m := c.sets[set]
	if m == nil {
		m = map[string]struct{}{}
		c.sets[set] = m
	}
	if len(m) < 5000 {
		m[member] = struct{}{}
	}
}

// Sample keeps the first few cases (of each kind) for the evidence file.
func (c *Ctx) Sample(kind string, v any) {
	k := "sample:" + kind
	if c.sum.Counters[k] >= 2 || len(c.sum.Samples) >= 24 {
		return
	}
	c.sum.Counters[k]++
	c.sum.Samples = append(c.sum.Samples, map[string]any{"kind": kind, "case": v})
}

// Violation records a refutation under a finding key.
func (c *Ctx) Violation(key, what string, detail map[string]any) {
	c.sum.ViolCounts[key]++
	if c.sum.ViolCounts[key] > 3 || len(c.sum.Violations) >= c.maxViol {
		return
	}
	if detail == nil {
		detail = map[string]any{}
	}
	detail["seed"] = c.Seed
	detail["shard"] = c.Shard
	detail["nshards"] = c.NShards
	detail["tier"] = c.Tier
	c.sum.Violations = append(c.sum.Violations, report.Violation{Key: key, What: what, Detail: detail})
}

// Begin starts guarded case number n: logs it (with the input) to the
// write-ahead log *before* the library is called, so that a process death can
// be attributed. Returns false if the case must be skipped (resume).
func (c *Ctx) Begin(id string, input []byte) bool {
	c.caseNo++
	if c.caseNo <= c.Resume {
		return false
	}
	if c.wal != nil {
		in := input
		if len(in) > 70000 {
			in = in[:70000]
		}
		line := fmt.Sprintf("%d\t%s\t%s\n", c.caseNo, id, hex.EncodeToString(in))
		_, _ = c.wal.WriteString(line)
	}
	return true
}

func (c *Ctx) CaseNo() int64 { return c.caseNo }

// Guard runs fn and converts a panic into (true, value, first library frame).
func Guard(fn func()) (panicked bool, val string, frame string) {
	defer func() {
		if r := recover(); r != nil {
			panicked = true
			val = fmt.Sprint(r)
			frame = firstFrame(string(debug.Stack()))
		}
	}()
	fn()
	return
}

// firstFrame extracts the innermost stack frames that belong to the code
// under test (psatoken, eat, go-cose, cbor), skipping runtime and harness.
func firstFrame(stack string) string {
	lines := strings.Split(stack, "\n")
	var out []string
	for i := 0; i+1 < len(lines); i++ {
		l := lines[i]
		if strings.HasPrefix(l, "\t") || strings.HasPrefix(l, "goroutine") {
			continue
		}
		if strings.HasPrefix(l, "runtime") || strings.HasPrefix(l, "panic(") || strings.Contains(l, "verif/harness") || strings.HasPrefix(l, "main.") {
			continue
		}
		loc := strings.TrimSpace(lines[i+1])
		if j := strings.Index(loc, " +0x"); j > 0 {
			loc = loc[:j]
		}
		fn := l
		if j := strings.LastIndex(fn, "("); j > 0 {
			fn = fn[:j]
		}
		out = append(out, fn+" @ "+loc)
		if len(out) >= 4 {
			break
		}
	}
	return strings.Join(out, " <- ")
}

// PanicKey reduces a panic to a stable finding key: the innermost function of
// the code under test.
func PanicKey(frame string) string {
	f := frame
	if i := strings.Index(f, " @ "); i > 0 {
		f = f[:i]
	}
	if i := strings.LastIndex(f, "/"); i >= 0 {
		f = f[i+1:]
	}
	return f
}

// Finish writes the shard summary and signature file.
func (c *Ctx) Finish() {
	c.sum.Done = true
	c.sum.CaseNo = c.caseNo
	c.sum.Sets = map[string][]string{}
	for name, m := range c.sets {
		var l []string
		for k := range m {
			l = append(l, k)
		}
		sort.Strings(l)
		c.sum.Sets[name] = l
	}
	for k := range c.sum.Counters {
		if strings.HasPrefix(k, "sample:") {
			delete(c.sum.Counters, k)
		}
	}
	b, _ := json.Marshal(&c.sum)
	tag := fmt.Sprintf("%d-%d", c.Shard, c.Resume)
	_ = os.WriteFile(filepath.Join(c.OutDir, "summary-"+tag+".json"), b, 0o644)
	sb := make([]byte, 0, 8*len(c.sigs))
	for h := range c.sigs {
		sb = binary.LittleEndian.AppendUint64(sb, h)
	}
	_ = os.WriteFile(filepath.Join(c.OutDir, "sigs-"+tag+".bin"), sb, 0o644)
	if c.wal != nil {
		c.wal.Close()
	}
}

func Hex(b []byte) string {
	if len(b) > 4096 {
		return hex.EncodeToString(b[:4096]) + fmt.Sprintf("...(%d bytes)", len(b))
	}
	return hex.EncodeToString(b)
}

// MergeChild folds the summary (and signature file) a child worker wrote
// into this context; used by properties that need one process per history.
func (c *Ctx) MergeChild(dir string) (found bool) {
	files, _ := filepath.Glob(filepath.Join(dir, "summary-*.json"))
	for _, f := range files {
		b, err := os.ReadFile(f)
		if err != nil {
			continue
		}
		var s report.Summary
		if json.Unmarshal(b, &s) != nil || !s.Done {
			continue
		}
		found = true
		c.sum.Evals += s.Evals
		for k, v := range s.Counters {
			c.sum.Counters[k] += v
		}
		for k, v := range s.ViolCounts {
			c.sum.ViolCounts[k] += v
		}
		for _, v := range s.Violations {
			if len(c.sum.Violations) < c.maxViol {
				c.sum.Violations = append(c.sum.Violations, v)
			}
		}
		for k, l := range s.Sets {
			for _, m := range l {
				c.SetAdd(k, m)
			}
		}
		for _, sm := range s.Samples {
			if len(c.sum.Samples) < 6 {
				c.sum.Samples = append(c.sum.Samples, sm)
			}
		}
		c.sum.Inconclusive = append(c.sum.Inconclusive, s.Inconclusive...)
	}
	sfiles, _ := filepath.Glob(filepath.Join(dir, "sigs-*.bin"))
	for _, f := range sfiles {
		if sb, err := os.ReadFile(f); err == nil {
			for i := 0; i+8 <= len(sb); i += 8 {
				c.sigs[binary.LittleEndian.Uint64(sb[i:])] = struct{}{}
			}
		}
	}
	return found
}

// ---- in-process CPU watchdog ---------------------------------------------------------------
//
// A call into the library that never returns cannot be judged by code that
// runs after the call. CallBegin/CallEnd bracket a call; a watchdog goroutine
// (the worker runs nothing else, so process CPU time ~ CPU time of the call)
// terminates the process with a recognisable message once the call has used
// more than the limit. The supervisor attributes the death to the in-flight
// case through the write-ahead log and resumes after it.

var (
	wdActive atomic.Int64 // process CPU (ns) at the start of the current call, 0 = no call
	wdWall   atomic.Int64 // wall clock (unix ns) at the start of the current call
	wdName   atomic.Pointer[string]
)

var blockedWall = 60 * time.Second

// SetBlockedWall changes how long a call may be in flight WITHOUT the process
// using CPU before it is declared blocked forever (processes whose calls all
// take microseconds can use a much shorter time than the default minute).
func SetBlockedWall(d time.Duration) { blockedWall = d }

func processCPU() int64 {
	var ru syscall.Rusage
	if err := syscall.Getrusage(0, &ru); err != nil {
		return 0
	}
	return (ru.Utime.Sec+ru.Stime.Sec)*1e9 + (ru.Utime.Usec+ru.Stime.Usec)*1e3
}

// StartWatchdog starts the watchdog; what is the wording of the verdict
// (e.g. "cpu-bound-exceeded").
func StartWatchdog(limit time.Duration, what string) {
	go func() {
		for {
			time.Sleep(100 * time.Millisecond)
			start := wdActive.Load()
			if start == 0 {
				continue
			}
			// a call that is BLOCKED uses no CPU at all: if it has been in flight
			// for a minute of wall time while the whole process used less than
			// half a second of CPU, it waits for something that nobody in this
			// single-purpose process will ever provide (e.g. a lock left locked)
			if wstart := wdWall.Load(); wstart != 0 && time.Since(time.Unix(0, wstart)) > blockedWall && processCPU()-start < int64(500*time.Millisecond) {
				name := "?"
				if p := wdName.Load(); p != nil {
					name = *p
				}
				short := name
				if i := strings.Index(short, "("); i > 0 {
					short = short[:i]
				}
				buf := make([]byte, 1<<16)
				buf = buf[:runtime.Stack(buf, true)]
				fmt.Fprintf(os.Stderr, "fatal error: call-blocked-forever in %s\n(%s has been in flight for %s using no CPU)\n%s\n", short, name, blockedWall, buf)
				os.Exit(3)
			}
			if used := processCPU() - start; used > int64(limit) {
				name := "?"
				if p := wdName.Load(); p != nil {
					name = *p
				}
				short := name
				if i := strings.Index(short, "("); i > 0 {
					short = short[:i]
				}
				fmt.Fprintf(os.Stderr, "fatal error: %s in %s\n(%s used more than %s of CPU in one call)\n", what, short, name, limit)
				os.Exit(3)
			}
		}
	}()
}

func CallBegin(name string) {
	wdName.Store(&name)
	c := processCPU()
	if c == 0 {
		c = 1
	}
	wdWall.Store(time.Now().UnixNano())
	wdActive.Store(c)
}

func CallEnd() { wdActive.Store(0); wdWall.Store(0) }
