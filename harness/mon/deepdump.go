package mon

import (
	"fmt"
	"reflect"
	"sort"
	"strings"
	"unsafe"
)

// DeepDump renders everything reachable from v - exported and unexported
// fields, through pointers, interfaces, slices and maps - as text. Pointer
// addresses and capacities are left out; map entries are ordered by the
// rendering of their keys (whatever the key type), nil and empty slices / maps
// are distinguished. Two dumps are equal iff the reachable state is.
func DeepDump(v any) string {
	var sb strings.Builder
	d := &dumper{sb: &sb, seen: map[visit]bool{}}
	rv := reflect.ValueOf(v)
	if rv.IsValid() && rv.Kind() != reflect.Ptr {
		// make the value addressable so that unexported fields can be read
		nv := reflect.New(rv.Type()).Elem()
		nv.Set(rv)
		rv = nv
	}
	d.dump(rv, 0)
	return sb.String()
}

type visit struct {
	p uintptr
	t reflect.Type
}

type dumper struct {
	sb   *strings.Builder
	seen map[visit]bool
}

// open returns a value equivalent to v that may be inspected even if v was
// reached through an unexported field.
func open(v reflect.Value) reflect.Value {
	if !v.IsValid() || v.CanInterface() {
		return v
	}
	if v.CanAddr() {
		return reflect.NewAt(v.Type(), unsafe.Pointer(v.UnsafeAddr())).Elem()
	}
	return v
}

func (d *dumper) ind(n int) { d.sb.WriteString(strings.Repeat(" ", n)) }

func (d *dumper) dump(v reflect.Value, depth int) {
	if !v.IsValid() {
		d.sb.WriteString("<invalid>")
		return
	}
	v = open(v)
	if depth > 200 {
		d.sb.WriteString("<too deep>")
		return
	}
	switch v.Kind() {
	case reflect.Bool:
		fmt.Fprintf(d.sb, "%v", v.Bool())
	case reflect.Int, reflect.Int8, reflect.Int16, reflect.Int32, reflect.Int64:
		fmt.Fprintf(d.sb, "%s(%d)", v.Type(), v.Int())
	case reflect.Uint, reflect.Uint8, reflect.Uint16, reflect.Uint32, reflect.Uint64, reflect.Uintptr:
		fmt.Fprintf(d.sb, "%s(%d)", v.Type(), v.Uint())
	case reflect.Float32, reflect.Float64:
		fmt.Fprintf(d.sb, "%s(%v)", v.Type(), v.Float())
	case reflect.Complex64, reflect.Complex128:
		fmt.Fprintf(d.sb, "%s(%v)", v.Type(), v.Complex())
	case reflect.String:
		fmt.Fprintf(d.sb, "%s(%q)", v.Type(), v.String())
	case reflect.Ptr:
		if v.IsNil() {
			fmt.Fprintf(d.sb, "(%s)nil", v.Type())
			return
		}
		k := visit{v.Pointer(), v.Type()}
		if d.seen[k] {
			fmt.Fprintf(d.sb, "(%s)<seen>", v.Type())
			return
		}
		d.seen[k] = true
		d.sb.WriteString("&")
		d.dump(v.Elem(), depth+1)
		delete(d.seen, k)
	case reflect.Interface:
		if v.IsNil() {
			fmt.Fprintf(d.sb, "(%s)nil", v.Type())
			return
		}
		e := v.Elem()
		fmt.Fprintf(d.sb, "iface<%s>", e.Type())
		if e.Kind() != reflect.Ptr && e.Kind() != reflect.Map && e.Kind() != reflect.Slice {
			// copy into an addressable value so that unexported fields below stay readable
			nv := reflect.New(e.Type()).Elem()
			if e.CanInterface() {
				nv.Set(e)
				e = nv
			}
		}
		d.dump(e, depth+1)
	case reflect.Slice:
		if v.IsNil() {
			fmt.Fprintf(d.sb, "(%s)nil", v.Type())
			return
		}
		if v.Type().Elem().Kind() == reflect.Uint8 {
			fmt.Fprintf(d.sb, "%s[%d]h'", v.Type(), v.Len())
			for i := 0; i < v.Len(); i++ {
				fmt.Fprintf(d.sb, "%02x", v.Index(i).Uint())
			}
			d.sb.WriteString("'")
			return
		}
		fmt.Fprintf(d.sb, "%s[%d]{\n", v.Type(), v.Len())
		for i := 0; i < v.Len(); i++ {
			d.ind(depth + 1)
			d.dump(v.Index(i), depth+1)
			d.sb.WriteString(",\n")
		}
		d.ind(depth)
		d.sb.WriteString("}")
	case reflect.Array:
		fmt.Fprintf(d.sb, "%s{", v.Type())
		for i := 0; i < v.Len(); i++ {
			d.dump(v.Index(i), depth+1)
			d.sb.WriteString(",")
		}
		d.sb.WriteString("}")
	case reflect.Map:
		if v.IsNil() {
			fmt.Fprintf(d.sb, "(%s)nil", v.Type())
			return
		}
		type kv struct{ k, v string }
		var ents []kv
		it := v.MapRange()
		for it.Next() {
			sub := &dumper{sb: &strings.Builder{}, seen: d.seen}
			sub.dump(it.Key(), depth+1)
			ks := sub.sb.String()
			sub = &dumper{sb: &strings.Builder{}, seen: d.seen}
			sub.dump(it.Value(), depth+1)
			ents = append(ents, kv{ks, sub.sb.String()})
		}
		sort.Slice(ents, func(i, j int) bool { return ents[i].k < ents[j].k })
		fmt.Fprintf(d.sb, "%s[%d]{\n", v.Type(), len(ents))
		for _, e := range ents {
			d.ind(depth + 1)
			d.sb.WriteString(e.k + ": " + e.v + ",\n")
		}
		d.ind(depth)
		d.sb.WriteString("}")
	case reflect.Struct:
		fmt.Fprintf(d.sb, "%s{\n", v.Type())
		for i := 0; i < v.NumField(); i++ {
			d.ind(depth + 1)
			d.sb.WriteString(v.Type().Field(i).Name + ": ")
			d.dump(v.Field(i), depth+1)
			d.sb.WriteString(",\n")
		}
		d.ind(depth)
		d.sb.WriteString("}")
	case reflect.Func, reflect.Chan, reflect.UnsafePointer:
		if v.IsNil() {
			fmt.Fprintf(d.sb, "(%s)nil", v.Type())
		} else {
			fmt.Fprintf(d.sb, "(%s)<set>", v.Type())
		}
	default:
		fmt.Fprintf(d.sb, "<%s>", v.Kind())
	}
}
