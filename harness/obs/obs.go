// Package obs bridges the abstract model and the real library: it builds real
// claims objects from abstract claims-sets (by direct field assignment, so
// that invalid states are reachable without going through validating
// setters) and takes API-level observations of real objects.
package obs

import (
	"errors"
	"fmt"
	"reflect"
	"strings"
	"sync/atomic"

	"github.com/veraison/eat"
	"github.com/veraison/psatoken"

	"verif/harness/extprof"
	"verif/harness/model"
	"verif/harness/refcbor"
)

// ClassOf maps an error to the documented sentinel class.
func ClassOf(err error) model.Class {
	switch {
	case err == nil:
		return model.OK
	case errors.Is(err, psatoken.ErrMissingMandatory):
		return model.MissingMandatory
	case errors.Is(err, psatoken.ErrMissingOptional):
		return model.MissingOptional
	case errors.Is(err, psatoken.ErrWrongSyntax):
		return model.WrongSyntax
	case errors.Is(err, psatoken.ErrWrongProfile):
		return model.WrongProfile
	case errors.Is(err, psatoken.ErrNotInProfile):
		return model.NotInProfile
	}
	return model.Other
}

func resS(v string, err error) model.Res {
	if err != nil {
		return model.Res{C: ClassOf(err)}
	}
	return model.Res{C: model.OK, V: model.RS(v)}
}

func resB(v []byte, err error) model.Res {
	if err != nil {
		return model.Res{C: ClassOf(err)}
	}
	return model.Res{C: model.OK, V: model.RB(v)}
}

// ObserveComp renders the five getters of a component.
func ObserveComp(sc psatoken.ISwComponent) string {
	return model.CompString(
		resS(sc.GetMeasurementType()),
		resB(sc.GetMeasurementValue()),
		resS(sc.GetVersion()),
		resB(sc.GetSignerID()),
		resS(sc.GetMeasurementDesc()),
	)
}

// Observe takes the API-level observation of a claims-set: Validate and the
// ten getters (value or error class), plus the five getters of every
// returned component.
func Observe(c psatoken.IClaims) model.Obs {
	var o model.Obs
	o.Validate = ClassOf(c.Validate())
	o.Profile = resS(c.GetProfile())
	if v, err := c.GetClientID(); err != nil {
		o.ClientID = model.Res{C: ClassOf(err)}
	} else {
		o.ClientID = model.Res{C: model.OK, V: model.RI(int64(v))}
	}
	if v, err := c.GetSecurityLifeCycle(); err != nil {
		o.Lifecycle = model.Res{C: ClassOf(err)}
	} else {
		o.Lifecycle = model.Res{C: model.OK, V: model.RI(int64(v))}
	}
	o.ImplID = resB(c.GetImplID())
	o.BootSeed = resB(c.GetBootSeed())
	o.CertRef = resS(c.GetCertificationReference())
	if scs, err := c.GetSoftwareComponents(); err != nil {
		o.Comps = model.Res{C: ClassOf(err)}
	} else {
		parts := make([]string, len(scs))
		for i, sc := range scs {
			parts[i] = ObserveComp(sc)
		}
		o.Comps = model.Res{C: model.OK, V: "[" + strings.Join(parts, " ") + "]"}
	}
	o.Nonce = resB(c.GetNonce())
	o.InstID = resB(c.GetInstID())
	o.VSI = resS(c.GetVSI())
	return o
}

// compKey identifies a component by content.
func compKey(c *model.Comp) string {
	f := func(p *string) string {
		if p == nil {
			return "<nil>"
		}
		return fmt.Sprintf("%q", *p)
	}
	b := func(p *[]byte) string {
		if p == nil {
			return "<nil>"
		}
		return fmt.Sprintf("%x", *p)
	}
	return f(c.MType) + "|" + b(c.MVal) + "|" + f(c.Version) + "|" + b(c.Signer) + "|" + f(c.Desc)
}

// realComps turns abstract components into real ones; components that are
// equal by content become ONE object listed several times (the same pointer).
func realComps(cs []model.Comp, mk func(*model.Comp) *psatoken.SwComponent) []psatoken.ISwComponent {
	vals := make([]psatoken.ISwComponent, len(cs))
	seen := map[string]psatoken.ISwComponent{}
	for i := range cs {
		k := compKey(&cs[i])
		if v, ok := seen[k]; ok {
			vals[i] = v
			continue
		}
		vals[i] = mk(&cs[i])
		seen[k] = vals[i]
	}
	return vals
}

// Container builds a real component container holding exactly the abstract
// components (valid or not). The container's slice is unexported and its Add
// validates, so invalid components are injected through the container's own
// CBOR unmarshaller fed with bytes from the independent encoder.
func Container(cs []model.Comp) (*psatoken.SwComponents[*psatoken.SwComponent], error) {
	ct := &psatoken.SwComponents[*psatoken.SwComponent]{}
	if len(cs) == 0 {
		return ct, nil
	}
	// well-formed components go in through Add (no decoder involved); only
	// lists with a malformed component need the unmarshal route
	vals := realComps(cs, RealComp)
	if err := ct.Add(vals...); err == nil {
		return ct, nil
	}
	ct = &psatoken.SwComponents[*psatoken.SwComponent]{}
	if err := ct.UnmarshalCBOR(refcbor.Encode(model.CompsNode(cs))); err != nil {
		return nil, fmt.Errorf("container build: %w", err)
	}
	return ct, nil
}

// RealComp builds a *SwComponent by direct field assignment.
func RealComp(c *model.Comp) *psatoken.SwComponent {
	cp := func(p *string) *string {
		if p == nil {
			return nil
		}
		v := *p
		return &v
	}
	cb := func(p *[]byte) *[]byte {
		if p == nil {
			return nil
		}
		v := append([]byte{}, (*p)...)
		return &v
	}
	return &psatoken.SwComponent{MeasurementType: cp(c.MType), MeasurementValue: cb(c.MVal), Version: cp(c.Version), SignerID: cb(c.Signer), MeasurementDesc: cp(c.Desc)}
}

// RealCompSetters builds a *SwComponent through the component's own setters
// (falling back to direct assignment if a setter refuses the value).
func RealCompSetters(c *model.Comp) *psatoken.SwComponent {
	sc := &psatoken.SwComponent{}
	ok := true
	if c.MVal != nil {
		ok = ok && sc.SetMeasurementValue(append([]byte{}, (*c.MVal)...)) == nil
	}
	if c.Signer != nil {
		ok = ok && sc.SetSignerID(append([]byte{}, (*c.Signer)...)) == nil
	}
	if c.MType != nil {
		ok = ok && sc.SetMeasurementType(*c.MType) == nil
	}
	if c.Version != nil {
		ok = ok && sc.SetVersion(*c.Version) == nil
	}
	if c.Desc != nil {
		ok = ok && sc.SetMeasurementDesc(*c.Desc) == nil
	}
	if !ok {
		return RealComp(c)
	}
	return sc
}

// ErrUnbuildable marks abstract sets that cannot exist as a directly built
// object (e.g. a profile-2 profile claim that is neither URL nor OID).
var ErrUnbuildable = errors.New("unbuildable")

var emptyBuilds uint64

// Build constructs the real object by direct field assignment.
func Build(a *model.Claims) (psatoken.IClaims, error) {
	ct, err := Container(a.Comps)
	if err != nil {
		return nil, err
	}
	cb := func(p *[]byte) *[]byte {
		if p == nil {
			return nil
		}
		v := append([]byte{}, (*p)...)
		return &v
	}
	cs := func(p *string) *string {
		if p == nil {
			return nil
		}
		v := *p
		return &v
	}
	// numeric claims are assigned by reflection (see SetNumField)
	setNums := func(x psatoken.IClaims) error {
		if a.ClientID != nil && !SetNumField(x, "ClientID", int64(*a.ClientID)) {
			return fmt.Errorf("cannot assign client id")
		}
		if a.Lifecycle != nil && !SetNumField(x, "SecurityLifeCycle", int64(*a.Lifecycle)) {
			return fmt.Errorf("cannot assign life cycle")
		}
		if a.P == 1 && a.NoMeas != nil && !SetNumField(x, "NoSwMeasurements", int64(*a.NoMeas)) {
			return fmt.Errorf("cannot assign the no-measurements flag")
		}
		return nil
	}
	// every other component-less object is built the way a zero-value struct
	// literal is: with NO container at all (a nil interface) rather than an
	// empty one; the library documents both as "no components"
	nilContainer := false
	if len(a.Comps) == 0 {
		nilContainer = atomic.AddUint64(&emptyBuilds, 1)%2 == 0
	}
	if a.P == 1 {
		c := &psatoken.P1Claims{
			Profile: cs(a.Profile), ImplID: cb(a.ImplID), BootSeed: cb(a.BootSeed),
			CertificationReference: cs(a.CertRef), SwComponents: ct, InstID: cb(a.InstID), VSI: cs(a.VSI),
			CanonicalProfile: a.Canon,
		}
		if nilContainer {
			c.SwComponents = nil
		}
		if err := setNums(c); err != nil {
			return nil, err
		}
		if a.HasNonce {
			v := append([]byte{}, a.Nonces[0]...)
			c.Nonce = &v
		}
		if a.Canon == extprof.ExtP1Name {
			return &extprof.ExtP1Claims{P1Claims: *c}, nil
		}
		return c, nil
	}
	c := &psatoken.P2Claims{
		ImplID: cb(a.ImplID), BootSeed: cb(a.BootSeed),
		CertificationReference: cs(a.CertRef), SwComponents: ct, VSI: cs(a.VSI),
		CanonicalProfile: a.Canon,
	}
	if nilContainer {
		c.SwComponents = nil
	}
	if err := setNums(c); err != nil {
		return nil, err
	}
	if a.Profile != nil {
		p, err := eat.NewProfile(*a.Profile)
		if err != nil {
			return nil, ErrUnbuildable
		}
		if s, err := p.Get(); err != nil || s != *a.Profile {
			return nil, ErrUnbuildable // URL normalisation would change the claim
		}
		c.Profile = p
	}
	if a.InstID != nil {
		u := eat.UEID(append([]byte{}, (*a.InstID)...))
		c.InstID = &u
	}
	if a.HasNonce {
		// eat.Nonce.Add refuses lengths outside 8..64; its CBOR
		// unmarshaller does not, which is how such nonces reach a real
		// object (and what a decoded token can contain).
		n := eat.Nonce{}
		var node *refcbor.Node
		if len(a.Nonces) == 1 {
			node = refcbor.Bstr(a.Nonces[0])
		} else {
			node = refcbor.Arr()
			for _, x := range a.Nonces {
				node.Items = append(node.Items, refcbor.Bstr(x))
			}
		}
		if err := n.UnmarshalCBOR(refcbor.Encode(node)); err != nil {
			return nil, fmt.Errorf("nonce build: %w", err)
		}
		c.Nonce = &n
	}
	if a.Canon == extprof.ExtP2Name {
		return &extprof.ExtP2Claims{P2Claims: *c}, nil
	}
	if a.Canon == extprof.ExtStrictName {
		return &extprof.ExtStrictClaims{P2Claims: *c}, nil
	}
	return c, nil
}

// P2 nonce note: an *empty* eat.Nonce built from `[]` has length 0.

// SetterBuild constructs the object through NewClaims + setters; it returns
// the first setter error (the abstract set must be valid for this to work).
func SetterBuild(a *model.Claims) (psatoken.IClaims, error) {
	c, err := psatoken.NewClaims(a.Canon)
	if err != nil {
		return nil, err
	}
	if a.P == 1 && a.Profile == nil {
		switch t := c.(type) {
		case *psatoken.P1Claims:
			t.Profile = nil
		case *extprof.ExtP1Claims:
			t.Profile = nil
		}
	}
	if err := SetterApply(c, a); err != nil {
		return nil, err
	}
	return c, nil
}

// SetterApply calls, on an existing object, the setter of every claim the
// abstract set holds.
func SetterApply(c psatoken.IClaims, a *model.Claims) error {
	if a.ClientID != nil {
		if err := c.SetClientID(*a.ClientID); err != nil {
			return err
		}
	}
	if a.Lifecycle != nil {
		if err := c.SetSecurityLifeCycle(*a.Lifecycle); err != nil {
			return err
		}
	}
	if a.ImplID != nil {
		if err := c.SetImplID(append([]byte{}, (*a.ImplID)...)); err != nil {
			return err
		}
	}
	if a.BootSeed != nil {
		if err := c.SetBootSeed(append([]byte{}, (*a.BootSeed)...)); err != nil {
			return err
		}
	}
	if a.CertRef != nil {
		if err := c.SetCertificationReference(*a.CertRef); err != nil {
			return err
		}
	}
	if len(a.Comps) > 0 {
		scs := realComps(a.Comps, RealCompSetters)
		if err := c.SetSoftwareComponents(scs); err != nil {
			return err
		}
	} else if a.P == 1 && a.NoMeas != nil {
		if err := c.SetSoftwareComponents(nil); err != nil {
			return err
		}
	}
	if a.HasNonce {
		if err := c.SetNonce(append([]byte{}, a.Nonces[0]...)); err != nil {
			return err
		}
	}
	if a.InstID != nil {
		if err := c.SetInstID(append([]byte{}, (*a.InstID)...)); err != nil {
			return err
		}
	}
	if a.VSI != nil {
		if err := c.SetVSI(*a.VSI); err != nil {
			return err
		}
	}
	return nil
}

// Fresh returns an empty claims object of the implementation that the abstract
// set belongs to (no profile claim preset), ready to be decoded into.
func Fresh(a *model.Claims) psatoken.IClaims {
	switch a.Canon {
	case extprof.ExtP2Name:
		c := extprof.NewExtP2Claims().(*extprof.ExtP2Claims)
		c.Profile = nil
		return c
	case extprof.ExtP1Name:
		c := extprof.NewExtP1Claims().(*extprof.ExtP1Claims)
		c.Profile = nil
		return c
	}
	if a.P == 1 {
		return &psatoken.P1Claims{SwComponents: &psatoken.SwComponents[*psatoken.SwComponent]{}, CanonicalProfile: a.Canon}
	}
	return &psatoken.P2Claims{SwComponents: &psatoken.SwComponents[*psatoken.SwComponent]{}, CanonicalProfile: a.Canon}
}

type cborUnmarshaler interface{ UnmarshalCBOR([]byte) error }
type jsonUnmarshaler interface{ UnmarshalJSON([]byte) error }

// FromCBOR decodes wire bytes with the per-type unmarshal method.
func FromCBOR(a *model.Claims, wire []byte) (psatoken.IClaims, error) {
	c := Fresh(a)
	if err := c.(cborUnmarshaler).UnmarshalCBOR(wire); err != nil {
		return nil, err
	}
	return c, nil
}

// FromJSON decodes a JSON document with the per-type unmarshal method.
func FromJSON(a *model.Claims, doc []byte) (psatoken.IClaims, error) {
	c := Fresh(a)
	if err := c.(jsonUnmarshaler).UnmarshalJSON(doc); err != nil {
		return nil, err
	}
	return c, nil
}

// P1Of / P2Of return the base-profile struct inside a claims object (nil if
// it is not built on that base).
func P1Of(x psatoken.IClaims) *psatoken.P1Claims {
	switch t := x.(type) {
	case *psatoken.P1Claims:
		return t
	case *extprof.ExtP1Claims:
		return &t.P1Claims
	}
	return nil
}

func P2Of(x psatoken.IClaims) *psatoken.P2Claims {
	switch t := x.(type) {
	case *psatoken.P2Claims:
		return t
	case *extprof.ExtP2Claims:
		return &t.P2Claims
	case *extprof.MixinClaims:
		return &t.P2Claims
	case *extprof.ExtOwnerClaims:
		return &t.P2Claims
	case *extprof.ExtGroupClaims:
		return &t.P2Claims
	case *extprof.ExtNestedClaims:
		return &t.P2Claims
	case *extprof.ExtFragileClaims:
		return &t.P2Claims
	case *extprof.ExtStrictClaims:
		return &t.P2Claims
	case *extprof.ExtLaxClaims:
		return &t.P2Claims
	}
	return nil
}

// AssignInPlace rewrites the existing object x so that it holds the abstract
// set b (same base profile), the way a caller edits claims he already has:
// exported fields are overwritten; if retained component pointers (as handed
// out by GetSoftwareComponents) are given and their number matches, the
// components are edited through those pointers and the container object is
// kept, otherwise the container is replaced.
func AssignInPlace(x psatoken.IClaims, b *model.Claims, retained []psatoken.ISwComponent) error {
	y, err := Build(b)
	if err != nil {
		return err
	}
	keep := len(retained) > 0 && len(retained) == len(b.Comps)
	if keep {
		ptrs := map[*psatoken.SwComponent]bool{}
		for i := range retained {
			sc, ok := retained[i].(*psatoken.SwComponent)
			if !ok || sc == nil || ptrs[sc] {
				keep = false // (a component listed twice cannot be edited entry by entry)
				break
			}
			ptrs[sc] = true
		}
	}
	if keep {
		for i := range retained {
			*(retained[i].(*psatoken.SwComponent)) = *RealComp(&b.Comps[i])
		}
	}
	if p, q := P1Of(x), P1Of(y); p != nil && q != nil {
		cont := p.SwComponents
		canon := p.CanonicalProfile
		*p = *q
		p.CanonicalProfile = canon
		if keep {
			p.SwComponents = cont
		}
		return nil
	}
	if p, q := P2Of(x), P2Of(y); p != nil && q != nil {
		cont := p.SwComponents
		canon := p.CanonicalProfile
		*p = *q
		p.CanonicalProfile = canon
		if keep {
			p.SwComponents = cont
		}
		return nil
	}
	return fmt.Errorf("AssignInPlace: %T and %T are not of the same base profile", x, y)
}

// ---- numeric claim fields through reflection -----------------------------------
//
// The numeric claims are exported pointer fields (ClientID *int32,
// SecurityLifeCycle *uint16, NoSwMeasurements *uint). The harness assigns
// them by reflection so that it keeps building - and keeps judging - when the
// library changes the WIDTH of such a field.

func numField(x psatoken.IClaims, name string) reflect.Value {
	var base any
	if p := P1Of(x); p != nil {
		base = p
	} else if p := P2Of(x); p != nil {
		base = p
	} else {
		return reflect.Value{}
	}
	return reflect.ValueOf(base).Elem().FieldByName(name)
}

// SetNumField makes the pointer field `name` of x point to a NEW variable
// holding v (converted to the field's element type). It reports whether the
// field exists and could hold v exactly.
func SetNumField(x psatoken.IClaims, name string, v int64) bool {
	f := numField(x, name)
	if !f.IsValid() || f.Kind() != reflect.Ptr {
		return false
	}
	nv := reflect.New(f.Type().Elem())
	switch nv.Elem().Kind() {
	case reflect.Int, reflect.Int8, reflect.Int16, reflect.Int32, reflect.Int64:
		nv.Elem().SetInt(v)
		if nv.Elem().Int() != v {
			return false
		}
	case reflect.Uint, reflect.Uint8, reflect.Uint16, reflect.Uint32, reflect.Uint64:
		if v < 0 {
			return false
		}
		nv.Elem().SetUint(uint64(v))
		if nv.Elem().Uint() != uint64(v) {
			return false
		}
	default:
		return false
	}
	f.Set(nv)
	return true
}

// NumField reads the pointer field `name` of x: (value, present).
func NumField(x psatoken.IClaims, name string) (int64, bool) {
	f := numField(x, name)
	if !f.IsValid() || f.Kind() != reflect.Ptr || f.IsNil() {
		return 0, false
	}
	switch e := f.Elem(); e.Kind() {
	case reflect.Int, reflect.Int8, reflect.Int16, reflect.Int32, reflect.Int64:
		return e.Int(), true
	case reflect.Uint, reflect.Uint8, reflect.Uint16, reflect.Uint32, reflect.Uint64:
		return int64(e.Uint()), true
	}
	return 0, false
}
