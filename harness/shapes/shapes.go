// Package shapes provides the family of struct shapes the embedding-aware
// codec (psatoken/encoding) is exercised with. All shapes follow the claims
// convention: pointer-typed fields, containers behind interfaces holding
// pointers, "-" for bookkeeping fields.
package shapes

import (
	"fmt"
	"math/rand"
	"reflect"
)

// Flat has no embedding: two mandatory and several optional fields and one
// field excluded with "-".
type Flat struct {
	A *int64   `cbor:"1,keyasint,omitempty" json:"a,omitempty"`
	B *string  `cbor:"2,keyasint" json:"b"`
	C *[]byte  `cbor:"3,keyasint,omitempty" json:"c,omitempty"`
	D *uint16  `cbor:"-4,keyasint" json:"d"`
	E *bool    `cbor:"5,keyasint,omitempty" json:"e,omitempty"`
	F *float64 `cbor:"600,keyasint,omitempty" json:"f,omitempty"`

	Skip string `cbor:"-" json:"-"`
}

// Inner is embedded by the other shapes.
type Inner struct {
	X *int64  `cbor:"100,keyasint,omitempty" json:"x,omitempty"`
	Y *string `cbor:"101,keyasint" json:"y"`
	Z *[]byte `cbor:"-102,keyasint,omitempty" json:"z,omitempty"`

	Book string `cbor:"-" json:"-"`
}

// Emb1: one level of struct embedding.
type Emb1 struct {
	Inner
	P *string `cbor:"10,keyasint,omitempty" json:"p,omitempty"`
	Q *int64  `cbor:"11,keyasint" json:"q"`
}

// Emb2: two levels.
type Emb2 struct {
	Emb1
	R *string `cbor:"20,keyasint" json:"r"`
	S *uint16 `cbor:"21,keyasint,omitempty" json:"s,omitempty"`
}

// IThing is the interface embedded by EmbIface.
type IThing interface{ Thing() }

// value receiver: both Inner and *Inner can be held by the interface
func (Inner) Thing() {}

// EmbIface embeds an interface that holds *Inner or nothing.
type EmbIface struct {
	IThing `cbor:"-" json:"-"`
	T      *string `cbor:"30,keyasint,omitempty" json:"t,omitempty"`
	U      *int64  `cbor:"31,keyasint" json:"u"`
}

// AllOptional has only optional fields (the all-empty value serialises to an
// empty map).
type AllOptional struct {
	A *int64  `cbor:"1,keyasint,omitempty" json:"a,omitempty"`
	B *string `cbor:"2,keyasint,omitempty" json:"b,omitempty"`
	C *[]byte `cbor:"3,keyasint,omitempty" json:"c,omitempty"`
}

// EmbAllOptional embeds AllOptional and has only optional fields itself.
type EmbAllOptional struct {
	AllOptional
	D *string `cbor:"4,keyasint,omitempty" json:"d,omitempty"`
}

// Plain does NOT follow the claims convention (non-pointer fields of many
// kinds). It is only a decode DESTINATION for the hostile-bytes properties
// (no input may make the populate helpers panic, whatever the struct).
type Plain struct {
	N     int             `cbor:"1,keyasint" json:"n"`
	S     string          `cbor:"2,keyasint,omitempty" json:"s,omitempty"`
	B     bool            `cbor:"3,keyasint" json:"b"`
	A     [2]byte         `cbor:"4,keyasint,omitempty" json:"a,omitempty"`
	F     float64         `cbor:"5,keyasint,omitempty" json:"f,omitempty"`
	M     map[string]int  `cbor:"6,keyasint,omitempty" json:"m,omitempty"`
	L     []int           `cbor:"7,keyasint,omitempty" json:"l,omitempty"`
	I     any             `cbor:"8,keyasint,omitempty" json:"i,omitempty"`
	U     uint8           `cbor:"9,keyasint,omitempty" json:"u,omitempty"`
	T     struct{ X int } `cbor:"10,keyasint,omitempty" json:"t,omitempty"`
	Inner                 // embedded by value, too
	P     *Plain          `cbor:"11,keyasint,omitempty" json:"p,omitempty"`
}

// Names of the compile-time shapes.
var Names = []string{"Flat", "Emb1", "Emb2", "EmbIface", "EmbIfaceNil", "AllOptional", "EmbAllOptional"}

// New returns a fresh zero value (pointer) of the named shape.
func New(name string) any {
	switch name {
	case "Flat":
		return &Flat{}
	case "Emb1":
		return &Emb1{}
	case "Emb2":
		return &Emb2{}
	case "EmbIface":
		return &EmbIface{IThing: &Inner{}}
	case "EmbIfaceNil":
		return &EmbIface{}
	case "AllOptional":
		return &AllOptional{}
	case "EmbAllOptional":
		return &EmbAllOptional{}
	}
	panic("unknown shape " + name)
}

// FieldInfo describes one serialisable field of a shape, flattened over the
// embedding levels, in the order the codec is documented to emit them (outer
// fields first, then embedded ones).
type FieldInfo struct {
	Path     []int // reflect index path from the outer struct value (through interface elems)
	CBORKey  int64
	JSONName string
	Optional bool
	Kind     string // int64, string, bytes, uint16, bool, float64
}

// Fields lists the serialisable fields of shape value v (pointer to struct),
// written independently of the library's reflect walk.
func Fields(v any) []FieldInfo {
	switch t := v.(type) {
	case *Flat:
		return []FieldInfo{{[]int{0}, 1, "a", true, "int64"}, {[]int{1}, 2, "b", false, "string"}, {[]int{2}, 3, "c", true, "bytes"},
			{[]int{3}, -4, "d", false, "uint16"}, {[]int{4}, 5, "e", true, "bool"}, {[]int{5}, 600, "f", true, "float64"}}
	case *Inner:
		return []FieldInfo{{[]int{0}, 100, "x", true, "int64"}, {[]int{1}, 101, "y", false, "string"}, {[]int{2}, -102, "z", true, "bytes"}}
	case *Emb1:
		out := []FieldInfo{{[]int{1}, 10, "p", true, "string"}, {[]int{2}, 11, "q", false, "int64"}}
		for _, f := range Fields(&t.Inner) {
			f.Path = append([]int{0}, f.Path...)
			out = append(out, f)
		}
		return out
	case *Emb2:
		out := []FieldInfo{{[]int{1}, 20, "r", false, "string"}, {[]int{2}, 21, "s", true, "uint16"}}
		for _, f := range Fields(&t.Emb1) {
			f.Path = append([]int{0}, f.Path...)
			out = append(out, f)
		}
		return out
	case *EmbIface:
		out := []FieldInfo{{[]int{1}, 30, "t", true, "string"}, {[]int{2}, 31, "u", false, "int64"}}
		if in, ok := t.IThing.(*Inner); ok && in != nil {
			for _, f := range Fields(in) {
				f.Path = append([]int{0, -1}, f.Path...) // -1: through the interface and the pointer
				out = append(out, f)
			}
		}
		return out
	case *AllOptional:
		return []FieldInfo{{[]int{0}, 1, "a", true, "int64"}, {[]int{1}, 2, "b", true, "string"}, {[]int{2}, 3, "c", true, "bytes"}}
	case *EmbAllOptional:
		out := []FieldInfo{{[]int{1}, 4, "d", true, "string"}}
		for _, f := range Fields(&t.AllOptional) {
			f.Path = append([]int{0}, f.Path...)
			out = append(out, f)
		}
		return out
	}
	panic(fmt.Sprintf("unknown shape %T", v))
}

// FieldValue resolves a FieldInfo path to the (pointer-typed) field value.
func FieldValue(v any, f FieldInfo) reflect.Value {
	rv := reflect.ValueOf(v).Elem()
	for _, i := range f.Path {
		if i == -1 {
			rv = rv.Elem().Elem() // interface -> pointer -> struct
			continue
		}
		rv = rv.Field(i)
	}
	return rv
}

// Fill sets every field selected by present(i) to a random value and clears
// the others. Mandatory fields are always set unless allowMissing.
func Fill(r *rand.Rand, v any, present func(i int, f FieldInfo) bool) {
	for i, f := range Fields(v) {
		fv := FieldValue(v, f)
		if !present(i, f) {
			fv.Set(reflect.Zero(fv.Type()))
			continue
		}
		switch f.Kind {
		case "int64":
			x := []int64{0, 1, -1, 23, 24, 255, 256, -257, 65535, 65536, 1 << 40, -(1 << 40), r.Int63() - (1 << 62)}[r.Intn(13)]
			fv.Set(reflect.ValueOf(&x))
		case "string":
			x := []string{"", "a", "text", "ünï ☃", "q\"\\\n", "<&>", string(make([]byte, 30))}[r.Intn(7)]
			fv.Set(reflect.ValueOf(&x))
		case "bytes":
			x := make([]byte, []int{0, 1, 23, 24, 32, 255, 256}[r.Intn(7)])
			r.Read(x)
			fv.Set(reflect.ValueOf(&x))
		case "uint16":
			x := []uint16{0, 1, 23, 24, 255, 256, 65535}[r.Intn(7)]
			fv.Set(reflect.ValueOf(&x))
		case "bool":
			x := r.Intn(2) == 0
			fv.Set(reflect.ValueOf(&x))
		case "float64":
			x := []float64{0, 1.5, -2.25, 1e300, 100000}[r.Intn(5)]
			fv.Set(reflect.ValueOf(&x))
		}
	}
}

// Render gives a canonical text of the serialisable content of v (for
// equality of round trips): field name = value or "-" if unset.
func Render(v any) string {
	s := ""
	for _, f := range Fields(v) {
		fv := FieldValue(v, f)
		if fv.IsNil() {
			s += f.JSONName + "=-;"
			continue
		}
		s += fmt.Sprintf("%s=%#v;", f.JSONName, fv.Elem().Interface())
	}
	return s
}

// ---- synthetic flat shapes with N keys (reflect.StructOf) ------------------------------

var synthCache = map[int]reflect.Type{}

// SynthType returns a flat struct type with n optional *uint16 fields whose
// CBOR keys are 0..n-1 and JSON names k0..k(n-1).
func SynthType(n int) reflect.Type {
	if t, ok := synthCache[n]; ok {
		return t
	}
	fields := make([]reflect.StructField, n)
	var u *uint16
	for i := 0; i < n; i++ {
		fields[i] = reflect.StructField{
			Name: fmt.Sprintf("F%d", i),
			Type: reflect.TypeOf(u),
			Tag:  reflect.StructTag(fmt.Sprintf(`cbor:"%d,keyasint,omitempty" json:"k%d,omitempty"`, i, i)),
		}
	}
	t := reflect.StructOf(fields)
	synthCache[n] = t
	return t
}

// NewSynth returns a pointer to a zero value of SynthType(n).
func NewSynth(n int) any { return reflect.New(SynthType(n)).Interface() }
