// Package keys generates signing keys and go-cose signers for the seven
// algorithms go-cose can sign with.
package keys

import (
	"crypto"
	"crypto/ecdsa"
	"crypto/ed25519"
	"crypto/elliptic"
	"crypto/rand"
	"crypto/rsa"
	"sync"

	cose "github.com/veraison/go-cose"
)

type Pair struct {
	Name   string
	Alg    cose.Algorithm
	Priv   crypto.Signer
	Pub    crypto.PublicKey
	Signer cose.Signer
}

var AlgNames = []string{"ES256", "ES384", "ES512", "EdDSA", "PS256", "PS384", "PS512"}

var algOf = map[string]cose.Algorithm{"ES256": cose.AlgorithmES256, "ES384": cose.AlgorithmES384, "ES512": cose.AlgorithmES512,
	"EdDSA": cose.AlgorithmEdDSA, "PS256": cose.AlgorithmPS256, "PS384": cose.AlgorithmPS384, "PS512": cose.AlgorithmPS512}

var (
	rsaMu   sync.Mutex
	rsaPool []*rsa.PrivateKey
)

// rsaKey returns the i-th RSA-2048 key of the process (generation is slow,
// so a process keeps a small pool of fresh keys).
func rsaKey(i int) *rsa.PrivateKey {
	rsaMu.Lock()
	defer rsaMu.Unlock()
	for len(rsaPool) <= i {
		k, err := rsa.GenerateKey(rand.Reader, 2048)
		if err != nil {
			panic(err)
		}
		rsaPool = append(rsaPool, k)
	}
	return rsaPool[i]
}

// New returns a fresh key pair for the algorithm (RSA: the idx-th pooled key).
func New(name string, idx int) Pair {
	p := Pair{Name: name, Alg: algOf[name]}
	switch name {
	case "ES256":
		k, _ := ecdsa.GenerateKey(elliptic.P256(), rand.Reader)
		p.Priv, p.Pub = k, &k.PublicKey
	case "ES384":
		k, _ := ecdsa.GenerateKey(elliptic.P384(), rand.Reader)
		p.Priv, p.Pub = k, &k.PublicKey
	case "ES512":
		k, _ := ecdsa.GenerateKey(elliptic.P521(), rand.Reader)
		p.Priv, p.Pub = k, &k.PublicKey
	case "EdDSA":
		pub, priv, _ := ed25519.GenerateKey(rand.Reader)
		p.Priv, p.Pub = priv, pub
	default:
		k := rsaKey(idx % 3)
		p.Priv, p.Pub = k, &k.PublicKey
	}
	s, err := cose.NewSigner(p.Alg, p.Priv)
	if err != nil {
		panic(err)
	}
	p.Signer = s
	return p
}

// NewCross returns a key pair that uses an ECDSA algorithm with a curve other
// than the customary one (COSE ties the hash to the algorithm, not the curve:
// ES256 may be used with a P-384 or P-521 key and so on).
func NewCross(name string, curveBits int) Pair {
	p := Pair{Name: name, Alg: algOf[name]}
	var cv elliptic.Curve
	switch curveBits {
	case 256:
		cv = elliptic.P256()
	case 384:
		cv = elliptic.P384()
	default:
		cv = elliptic.P521()
	}
	k, _ := ecdsa.GenerateKey(cv, rand.Reader)
	p.Priv, p.Pub = k, &k.PublicKey
	s, err := cose.NewSigner(p.Alg, p.Priv)
	if err != nil {
		panic(err)
	}
	p.Signer = s
	return p
}
