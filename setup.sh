#!/bin/sh
# Offline setup: builds the supervisor and warms the Go build cache for the
# worker variants (plain and -race) from files on disk only.
cd "$(dirname "$0")" || exit 1
export GOFLAGS=-mod=mod GOPROXY=off GOSUMDB=off GOTOOLCHAIN=local
mkdir -p bin .work evidence replays
(cd harness && go build -o ../bin/psamon ./cmd/psamon) || exit 1
(cd harness && go build -tags verif -o ../.work/warm-worker ./cmd/worker) || exit 1
(cd harness && go build -tags verif -race -o ../.work/warm-worker-race ./cmd/worker) || exit 1
rm -f .work/warm-worker .work/warm-worker-race
echo setup ok
