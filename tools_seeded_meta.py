#!/usr/bin/env python3
"""Writes seeded/<id>/meta.json from the table below (kept in one place)."""
import json, os
T = {
 "C01-a": ("C01", "ValidatePSAHashType rewritten as 'non-empty multiple of 16 up to 64': a 16-byte nonce / measurement value / signer id validates", "an exact boundary length (16) that the suite never tries", "C01", False, ""),
 "C01-b": ("C01", "SwComponents.Values() caches its validated result; editing a component in place after a successful Validate() is not noticed", "a sequence on ONE object: validate, edit a component through a retained pointer, validate again", "C01", True, "C01 now also rewrites validated objects in place (fields, retained component pointers) and re-observes them"),
 "C02-a": ("C02", "Evidence.Verify memoises (key, signature) of the last success; the memo survives UnmarshalCOSE", "ONE reused Evidence: decode+verify token A, then decode a token with other payload but A's signature", "C02", True, "C02 now feeds every mutant also to one reused Evidence that has just verified the original"),
 "C02-b": ("C02", "Verify falls back to the algorithm of the UNPROTECTED header and writes it into the decoded protected map", "an envelope with empty protected bucket whose signature is valid over those alg-less bytes", "C02", False, ""),
 "C03-a": ("C03", "ValidateAndSign caches the encoded payload per claims pointer", "sign, edit the attached claims in place (new nonce), sign again on the same Evidence", "C03", True, "C03 now signs a second time on the same Evidence after an in-place edit"),
 "C03-b": ("C03", "Verify pre-checks the signature length and computes 128 bytes for ES512 (P-521 needs 132)", "an ES512 key (every existing test uses ES256)", "C03", False, ""),
 "C04-a": ("C04", "MaxNestedLevels: 4 added to the CBOR decode mode", "a conformant token carrying an unknown extra key whose value nests 5 deep", "C04", False, ""),
 "C04-b": ("C04", "profile selector decoded into *eat.Profile (URL-normalising) instead of a string", "a profile-2 token declaring HTTP://arm.com/psa/2.0.0 or ...2.0.0# (scheme case / empty fragment)", "C04", True, "C04's wire generator (and C07) now emit near-miss profile names that only a normalising comparison equates"),
 "C05-a": ("C05", "Verify type-asserts the alg header to cose.Algorithm without checking", "a decodable token whose protected alg is a text string; the panic is in Verify on the RESULT of decoding", "C05", False, ""),
 "C05-b": ("C05", "processAdditionalInfo: bounds check hoisted with the case selector instead of the argument size", "a map / tag head announcing a 4-byte argument followed by exactly 3 bytes", "C05", True, "C05 now feeds every header byte followed by 0..9 argument bytes (bare, behind tags, as map value) and truncations of width-forced re-encodings"),
 "C06-a": ("C06", "Keys slice appended with clipped capacity: quadratic copying in FromCBOR / FromJSON", "a well-formed map with > 1000 small entries (no bomb header involved)", "C06", False, ""),
 "C06-b": ("C06", "SwComponents.UnmarshalCBOR pre-sizes its slice from the head argument without checking the major type", "a non-array item with a large 4-byte argument (uint, float32, tag) under the components key", "C06", False, ""),
 "C07-a": ("C07", "JSON default-profile fallback only looks at psa-profile", "a JSON token declaring an unregistered profile under eat-profile only", "C07", False, ""),
 "C07-b": ("C07", "CBOR selector decoded into *eat.Profile (URL-normalising)", "a token declaring Http://arm.com/psa/2.0.0", "C07", True, "near-miss profile names added to the C07 generator"),
 "C08-a": ("C08", "Evidence remembers 'already validated' claims by pointer; ValidateAndSign skips validation", "attach valid claims, invalidate the same object in place, ValidateAndSign", "C08", True, "C08 now attaches/encodes valid objects, invalidates them in place (clearing setter, exported field, retained component pointer) and re-runs every gate"),
 "C08-b": ("C08", "DecodeAndValidateClaimsFromCBOR calls the generic ValidateClaims instead of claims.Validate()", "a registered extension profile whose own rule (negative timestamp) is the only one broken, in CBOR", "C08", True, "extension tokens breaking only the extension's rule now go through the CBOR / JSON / COSE decode gates"),
 "C09-a": ("C09", "P1 MarshalCBOR drops the component list whenever the no-measurements flag is set", "a decodable-but-invalid P1 token carrying list AND flag, re-encoded", "C09", False, ""),
 "C09-b": ("C09", "hand-rolled CBOR key encoder writes negative keys off by one", "an extension profile with a negative-keyed claim serialised through the embedding-aware codec", "C09", False, ""),
 "C10-a": ("C10", "empty-components normalisation moved from MarshalCBOR to UnmarshalCBOR only", "P1 claims with the no-measurements flag obtained by JSON decoding, then CBOR-encoded", "C10", False, ""),
 "C10-b": ("C10", "SwComponents replays the bytes it was decoded from", "claims decoded from a token whose component array is not in canonical form (unknown key, null field)", "C10", False, ""),
 "C11-a": ("C11", "SwComponents.Replace truncates before validating", "a successful SetSoftwareComponents followed by a failing one on the same object", "C11", False, ""),
 "C11-b": ("C11", "SetVSI trims white space before validating / storing", "a VSI with leading / trailing white space, or white space only", "C11", False, ""),
 "C12-a": ("C12", "P1Claims.UnmarshalJSON decodes into a template that has the profile preset", "a profile-1 set without explicit profile claim, CBOR -> JSON -> CBOR", "C12", False, ""),
 "C12-b": ("C12", "EncodeClaimsToJSON returns a sync.Pool buffer without copying", "encode A, encode B, then use A's bytes", "C12", True, "C09 and C12 now keep every returned encoding and re-check / re-decode it after six further encodes"),
 "C13-a": ("C13", "zero-length measurement value / signer id reported as missing-mandatory", "a component byte string of length exactly 0", "C13", False, ""),
 "C13-b": ("C13", "FilterError walks one Unwrap chain with == instead of errors.Is", "an ignorable sentinel reachable only through errors.Join / multi-%w / custom Is", "C13", False, ""),
 "C14-a": ("C14", "state selector masked to 3 bits", "lifecycle values 0x80xx..0xe0xx", "C14", False, ""),
 "C14-b": ("C14", "validator lists accepted states explicitly and forgets recoverable-psa-rot-debug", "lifecycle values 0x50xx through setters / Validate", "C14", False, ""),
 "C15-a": ("C15", "map-head helper uses <= 1<<8 and <= 1<<16", "a merged map with exactly 256 (or 65536) entries", "C15", False, ""),
 "C15-b": ("C15", "JSON populate returns early when all input keys are consumed, before visiting embedded structs", "a mandatory field of an EMBEDDED struct missing while no other unconsumed key is present", "C15", False, ""),
 "C16-a": ("C16", "JSON dispatch breaks at the first match; 'matched multiple profiles' guard removed", "a document declaring two registered profiles under the two profile members; outcome depends on map iteration order", "C16", True, "C16's probe universe now contains documents declaring two profiles at once (also caught by C07)"),
 "C16-b": ("C16", "every new P2Claims shares one package-level *eat.Profile", "write through the Profile pointer of one instance", "C16", False, ""),
 "C17-a": ("C17", "lazily built, unsynchronised list of profile names for JSON dispatch, reset by every registration", "the FIRST JSON decodes after start-up / after a registration must run concurrently", "C17", True, "C17 now registers a fresh profile (single-threaded) before every round and runs the concurrent pass before the sequential reference"),
 "C17-b": ("C17", "P1 Marshal* with pointer receiver temporarily detaches an empty component container", "a SHARED decoded P1 set asserting no-software-measurements, encoded concurrently", "C17", False, ""),
 "C18-a": ("C18", "SwComponents keeps the caller's CBOR buffer and replays it on MarshalCBOR", "decode, overwrite the input buffer, encode again", "C18", False, ""),
 "C18-b": ("C18", "P1Claims.GetProfile with pointer receiver fills in the absent profile claim", "a P1 set without profile claim, GetProfile called directly, then encoded", "C18", False, ""),
 "C19-a": ("C19", "the envelope is only replaced after a sign fully succeeds", "success, then a FAILING sign (signer fault), then Verify", "C19", False, ""),
 "C19-b": ("C19", "a claims-decode failure in UnmarshalCOSE no longer clears Evidence.Claims", "an Evidence with claims decodes a validly signed envelope whose payload is not decodable claims", "C19", False, ""),
 "C20-a": ("C20", "envelope decoded with a one-item stream decoder", "a good token followed by extra bytes, or a tag-55799 prefix", "C20", False, ""),
 "C20-b": ("C20", "isCBORMap returns true for any tag", "a payload that is a tagged null / undefined", "C20", False, ""),
}
for sid, (prop, what, needs, caught, missed, strengthened) in T.items():
    d = '/verif/seeded/' + sid
    if not os.path.isdir(d):
        print("missing", d); continue
    m = {"seed": sid, "property": prop, "origin": "independent sub-agent given only the property text and a scratch worktree",
         "change": what, "needs_to_manifest": needs,
         "confirmed": "tools_seed_verify.sh (scratch worktree): demo passes unchanged; with patch: go build + go vet + existing suite pass, demo fails",
         "ran": "tools_mutant.sh seeded/%s/patch.diff %s  (git -C /repo apply; ./check %s quick; git -C /repo apply -R)" % (sid, caught, caught),
         "caught_by": [caught], "missed_at_first": missed}
    if strengthened:
        m["strengthening"] = strengthened
    json.dump(m, open(d + '/meta.json', 'w'), indent=1)
print(len(T), "meta files")
